import PcbV.Model.Expr
/-
  Lemmas for C18: the stack invariant of the shunting-yard loop of `PcbV.Expr.run`
  against the nondeterministic printer `Prints` (minimal … fully redundant parentheses).
-/
namespace PcbV.Expr
open PcbV PcbV.Gen

/-! ### facts about the regenerated operator tables (re-checked by `decide` on every build) -/

def binKeys : List Key := Prec.binary.map (·.1)
def unKeys : List Key := Prec.unary.map (·.1)

/-- what the loop needs of a binary operator key -/
def binOk (k : Key) : Bool :=
  (binaryFn k).isSome && (lookupPrec k 2).isSome && decide (0 < precB k) && isOperator k &&
  (k != Prec.notTok) &&
  match k with
  | [b] => isOperator [b] && ([b] != Prec.notTok)
  | [b, c] => isOperator [b] && ([b] != Prec.notTok) && isCombinable [b] && isCombinable [c]
  | _ => false

/-- what the loop needs of a unary operator key -/
def unOk (k : Key) : Bool :=
  (unaryFn k).isSome && (lookupPrec k 1).isSome && isOperator k &&
  match k with
  | [b] => !isCombinable [b]
  | _ => false

theorem tables_binary_ok : ∀ k ∈ binKeys, binOk k = true := by decide
theorem tables_unary_ok : ∀ k ∈ unKeys, unOk k = true := by decide
/-- OPERATORS is the set of keys of PRECEDENCE -/
theorem tables_prec_keys : ∀ e ∈ Prec.precedence, isOperator e.1.1 = true ∧ (e.1.2 = 1 ∨ e.1.2 = 2) := by decide

theorem lookupPrecIn_mem (tbl : List ((Key × Nat) × Nat)) (k : Key) (n p : Nat)
    (h : lookupPrecIn tbl k n = some p) : ((k, n), p) ∈ tbl := by
  induction tbl with
  | nil => simp [lookupPrecIn] at h
  | cons e rest ih =>
    obtain ⟨⟨k', n'⟩, p'⟩ := e
    simp only [lookupPrecIn] at h
    split at h
    · next hc =>
      obtain ⟨h1, h2⟩ := hc
      simp only [Option.some.injEq] at h
      subst h1 h2 h
      exact List.mem_cons_self
    · exact List.mem_cons_of_mem _ (ih h)

theorem lookupPrec_isOperator (k : Key) (n p : Nat) (h : lookupPrec k n = some p) : isOperator k = true :=
  (tables_prec_keys _ (lookupPrecIn_mem _ _ _ _ h)).1

/-! ### trees over the current tables -/

/-- every operator of the tree is a key of `op.BINARY` / `op.UNARY` -/
def Wf : Tree → Prop
  | Tree.leaf _ => True
  | Tree.un k a => k ∈ unKeys ∧ Wf a
  | Tree.bin k a b => k ∈ binKeys ∧ Wf a ∧ Wf b

/-- The printer as a relation: `Prints lp rp t ts` — `ts` is a rendering of `t` in a context where the
    operator to the left has precedence `lp` and the binary operator to the right has precedence `rp`;
    parentheses may be added anywhere (`paren`), and are omitted only where precedence allows. -/
inductive Prints : Nat → Nat → Tree → List Tok → Prop
  | leaf (lp rp i) : Prints lp rp (Tree.leaf i) [Tok.leaf i]
  | un (lp rp k a ts) : rp ≤ precU k → Prints (precU k) rp a ts →
      Prints lp rp (Tree.un k a) (keyToks k ++ ts)
  | bin (lp rp k a b ta tb) : lp < precB k → rp ≤ precB k →
      Prints lp (precB k) a ta → Prints (precB k) rp b tb →
      Prints lp rp (Tree.bin k a b) (ta ++ keyToks k ++ tb)
  | paren (lp rp t ts) : Prints 0 0 t ts → Prints lp rp t ([Tok.lpar] ++ ts ++ [Tok.rpar])

/-! ### stack bookkeeping -/

/-- number of units the operators on the stack still need beyond the one they produce -/
def need : List Entry → Nat
  | [] => 0
  | e :: r => (e.nargs - 1) + need r

abbrev ArOk (ops : List Entry) : Prop := ∀ e ∈ ops, e.nargs = 1 ∨ e.nargs = 2

/-- balanced frame: exactly the operands needed are present (one more after a unit) -/
def Bal (f : Frame) : Prop :=
  ArOk f.ops ∧ f.units.length = need f.ops + (if f.lastOp then 0 else 1)

def TopLe (ops : List Entry) (lp : Nat) : Prop :=
  match ops with
  | [] => True
  | e :: _ => e.prec ≤ lp

theorem need_append (a b : List Entry) : need (a ++ b) = need a + need b := by
  induction a with
  | nil => simp [need]
  | cons e r ih => simp [need, ih]; omega

theorem ArOk_append {a b : List Entry} (ha : ArOk a) (hb : ArOk b) : ArOk (a ++ b) := by
  intro e he
  rcases List.mem_append.1 he with h | h
  · exact ha e h
  · exact hb e h

theorem ArOk_cons {e : Entry} {r : List Entry} (he : e.nargs = 1 ∨ e.nargs = 2) (hr : ArOk r) :
    ArOk (e :: r) := by
  intro x hx
  rcases List.mem_cons.1 hx with h | h
  · subst h; exact he
  · exact hr x h

theorem ArOk_tail {e : Entry} {r : List Entry} (h : ArOk (e :: r)) : ArOk r :=
  fun x hx => h x (List.mem_cons_of_mem _ hx)

theorem drain_stop (p lp : Nat) (ops : List Entry) (units : List Tree) (h : TopLe ops lp) (hlt : lp < p) :
    drain p ops units = some (ops, units) := by
  cases ops with
  | nil => simp [drain]
  | cons e r =>
    simp only [TopLe] at h
    have : p > e.prec := by omega
    simp [drain, this]

/-- draining a balanced stack after a unit never raises IndexError and stays balanced -/
theorem drain_bal (p : Nat) : ∀ (ops : List Entry) (units : List Tree), ArOk ops → units.length = need ops + 1 →
    ∃ o u, drain p ops units = some (o, u) ∧ ArOk o ∧ u.length = need o + 1 := by
  intro ops
  induction ops with
  | nil =>
    intro units ha hl
    refine ⟨[], units, ?_, ha, hl⟩
    simp [drain]
  | cons e r ih =>
    intro units ha hl
    by_cases hp : p > e.prec
    · exact ⟨e :: r, units, by simp [drain, hp], ha, hl⟩
    · simp only [drain, hp, if_false]
      have hr := ArOk_tail ha
      rcases ha e List.mem_cons_self with h1 | h2
      · simp only [need, h1] at hl
        cases units with
        | nil => simp at hl
        | cons a us =>
          simp only [h1, applyOp]
          exact ih (Tree.un e.key a :: us) hr (by simpa using hl)
      · simp only [need, h2] at hl
        cases units with
        | nil => simp at hl
        | cons b us =>
          cases us with
          | nil => simp at hl
          | cons a us =>
            simp only [h2, applyOp]
            exact ih (Tree.bin e.key a b :: us) hr (by simp at hl ⊢; omega)

/-- after an operator (or at the start) the final drain always runs out of operands -/
theorem drain_short : ∀ (ops : List Entry) (units : List Tree), ArOk ops → units.length = need ops →
    drain 0 ops units = none ∨ drain 0 ops units = some ([], []) := by
  intro ops
  induction ops with
  | nil =>
    intro units _ hl
    cases units with
    | nil => right; simp [drain]
    | cons a us => simp [need] at hl
  | cons e r ih =>
    intro units ha hl
    have hr := ArOk_tail ha
    have hp : ¬ (0 > e.prec) := by omega
    simp only [drain, hp, if_false]
    rcases ha e List.mem_cons_self with h1 | h2
    · simp only [need, h1] at hl
      cases units with
      | nil => left; simp [h1, applyOp]
      | cons a us =>
        simp only [h1, applyOp]
        exact ih _ hr (by simpa using hl)
    · simp only [need, h2] at hl
      cases units with
      | nil => left; simp [h2, applyOp]
      | cons b us =>
        cases us with
        | nil => left; simp [h2, applyOp]
        | cons a us =>
          simp only [h2, applyOp]
          exact ih _ hr (by simp at hl ⊢; omega)

theorem finish_missing (final : Bool) (f : Frame) (hb : Bal f) (hl : f.lastOp = true) :
    finish final f = .error (if final then E.missing_operand else E.stx) := by
  obtain ⟨ha, hlen⟩ := hb
  simp only [hl, if_true, Nat.add_zero] at hlen
  unfold finish
  rcases drain_short f.ops f.units ha hlen with h | h <;> simp [h]

/-! ### how one operator token (sequence) is consumed -/

theorem run_op_single (f : Frame) (ps : List Frame) (b : Nat) (rest : List Tok)
    (hop : isOperator [b] = true) (hnot : ([b] == Prec.notTok && !f.lastOp) = false)
    (hnc : ∀ c r2, rest = Tok.op c :: r2 → (isCombinable [b] && isCombinable [c]) = false) :
    run f ps (Tok.op b :: rest) =
      match pushOp f [b] with
      | .error e => .error e
      | .ok f' => run f' ps rest := by
  cases rest with
  | nil =>
    rw [run]
    · simp only [hop, hnot, if_true, Bool.false_eq_true, if_false]; rfl
    · intro c r h; cases h
  | cons t r2 =>
    cases t with
    | op c =>
      have := hnc c r2 rfl
      rw [run]; simp only [hop, hnot, this, if_true, Bool.false_eq_true, if_false]; rfl
    | _ =>
      rw [run]
      · simp only [hop, hnot, if_true, Bool.false_eq_true, if_false]; rfl
      · intro c r h; cases h

theorem run_op_double (f : Frame) (ps : List Frame) (b c : Nat) (rest : List Tok)
    (hop : isOperator [b] = true) (hnot : ([b] == Prec.notTok && !f.lastOp) = false)
    (hb : isCombinable [b] = true) (hc : isCombinable [c] = true) :
    run f ps (Tok.op b :: Tok.op c :: rest) =
      match pushOp f [b, c] with
      | .error e => .error e
      | .ok f' => run f' ps rest := by
  rw [run]
  simp only [hop, hnot, hb, hc, if_true, Bool.false_eq_true, if_false, Bool.and_self]
  rfl

/-- the first token of a rendering is never a combinable operator token -/
def StartOk : List Tok → Prop
  | Tok.op c :: _ => isCombinable [c] = false
  | _ => True

theorem unOk_shape {k : Key} (h : unOk k = true) :
    ∃ b, k = [b] ∧ isCombinable [b] = false ∧ isOperator [b] = true ∧
      (unaryFn [b]).isSome = true ∧ (lookupPrec [b] 1).isSome = true := by
  unfold unOk at h
  match k, h with
  | [], h => simp at h
  | [b], h =>
    simp only [Bool.and_eq_true, Bool.not_eq_true'] at h
    exact ⟨b, rfl, h.2, h.1.2, h.1.1.1, h.1.1.2⟩
  | _ :: _ :: _, h => simp at h

theorem prints_startOk {lp rp : Nat} {t : Tree} {ts : List Tok} (h : Prints lp rp t ts) (hw : Wf t)
    (rest : List Tok) : StartOk (ts ++ rest) := by
  induction h generalizing rest with
  | leaf => simp [StartOk]
  | un lp rp k a ts _ _ _ =>
    obtain ⟨b, hk, hc, _⟩ := unOk_shape (tables_unary_ok k hw.1)
    subst hk
    simp [keyToks, StartOk, hc]
  | bin lp rp k a b ta tb _ _ _ _ iha _ =>
    have := iha hw.2.1 (keyToks k ++ tb ++ rest)
    simpa only [List.append_assoc] using this
  | paren => simp [StartOk]

theorem binOk_shape {k : Key} (h : binOk k = true) :
    ∃ fn p, binaryFn k = some fn ∧ lookupPrec k 2 = some p ∧ precB k = p ∧ 0 < p ∧ isOperator k = true ∧
      (k == Prec.notTok) = false ∧
      ((∃ b, k = [b] ∧ isOperator [b] = true ∧ ([b] == Prec.notTok) = false) ∨
       (∃ b c, k = [b, c] ∧ isOperator [b] = true ∧ ([b] == Prec.notTok) = false ∧
          isCombinable [b] = true ∧ isCombinable [c] = true)) := by
  unfold binOk at h
  simp only [Bool.and_eq_true, decide_eq_true_eq, bne_iff_ne, ne_eq] at h
  obtain ⟨⟨⟨⟨⟨h1, h2⟩, h3⟩, h4⟩, h5⟩, h6⟩ := h
  obtain ⟨fn, hfn⟩ := Option.isSome_iff_exists.1 h1
  obtain ⟨p, hp⟩ := Option.isSome_iff_exists.1 h2
  have hpp : precB k = p := by simp [precB, hp]
  refine ⟨fn, p, hfn, hp, hpp, hpp ▸ h3, h4, by simpa using h5, ?_⟩
  match k, h6 with
  | [], h6 => simp at h6
  | [b], h6 =>
    simp only [Bool.and_eq_true, bne_iff_ne, ne_eq] at h6
    exact Or.inl ⟨b, rfl, h6.1, by simpa using h6.2⟩
  | [b, c], h6 =>
    simp only [Bool.and_eq_true, bne_iff_ne, ne_eq] at h6
    exact Or.inr ⟨b, c, rfl, h6.1.1.1, by simpa using h6.1.1.2, h6.1.2, h6.2⟩
  | _ :: _ :: _ :: _, h6 => simp at h6

/-- a binary operator key arriving after a unit -/
theorem run_binop {k : Key} (hk : binOk k = true) (f : Frame) (_hl : f.lastOp = false) (ps : List Frame)
    (rest : List Tok) (hs : StartOk rest) :
    run f ps (keyToks k ++ rest) =
      match pushOp f k with
      | .error e => .error e
      | .ok f' => run f' ps rest := by
  obtain ⟨fn, p, _, _, _, _, _, _, hsh⟩ := binOk_shape hk
  rcases hsh with ⟨b, rfl, hop, hn⟩ | ⟨b, c, rfl, hop, hn, hb, hc⟩
  · refine run_op_single f ps b rest hop (by simp [hn]) ?_
    intro c r2 hr
    subst hr
    simp only [StartOk] at hs
    simp [hs]
  · exact run_op_double f ps b c rest hop (by simp [hn]) hb hc

theorem pushOp_bin {k : Key} {fn : String} {p : Nat} (f : Frame) (hl : f.lastOp = false)
    (hn : (k == Prec.notTok) = false) (hfn : binaryFn k = some fn) (hp : lookupPrec k 2 = some p)
    (hop : isOperator k = true) {o : List Entry} {u : List Tree} (hd : drain p f.ops f.units = some (o, u)) :
    pushOp f k = .ok { ops := ⟨k, 2, p⟩ :: o, units := u, lastOp := true } := by
  simp [pushOp, hl, hn, hfn, hp, hop, hd]

/-- The stack invariant.  Reading a rendering `ts` of `t` from a frame that expects an operand leaves
    pending operators `P` and units `U` above the old stacks such that any later drain with a precedence
    not above `rp` collapses them to exactly the unit `t`. -/
theorem run_prints {lp rp : Nat} {t : Tree} {ts : List Tok} (h : Prints lp rp t ts) (hw : Wf t) :
    ∃ (P : List Entry) (U : List Tree),
      ArOk P ∧ U.length = need P + 1 ∧
      (∀ p, p ≤ rp → ∀ ops units, drain p (P ++ ops) (U ++ units) = drain p ops (t :: units)) ∧
      (∀ ops units ps rest, TopLe ops lp →
        run ⟨ops, units, true⟩ ps (ts ++ rest) = run ⟨P ++ ops, U ++ units, false⟩ ps rest) := by
  induction h with
  | leaf lp rp i =>
    refine ⟨[], [Tree.leaf i], (fun e he => nomatch he), by simp [need], ?_, ?_⟩
    · intros; rfl
    · intro ops units ps rest _
      simp [run]
  | un lp rp k a ts hrp _ ih =>
    obtain ⟨hk, hwa⟩ := hw
    obtain ⟨Pa, Ua, haP, hlen, hdr, hrun⟩ := ih hwa
    obtain ⟨b, rfl, hc, hop, hfn, hpr⟩ := unOk_shape (tables_unary_ok _ hk)
    obtain ⟨fn, hfn'⟩ := Option.isSome_iff_exists.1 hfn
    obtain ⟨q, hq⟩ := Option.isSome_iff_exists.1 hpr
    have hqq : precU [b] = q := by simp [precU, hq]
    rw [hqq] at hrp hrun
    refine ⟨Pa ++ [⟨[b], 1, q⟩], Ua, ?_, ?_, ?_, ?_⟩
    · exact ArOk_append haP (ArOk_cons (Or.inl rfl) (fun e he => nomatch he))
    · simp [need_append, need, hlen]
    · intro p hp ops units
      have := hdr p hp (⟨[b], 1, q⟩ :: ops) units
      simp only [List.append_assoc, List.singleton_append]
      rw [this]
      have hnp : ¬ (p > q) := by omega
      simp [drain, hnp, applyOp]
    · intro ops units ps rest _
      have h1 : run ⟨ops, units, true⟩ ps (keyToks [b] ++ ts ++ rest)
          = run ⟨⟨[b], 1, q⟩ :: ops, units, true⟩ ps (ts ++ rest) := by
        have := run_op_single ⟨ops, units, true⟩ ps b (ts ++ rest) hop (by simp) (by intro c r2 _; simp [hc])
        simp only [keyToks, List.map, List.cons_append,
          List.nil_append]
        rw [this]
        simp [pushOp, hfn', hq, hop]
      rw [h1, hrun _ _ _ _ (by simp [TopLe])]
      simp
  | bin lp rp k a b ta tb hlp hrp _ _ iha ihb =>
    obtain ⟨hk, hwa, hwb⟩ := hw
    obtain ⟨Pa, Ua, haPa, hlena, hdra, hruna⟩ := iha hwa
    obtain ⟨Pb, Ub, haPb, hlenb, hdrb, hrunb⟩ := ihb hwb
    have hok := tables_binary_ok _ hk
    obtain ⟨fn, p, hfn, hp, hpp, hpos, hop, hn, _⟩ := binOk_shape hok
    rw [hpp] at hlp hrp hdra hrunb
    refine ⟨Pb ++ [⟨k, 2, p⟩], Ub ++ [a], ?_, ?_, ?_, ?_⟩
    · exact ArOk_append haPb (ArOk_cons (Or.inr rfl) (fun e he => nomatch he))
    · simp [need_append, need, hlenb]
    · intro p' hp' ops units
      have := hdrb p' hp' (⟨k, 2, p⟩ :: ops) (a :: units)
      simp only [List.append_assoc, List.singleton_append]
      rw [this]
      have hnp : ¬ (p' > p) := by omega
      simp [drain, hnp, applyOp]
    · intro ops units ps rest htop
      have hs : StartOk (tb ++ rest) := prints_startOk ‹Prints (precB k) rp b tb› hwb rest
      have e1 : ta ++ keyToks k ++ tb ++ rest = ta ++ (keyToks k ++ (tb ++ rest)) := by
        simp only [List.append_assoc]
      have hd : drain p (Pa ++ ops) (Ua ++ units) = some (ops, a :: units) := by
        rw [hdra p (Nat.le_refl _) ops units, drain_stop p lp ops (a :: units) htop hlp]
      rw [e1, hruna ops units ps _ htop, run_binop hok _ rfl ps _ hs,
        pushOp_bin (fn := fn) (p := p) ⟨Pa ++ ops, Ua ++ units, false⟩ rfl hn hfn hp hop hd]
      simp only
      rw [hrunb _ _ _ _ (by simp [TopLe])]
      simp
  | paren lp rp t ts _ ih =>
    obtain ⟨P, U, haP, hlen, hdr, hrun⟩ := ih hw
    refine ⟨[], [t], (fun e he => nomatch he), by simp [need], ?_, ?_⟩
    · intros; rfl
    · intro ops units ps rest _
      have e1 : [Tok.lpar] ++ ts ++ [Tok.rpar] ++ rest = Tok.lpar :: (ts ++ (Tok.rpar :: rest)) := by simp
      rw [e1]
      have h0 : run ⟨ops, units, true⟩ ps (Tok.lpar :: (ts ++ (Tok.rpar :: rest)))
          = run emptyFrame (⟨ops, units, true⟩ :: ps) (ts ++ (Tok.rpar :: rest)) := by
        simp [run]
      rw [h0]
      unfold emptyFrame
      rw [hrun [] [] _ _ (by simp [TopLe])]
      have hd := hdr 0 (Nat.le_refl _) [] []
      simp only [List.append_nil] at hd ⊢
      simp [run, finish, hd, drain]

/-! ### no IndexError escapes from the mid-loop drain -/

theorem finish_no_index (final : Bool) (f : Frame) : finish final f ≠ .error pyIndexError := by
  unfold finish
  split
  · split
    · simp
    · cases final <;> simp [pyIndexError, E.missing_operand, E.stx]
  · cases final <;> simp [pyIndexError, E.missing_operand, E.stx]

theorem retHere_no_index (final : Bool) (f : Frame) (ps : List Frame) (toks : List Tok) :
    retHere final f ps toks ≠ .error pyIndexError := by
  unfold retHere
  have := finish_no_index final f
  split
  · next e h => intro h2; simp only [Except.error.injEq] at h2; subst h2; exact this h
  · split <;> simp [pyIndexError, E.stx]

theorem pushOp_bal (f : Frame) (d : Key) (hb : Bal f) (hnot : (d == Prec.notTok && !f.lastOp) = false) :
    pushOp f d ≠ .error pyIndexError ∧ ∀ f', pushOp f d = .ok f' → Bal f' ∧ f'.lastOp = true := by
  obtain ⟨ha, hlen⟩ := hb
  unfold pushOp
  split
  · next hcond =>
    -- unary
    have hl : f.lastOp = true := by
      cases hlo : f.lastOp
      · simp [hlo] at hcond hnot; exact absurd hcond (by simpa using hnot)
      · rfl
    split
    · next fn p hfn hp =>
      have hop := lookupPrec_isOperator d 1 p hp
      refine ⟨by simp, ?_⟩
      intro f' hf
      simp only [Except.ok.injEq] at hf
      subst hf
      refine ⟨⟨ArOk_cons (Or.inl rfl) ha, ?_⟩, hop⟩
      simp only [hop, if_true, need]
      simp [hl] at hlen
      omega
    · exact ⟨by simp [pyIndexError, E.stx], by intro f' hf; simp at hf⟩
  · next hcond =>
    have hl : f.lastOp = false := by
      cases hlo : f.lastOp
      · rfl
      · simp [hlo] at hcond
    split
    · next fn p hfn hp =>
      have hop := lookupPrec_isOperator d 2 p hp
      simp only [hl] at hlen
      obtain ⟨o, u, hd, hao, hlu⟩ := drain_bal p f.ops f.units ha (by simpa using hlen)
      rw [hd]
      refine ⟨by simp, ?_⟩
      intro f' hf
      simp only [Except.ok.injEq] at hf
      subst hf
      refine ⟨⟨ArOk_cons (Or.inr rfl) hao, ?_⟩, hop⟩
      simp only [hop, if_true, need]
      omega
    · exact ⟨by simp [pyIndexError, E.stx], by intro f' hf; simp at hf⟩
abbrev Susp (ps : List Frame) : Prop := ∀ q ∈ ps, Bal q ∧ q.lastOp = true

theorem step_push (f : Frame) (d : Key) (ps : List Frame) (rest : List Tok) (hb : Bal f)
    (hnot : (d == Prec.notTok && !f.lastOp) = false)
    (ih : ∀ f', Bal f' → run f' ps rest ≠ .error pyIndexError) :
    (match pushOp f d with
      | .error e => (.error e : R (Tree × List Tok))
      | .ok f' => run f' ps rest) ≠ .error pyIndexError := by
  obtain ⟨h1, h2⟩ := pushOp_bal f d hb hnot
  cases hp : pushOp f d with
  | error e =>
    intro h; simp only [Except.error.injEq] at h; subst h; exact h1 hp
  | ok f' => simp only; exact ih f' (h2 f' hp).1

theorem run_no_index : ∀ (n : Nat) (toks : List Tok), toks.length ≤ n → ∀ f ps, Bal f → Susp ps →
    run f ps toks ≠ .error pyIndexError := by
  intro n
  induction n with
  | zero =>
    intro toks hl f ps _ _
    cases toks with
    | nil => rw [run]; exact retHere_no_index _ _ _ _
    | cons t r => simp at hl
  | succ n ih =>
    intro toks hl f ps hb hps
    cases toks with
    | nil => rw [run]; exact retHere_no_index _ _ _ _
    | cons t rest =>
      have hlr : rest.length ≤ n := by simp at hl; omega
      cases t with
      | leaf i =>
        rw [run]
        split
        · exact retHere_no_index _ _ _ _
        · next hlo =>
          refine ih rest hlr _ _ ?_ hps
          have hlo' : f.lastOp = true := by simpa using hlo
          obtain ⟨ha, hlen⟩ := hb
          exact ⟨ha, by simp [hlo'] at hlen ⊢; omega⟩
      | lpar =>
        rw [run]
        split
        · exact retHere_no_index _ _ _ _
        · next hlo =>
          have hlo' : f.lastOp = true := by simpa using hlo
          refine ih rest hlr _ _ ⟨(fun e he => nomatch he), by simp [emptyFrame, need]⟩ ?_
          intro q hq
          rcases List.mem_cons.1 hq with h | h
          · subst h; exact ⟨hb, hlo'⟩
          · exact hps q h
      | rpar =>
        rw [run]
        split
        · next e he => intro h; simp only [Except.error.injEq] at h; subst h; exact finish_no_index _ _ he
        · split
          · simp
          · next p ps' =>
            obtain ⟨⟨ha, hlen⟩, hpl⟩ := hps p List.mem_cons_self
            refine ih rest hlr _ _ ⟨ha, ?_⟩ (fun q hq => hps q (List.mem_cons_of_mem _ hq))
            simp [hpl] at hlen ⊢; omega
      | sep => rw [run]; exact retHere_no_index _ _ _ _
      | stop => rw [run]; exact retHere_no_index _ _ _ _
      | junk =>
        rw [run]
        split
        · exact retHere_no_index _ _ _ _
        · simp [pyIndexError, E.stx]
      | op b =>
        rw [run.eq_def]
        simp only
        split
        · split
          · exact retHere_no_index _ _ _ _
          · next hnot =>
            have hnot' : ([b] == Prec.notTok && !f.lastOp) = false := by simpa using hnot
            split
            · next c rest2 =>
              have hl2 : rest2.length ≤ n := by simp at hlr; omega
              split
              · exact step_push f [b, c] ps rest2 hb (by simp [Prec.notTok])
                  (fun f' hf' => ih rest2 hl2 f' ps hf' hps)
              · exact step_push f [b] ps _ hb hnot' (fun f' hf' => ih _ hlr f' ps hf' hps)
            · exact step_push f [b] ps _ hb hnot' (fun f' hf' => ih _ hlr f' ps hf' hps)
        · split
          · exact retHere_no_index _ _ _ _
          · simp [pyIndexError, E.stx]

end PcbV.Expr
