import PcbV.Model.RandFile
/-
  Driver handler for C25.  Requests:
    hist <fixed 0|1> <maxReclen> <maxFiles> <disk> <cmd;cmd;…>
      disk  = `fid=hex/fid=hex…` or `-` (host files that exist at the start)
      cmd   = o:num:fid:reclen | c:num | f:num:w.v,w.v,… (or f:num:-) | l:var:L|R:hex
            | p:num:pos | g:num:pos          (pos = integer or `-`)
    Reply: `ok step;step;…#disk`, step = `<err>|<loc>,<lof>,<eof>|hex,hex,hex,hex,hex,hex`
      (loc/lof/eof of the command's file number as LOC/LOF/EOF report them, `-` when it is not open or the
       command has none; the values of variables 1..6 in hex, `-` = empty string), disk = all host files.
    pos <n>     reply `ok <record>` or `err 63`   (Files._check_pos on an integer)
    rs <n>      reply `ok <roundSingle n>`
-/
namespace PcbV.Drv.C25
open PcbV PcbV.RandFile

def pOptInt (s : String) : Option (Option Int) :=
  if s == "-" then some none else s.toInt?.map some

def pParts (s : String) : Option (List (Nat × Nat)) :=
  if s == "-" then some [] else
  (s.splitOn ",").mapM fun p =>
    match p.splitOn "." with
    | [w, v] => do pure ((← w.toNat?), (← v.toNat?))
    | _ => none

def pCmd (w : String) : Option Cmd :=
  match w.splitOn ":" with
  | ["o", num, fid, rl] => do pure (.open (← num.toNat?) (← fid.toNat?) (← rl.toNat?))
  | ["c", num] => do pure (.close (← num.toNat?))
  | ["f", num, parts] => do pure (.field (← num.toNat?) (← pParts parts))
  | ["l", v, "L", h] => do pure (.lset (← v.toNat?) false (← ofHex h))
  | ["l", v, "R", h] => do pure (.lset (← v.toNat?) true (← ofHex h))
  | ["p", num, pos] => do pure (.put (← num.toNat?) (← pOptInt pos))
  | ["g", num, pos] => do pure (.get (← num.toNat?) (← pOptInt pos))
  | _ => none

def pDisk (s : String) : Option (List (Nat × Bytes)) :=
  if s == "-" then some [] else
  (s.splitOn "/").mapM fun p =>
    match p.splitOn "=" with
    | [fid, h] => do pure ((← fid.toNat?), (← ofHex h))
    | _ => none

def insertBy {α} (le : α → α → Bool) (x : α) : List α → List α
  | [] => [x]
  | y :: ys => if le x y then x :: y :: ys else y :: insertBy le x ys
def sortKeys {α} (l : List (Nat × α)) : List (Nat × α) :=
  l.foldr (insertBy (fun a b => decide (a.1 ≤ b.1))) []

def cmdNum (_s : Sess) : Cmd → Nat
  | .open n _ _ => n | .close n => n | .field n _ => n | .put n _ => n | .get n _ => n
  | .lset _ _ _ => 0

def showObs (s : Sess) (num : Nat) : String :=
  match lookup num s.files with
  | none => "-"
  | some f =>
    let r := s.rf num f
    toString (roundSingle (loc r)) ++ "," ++ toString (roundSingle (lof r)) ++ "," ++ showBool (eof r)

def showVars (s : Sess) : String :=
  ",".intercalate ((List.range 6).map fun i => toHex (s.varVal (i + 1)))

def showDisk (s : Sess) : String :=
  if s.disk.isEmpty then "-" else
  "/".intercalate ((sortKeys s.disk).map fun (k, b) => toString k ++ "=" ++ toHex b)

def loop (fixed : Bool) : Sess → List String → List String → Option (List String × Sess)
  | s, [], acc => some (acc.reverse, s)
  | s, w :: ws, acc =>
    match pCmd w with
    | none => none
    | some c =>
      let (s', e) := exec fixed s c
      loop fixed s' ws ((toString e ++ "|" ++ showObs s' (cmdNum s' c) ++ "|" ++ showVars s') :: acc)

def handle : List String → String
  | ["hist", fx, mr, mf, disk, cmds] =>
    match mr.toNat?, mf.toNat?, pDisk disk with
    | some mr, some mf, some disk =>
      match loop (fx == "1") (Sess.init mr mf disk) (cmds.splitOn ";") [] with
      | some (steps, s) => "ok " ++ ";".intercalate steps ++ "#" ++ showDisk s
      | none => "bad-op"
    | _, _, _ => "bad-op"
  | ["pos", n] =>
    match n.toInt? with
    | some n => (match checkPos (some n) with
      | .ok (some p) => "ok " ++ toString p
      | .ok none => "bad-op"
      | .error e => "err " ++ toString e)
    | none => "bad-op"
  | ["rs", n] =>
    match n.toNat? with
    | some n => "ok " ++ toString (roundSingle n)
    | none => "bad-op"
  | _ => "bad-op"

end PcbV.Drv.C25
