import PcbV.Lemmas.MbfBasic
import PcbV.Model.HexOct
/-
  Integer-level lemmas for C03 (no Mathlib): shapes of `denorm`/`toIntDen` under `Fmt.WF`,
  the shift loops of `_bring_to_range` with "fuel suffices", `from_int` on exactly representable
  integers, packing of a normalised mantissa.
-/
namespace PcbV.Mbf

theorem two_mul_pow_pred (w : Nat) (h : 1 ≤ w) : 2 * 2 ^ (w - 1) = 2 ^ w := by
  have : w = (w - 1) + 1 := by omega
  conv => rhs; rw [this, Nat.pow_succ]
  omega


/-- the exponent distance above / below the bias -/
def up (f : Fmt) (x : F) : Nat := x.e - f.bias
def dn (f : Fmt) (x : F) : Nat := f.bias - x.e

section wf
variable {f : Fmt} (hf : f.WF) {x : F} (hx : F.Valid f x)
include hf hx

theorem isNeg_iff : isNeg f x = decide (2 ^ (f.w - 1) ≤ x.m) := by
  obtain ⟨h8, _, _, _, _, hs, _, _⟩ := hf
  have h2 := two_mul_pow_pred f.w (by omega)
  unfold isNeg
  rw [hs, h2, Nat.mod_eq_of_lt hx.1]

theorem manOf_bounds : 2 ^ (f.w - 1) ≤ manOf f x ∧ manOf f x < 2 ^ f.w := by
  have hn := isNeg_iff hf hx
  obtain ⟨h8, _, _, _, _, hs, _, _⟩ := hf
  have h2 := two_mul_pow_pred f.w (by omega)
  unfold manOf
  rw [hn, hs]
  have := hx.1
  by_cases h : 2 ^ (f.w - 1) ≤ x.m <;> simp only [h, decide_true, decide_false, if_true, if_false] <;>
    constructor <;> (try simp) <;> omega

theorem denorm_man : (denorm f x).man = manOf f x * 256 := by
  obtain ⟨h8, _, hd, _, _, hs, _, _⟩ := hf
  unfold denorm manOf
  simp only
  split
  · rfl
  · rw [hd, hs]
    have : f.w + 7 = (f.w - 1) + 8 := by omega
    rw [this, Nat.pow_add]
    omega

theorem toIntDen_eq :
    toIntDen f x = (manOf f x * 256 * 2 ^ up f x / 2 ^ dn f x, isNeg f x) := by
  have hm := denorm_man hf hx
  unfold toIntDen
  simp only [hm]
  have he : (denorm f x).exp = (x.e : Int) := rfl
  have hn : (denorm f x).neg = isNeg f x := rfl
  rw [he, hn]
  unfold up dn
  by_cases h : (x.e : Int) - f.bias > 0
  · simp only [h, if_true]
    have h1 : ((x.e : Int) - f.bias).toNat = x.e - f.bias := by omega
    have h2 : f.bias - x.e = 0 := by omega
    rw [h1, h2]; simp
  · simp only [h, if_false]
    have h1 : (-((x.e : Int) - f.bias)).toNat = f.bias - x.e := by omega
    have h2 : x.e - f.bias = 0 := by omega
    rw [h1, h2]; simp

/-- magnitude of `to_int_truncate` -/
def truncMag (f : Fmt) (x : F) : Nat := manOf f x * 2 ^ up f x / 2 ^ dn f x
/-- magnitude of `to_int` -/
def roundMag (f : Fmt) (x : F) : Nat := (manOf f x * 256 * 2 ^ up f x / 2 ^ dn f x + 128) / 256

theorem toIntTrunc_eq :
    toIntTrunc f x = if isNeg f x then -((truncMag f x : Nat) : Int) else ((truncMag f x : Nat) : Int) := by
  unfold toIntTrunc truncMag
  rw [toIntDen_eq hf hx]
  simp only
  have : manOf f x * 256 * 2 ^ up f x / 2 ^ dn f x / 256 = manOf f x * 2 ^ up f x / 2 ^ dn f x := by
    rw [Nat.div_div_eq_div_mul,
      show manOf f x * 256 * 2 ^ up f x = manOf f x * 2 ^ up f x * 256 by
        rw [Nat.mul_assoc, Nat.mul_comm 256, ← Nat.mul_assoc]]
    exact Nat.mul_div_mul_right (manOf f x * 2 ^ up f x) (2 ^ dn f x) (by decide : 0 < 256)
  rw [this]

theorem toInt_eq :
    toInt f x = if isNeg f x then -((roundMag f x : Nat) : Int) else ((roundMag f x : Nat) : Int) := by
  unfold toInt roundMag
  rw [toIntDen_eq hf hx]
  simp only
  generalize manOf f x * 256 * 2 ^ up f x / 2 ^ dn f x = D
  have : (if D / 128 % 2 = 1 then D + 128 else D) / 256 = (D + 128) / 256 := by
    split <;> omega
  rw [this]

end wf

/-! ### the shift loops -/

theorem shiftUp_spec (lim : Nat) : ∀ (fuel : Nat) (exp : Int) (man : Nat), 0 < man → lim ≤ man * 2 ^ fuel →
    ∃ k, k ≤ fuel ∧ shiftUp fuel lim exp man = (exp - (k : Nat), man * 2 ^ k) ∧ lim ≤ man * 2 ^ k ∧
      (k ≠ 0 → man * 2 ^ k < 2 * lim) ∧ (lim ≤ man → k = 0) := by
  intro fuel
  induction fuel with
  | zero =>
    intro exp man _ h
    exact ⟨0, Nat.le_refl _, by simp [shiftUp], by simpa using h, by simp, fun _ => rfl⟩
  | succ n ih =>
    intro exp man hm h
    unfold shiftUp
    by_cases hl : man < lim
    · simp only [hl, if_true]
      have h' : lim ≤ man * 2 * 2 ^ n := by
        rw [Nat.mul_assoc, Nat.mul_comm 2, ← Nat.pow_succ]; exact h
      obtain ⟨k, hk, he, hb, hu, _⟩ := ih (exp - 1) (man * 2) (by omega) h'
      refine ⟨k + 1, by omega, ?_, ?_, ?_, by omega⟩
      · rw [he]
        have : man * 2 * 2 ^ k = man * 2 ^ (k + 1) := by
          rw [Nat.mul_assoc, Nat.mul_comm 2, ← Nat.pow_succ]
        rw [this]
        congr 1
        omega
      · rw [Nat.pow_succ, Nat.mul_comm (2 ^ k), ← Nat.mul_assoc]; exact hb
      · intro _
        rw [Nat.pow_succ, Nat.mul_comm (2 ^ k), ← Nat.mul_assoc]
        by_cases hk0 : k = 0
        · subst hk0; simp; omega
        · exact hu hk0
    · simp only [hl, if_false]
      exact ⟨0, by omega, by simp, by simpa using Nat.le_of_not_lt hl, by simp, fun _ => rfl⟩

theorem shiftDown_noop (fuel upper : Nat) (exp : Int) (man : Nat) (h : man ≤ upper) :
    shiftDown fuel upper exp man = (exp, man) := by
  cases fuel with
  | zero => rfl
  | succ n => unfold shiftDown; simp [Nat.not_lt.mpr h]

theorem shiftDown_spec (upper M : Nat) (hM : M ≤ upper) (hM2 : upper < 2 * M) :
    ∀ (j fuel : Nat) (exp : Int), j ≤ fuel → shiftDown fuel upper exp (M * 2 ^ j) = (exp + (j : Nat), M) := by
  intro j
  induction j with
  | zero =>
    intro fuel exp _
    simp only [Nat.pow_zero, Nat.mul_one]
    rw [shiftDown_noop _ _ _ _ hM]; simp
  | succ j ih =>
    intro fuel exp hj
    cases fuel with
    | zero => omega
    | succ n =>
      unfold shiftDown
      have hp : 0 < 2 ^ j := Nat.two_pow_pos j
      have hgt : M * 2 ^ (j + 1) > upper := by
        rw [Nat.pow_succ, ← Nat.mul_assoc]
        have : M * 2 ^ j ≥ M := Nat.le_mul_of_pos_right M hp
        omega
      simp only [hgt, if_true]
      have : M * 2 ^ (j + 1) / 2 = M * 2 ^ j := by
        rw [Nat.pow_succ, ← Nat.mul_assoc]; exact Nat.mul_div_cancel _ (by decide)
      rw [this, ih n (exp + 1) (by omega)]
      congr 1
      omega

/-! ### packing a normalised mantissa -/

section pack
variable {f : Fmt} (hf : f.WF)
include hf

theorem pack_spec (M e : Nat) (neg : Bool) (h1 : 2 ^ (f.w - 1) ≤ M) (h2 : M < 2 ^ f.w) (he : e < 256) :
    F.Valid f ⟨packMan f M neg, e⟩ ∧ isNeg f ⟨packMan f M neg, e⟩ = neg ∧
    manOf f ⟨packMan f M neg, e⟩ = M := by
  obtain ⟨h8, hb, hd, hu, hc, hs, hmk, hp⟩ := hf
  have hf' : f.WF := ⟨h8, hb, hd, hu, hc, hs, hmk, hp⟩
  have h2p := two_mul_pow_pred f.w (by omega)
  have hpos : 0 < 2 ^ (f.w - 1) := Nat.two_pow_pos _
  have hm1 : f.mask + 1 = 2 ^ f.w := by rw [hmk]; omega
  have hp1 : f.posMask + 1 = 2 ^ (f.w - 1) := by rw [hp]; omega
  have hpk : packMan f M neg = if neg then M else M - 2 ^ (f.w - 1) := by
    unfold packMan
    cases neg
    · simp only [Bool.false_eq_true, if_false]
      rw [hp1, Nat.mod_eq_sub_mod h1, Nat.mod_eq_of_lt (by omega)]
    · simp only [if_true]
      rw [hm1, Nat.mod_eq_of_lt h2]
  have hv : F.Valid f ⟨packMan f M neg, e⟩ := by
    refine ⟨?_, he⟩
    show packMan f M neg < 2 ^ f.w
    rw [hpk]; split <;> omega
  have hn : isNeg f ⟨packMan f M neg, e⟩ = neg := by
    rw [isNeg_iff hf' hv]
    show decide (2 ^ (f.w - 1) ≤ packMan f M neg) = neg
    rw [hpk]
    cases neg
    · simp only [Bool.false_eq_true, if_false, decide_eq_false_iff_not]; omega
    · simp only [if_true, decide_eq_true_eq]; exact h1
  refine ⟨hv, hn, ?_⟩
  unfold manOf
  rw [hn]
  show (if neg = true then packMan f M neg else packMan f M neg + f.signMask) = M
  rw [hpk, hs]
  cases neg
  · simp only [Bool.false_eq_true, if_false]; omega
  · simp only [if_true]

/-- a valid value is the packing of its own mantissa and sign -/
theorem pack_self (x : F) (hx : F.Valid f x) : packMan f (manOf f x) (isNeg f x) = x.m := by
  have hn := isNeg_iff hf hx
  obtain ⟨h8, hb, hd, hu, hc, hs, hmk, hp⟩ := hf
  have h2p := two_mul_pow_pred f.w (by omega)
  have hpos : 0 < 2 ^ (f.w - 1) := Nat.two_pow_pos _
  have hm1 : f.mask + 1 = 2 ^ f.w := by rw [hmk]; omega
  have hp1 : f.posMask + 1 = 2 ^ (f.w - 1) := by rw [hp]; omega
  have := hx.1
  unfold packMan manOf
  rw [hn]
  by_cases h : 2 ^ (f.w - 1) ≤ x.m <;> simp only [h, decide_true, decide_false, if_true, if_false, Bool.false_eq_true]
  · rw [hm1]; exact Nat.mod_eq_of_lt hx.1
  · rw [hp1, hs, Nat.add_mod_right]; exact Nat.mod_eq_of_lt (by omega)

/-! ### `from_int` on exactly representable integers -/

/-- small integers: the mantissa is shifted up by `k` places, nothing is lost -/
theorem fromInt_small (hb : f.bias ≤ 255) (n : Int) (hn0 : n ≠ 0) (hn : n.natAbs < 2 ^ f.w) :
    ∃ k, k < f.w ∧ 2 ^ (f.w - 1) ≤ n.natAbs * 2 ^ k ∧ n.natAbs * 2 ^ k < 2 ^ f.w ∧
      fromInt f n = .ok ⟨packMan f (n.natAbs * 2 ^ k) (decide (n < 0)), f.bias - k⟩ := by
  obtain ⟨h8, hbias, hd, hu, hc, hs, hmk, hp⟩ := hf
  have h2p := two_mul_pow_pred f.w (by omega)
  have hpos : 0 < 2 ^ (f.w - 1) := Nat.two_pow_pos _
  have hp1 : f.posMask + 1 = 2 ^ (f.w - 1) := by rw [hp]; omega
  have ha : 0 < n.natAbs := by omega
  have hfuel : 2 ^ (f.w - 1) ≤ n.natAbs * 2 ^ (Nat.log2 (2 ^ (f.w - 1)) + 2) := by
    rw [Nat.log2_two_pow]
    calc 2 ^ (f.w - 1) ≤ 2 ^ (f.w - 1 + 2) := Nat.pow_le_pow_right (by decide) (by omega)
      _ ≤ n.natAbs * 2 ^ (f.w - 1 + 2) := Nat.le_mul_of_pos_left _ ha
  obtain ⟨k, _, he, hlo, hhi, hk0⟩ := shiftUp_spec (2 ^ (f.w - 1)) _ (f.bias : Int) n.natAbs ha hfuel
  have hlt : n.natAbs * 2 ^ k < 2 ^ f.w := by
    by_cases hk : k = 0
    · subst hk; simpa using hn
    · have := hhi hk; omega
  have hkw : k < f.w := by
    have h1 : 2 ^ k ≤ n.natAbs * 2 ^ k := Nat.le_mul_of_pos_left _ ha
    have h2 : 2 ^ k < 2 ^ f.w := by omega
    exact (Nat.pow_lt_pow_iff_right (by decide)).mp h2
  refine ⟨k, hkw, hlo, hlt, ?_⟩
  unfold fromInt
  simp only [hn0, if_false]
  unfold bringToRange
  rw [hp1, he]
  simp only
  rw [shiftDown_noop _ _ _ _ (by rw [hmk]; omega)]
  simp only
  unfold checkLimits
  have e1 : ¬ ((f.bias : Int) - (k : Nat) > 255) := by omega
  have e2 : ¬ ((f.bias : Int) - (k : Nat) ≤ 0) := by omega
  simp only [e1, e2, if_false]
  have e3 : ((f.bias : Int) - (k : Nat)).toNat = f.bias - k := by omega
  rw [e3]

/-- integers `M·2^j` with a normalised `M`: the loop shifts down `j` places, nothing is lost -/
theorem fromInt_big (n : Int) (M j : Nat) (h1 : 2 ^ (f.w - 1) ≤ M) (h2 : M < 2 ^ f.w)
    (hn : n.natAbs = M * 2 ^ j) (hbj : f.bias + j ≤ 255) :
    fromInt f n = .ok ⟨packMan f M (decide (n < 0)), f.bias + j⟩ := by
  obtain ⟨h8, hbias, hd, hu, hc, hs, hmk, hp⟩ := hf
  have h2p := two_mul_pow_pred f.w (by omega)
  have hpos : 0 < 2 ^ (f.w - 1) := Nat.two_pow_pos _
  have hp1 : f.posMask + 1 = 2 ^ (f.w - 1) := by rw [hp]; omega
  have hpj : 0 < 2 ^ j := Nat.two_pow_pos _
  have hge : M ≤ M * 2 ^ j := Nat.le_mul_of_pos_right M hpj
  have hn0 : n ≠ 0 := by
    intro h; rw [h] at hn; simp at hn; omega
  unfold fromInt
  simp only [hn0, if_false]
  unfold bringToRange
  rw [hp1, hn]
  obtain ⟨k, _, he, _, _, hk0⟩ := shiftUp_spec (2 ^ (f.w - 1)) (Nat.log2 (2 ^ (f.w - 1)) + 2) (f.bias : Int)
    (M * 2 ^ j) (by omega) (by
      have : 0 < 2 ^ (Nat.log2 (2 ^ (f.w - 1)) + 2) := Nat.two_pow_pos _
      calc 2 ^ (f.w - 1) ≤ M * 2 ^ j := by omega
        _ ≤ M * 2 ^ j * 2 ^ (Nat.log2 (2 ^ (f.w - 1)) + 2) := Nat.le_mul_of_pos_right _ this)
  have hk : k = 0 := hk0 (by omega)
  subst hk
  rw [he]
  simp only [Nat.pow_zero, Nat.mul_one]
  have hfuel : j ≤ Nat.log2 (M * 2 ^ j) + 2 := by
    have : j ≤ Nat.log2 (M * 2 ^ j) := by
      rw [Nat.le_log2 (by omega)]
      exact Nat.le_mul_of_pos_left _ (by omega)
    omega
  rw [shiftDown_spec f.mask M (by rw [hmk]; omega) (by rw [hmk]; omega) j _ _ hfuel]
  simp only
  unfold checkLimits
  have e1 : ¬ ((f.bias : Int) - ((0 : Nat) : Int) + (j : Nat) > 255) := by omega
  have e2 : ¬ ((f.bias : Int) - ((0 : Nat) : Int) + (j : Nat) ≤ 0) := by omega
  simp only [e1, e2, if_false]
  have e3 : ((f.bias : Int) - ((0 : Nat) : Int) + (j : Nat)).toNat = f.bias + j := by omega
  rw [e3]

end pack

end PcbV.Mbf

/-! ### digits and little-endian bytes -/
namespace PcbV.HexOct

theorem foldr_digitsRev (b : Nat) (hb : 2 ≤ b) : ∀ (fuel n : Nat), 0 < fuel → n < b ^ fuel →
    (digitsRev b fuel n).foldr (fun d acc => acc * b + d) 0 = n ∧ digitsRev b fuel n ≠ [] ∧
    ∀ d ∈ digitsRev b fuel n, d < b := by
  intro fuel
  induction fuel with
  | zero => intro n h0 h; omega
  | succ k ih =>
    intro n _ h
    unfold digitsRev
    by_cases hn : n < b
    · simp only [hn, if_true]
      refine ⟨by simp, by simp, ?_⟩
      intro d hd; simp at hd; omega
    · simp only [hn, if_false]
      have hlt : n / b < b ^ k := by
        rw [Nat.div_lt_iff_lt_mul (by omega)]
        rw [Nat.pow_succ] at h; exact h
      have hk : 0 < k := by
        cases k with
        | zero => simp at h; omega
        | succ _ => omega
      obtain ⟨h1, _, h3⟩ := ih (n / b) hk hlt
      refine ⟨?_, by simp, ?_⟩
      · simp only [List.foldr_cons]
        rw [h1]
        have := Nat.div_add_mod n b
        rw [Nat.mul_comm] at this
        exact this
      · intro d hd
        simp only [List.mem_cons] at hd
        rcases hd with hd | hd
        · rw [hd]; exact Nat.mod_lt _ (by omega)
        · exact h3 d hd

theorem ofDigits_toDigits (b : Nat) (hb : 2 ≤ b) (n : Nat) (h : n < b ^ 16) :
    ofDigits b (toDigits b n) = n := by
  unfold ofDigits toDigits
  rw [List.foldl_reverse]
  exact (foldr_digitsRev b hb 16 n (by decide) h).1

theorem leVal_leBytes : ∀ (n v : Nat), v < 256 ^ n → leVal (leBytes n v) = v := by
  intro n
  induction n with
  | zero => intro v h; simp at h; simp [leBytes, leVal, h]
  | succ k ih =>
    intro v h
    unfold leBytes leVal
    rw [ih (v / 256) (by rw [Nat.div_lt_iff_lt_mul (by decide)]; rw [Nat.pow_succ] at h; exact h)]
    omega

theorem length_leBytes : ∀ (n v : Nat), (leBytes n v).length = n := by
  intro n
  induction n with
  | zero => intro v; rfl
  | succ k ih => intro v; simp [leBytes, ih]

theorem leBytes_leVal : ∀ (b : Bytes), b.ok → leBytes b.length (leVal b) = b := by
  intro b
  induction b with
  | nil => intro _; rfl
  | cons a rest ih =>
    intro h
    have ha : a < 256 := h a (by simp)
    have hr : Bytes.ok rest := fun x hx => h x (by simp [hx])
    simp only [List.length_cons, leBytes, leVal]
    have e1 : (a + 256 * leVal rest) % 256 = a := by omega
    have e2 : (a + 256 * leVal rest) / 256 = leVal rest := by omega
    rw [e1, e2, ih hr]

theorem leVal_lt : ∀ (b : Bytes), b.ok → leVal b < 256 ^ b.length := by
  intro b
  induction b with
  | nil => intro _; simp [leVal]
  | cons a rest ih =>
    intro h
    have ha : a < 256 := h a (by simp)
    have hr : Bytes.ok rest := fun x hx => h x (by simp [hx])
    have := ih hr
    simp only [List.length_cons, leVal, Nat.pow_succ]
    omega

end PcbV.HexOct
