"""
Translator, part 2: mechanical translation of straight-line integer code from the /repo source into
Lean definitions over `Int` (Python's unbounded ints).  Supported subset: int constants, names,
`self._attr` / module-level constants (resolved to their current values), tuple-constant indexing,
+ - * // % ^ & | unary -, abs(), comparisons (chained), and/or/not, conditional expressions, and
statement lists made of Assign / AugAssign / If / Return.  Anything else raises Unsupported; the
generator then emits `unsupported := true` for that function so that the tie is reported as lost
(the hand-written model + correspondence remain).
"""
import ast
import inspect
import textwrap


class Unsupported(Exception):
    pass


BINOPS = {
    ast.Add: '({} + {})', ast.Sub: '({} - {})', ast.Mult: '({} * {})',
    ast.FloorDiv: '(Int.fdiv {} {})', ast.Mod: '(Int.fmod {} {})',
    ast.BitXor: '(PcbV.PyInt.xor {} {})', ast.BitAnd: '(PcbV.PyInt.land {} {})', ast.BitOr: '(PcbV.PyInt.lor {} {})',
}
CMPOPS = {ast.Eq: '==', ast.NotEq: '!=', ast.Lt: '<', ast.LtE: '≤', ast.Gt: '>', ast.GtE: '≥'}


class Tr(object):
    def __init__(self, consts, calls=None, bool_names=()):
        self.consts = consts          # name / 'self._x' -> python value (int or tuple of ints)
        self.calls = calls or {}      # source text of a call -> parameter name
        self.bool_names = set(bool_names)

    def src(self, node):
        return ast.unparse(node)

    def expr(self, n):
        if isinstance(n, ast.Constant) and isinstance(n.value, int) and not isinstance(n.value, bool):
            return '(%d : Int)' % n.value
        if isinstance(n, ast.Name):
            if n.id in self.consts and isinstance(self.consts[n.id], int):
                return '(%d : Int)' % self.consts[n.id]
            return n.id
        if isinstance(n, ast.Attribute):
            key = self.src(n)
            if key in self.consts and isinstance(self.consts[key], int):
                return '(%d : Int)' % self.consts[key]
            raise Unsupported('attribute ' + key)
        if isinstance(n, ast.Call):
            key = self.src(n)
            if key in self.calls:
                return self.calls[key]
            if isinstance(n.func, ast.Name) and n.func.id == 'abs' and len(n.args) == 1:
                return '((Int.natAbs %s : Nat) : Int)' % self.expr(n.args[0])
            raise Unsupported('call ' + key)
        if isinstance(n, ast.Subscript):
            key = self.src(n.value)
            if key in self.consts and isinstance(self.consts[key], tuple):
                tab = '[' + ', '.join('(%d : Int)' % v for v in self.consts[key]) + ']'
                return '(%s.getD (Int.toNat %s) 0)' % (tab, self.expr(n.slice))
            raise Unsupported('subscript ' + key)
        if isinstance(n, ast.BinOp):
            if type(n.op) not in BINOPS:
                raise Unsupported('operator ' + type(n.op).__name__)
            return BINOPS[type(n.op)].format(self.expr(n.left), self.expr(n.right))
        if isinstance(n, ast.UnaryOp) and isinstance(n.op, ast.USub):
            return '(- %s)' % self.expr(n.operand)
        if isinstance(n, ast.IfExp):
            return '(if %s then %s else %s)' % (self.cond(n.test), self.expr(n.body), self.expr(n.orelse))
        raise Unsupported('expression ' + self.src(n))

    def cond(self, n):
        """Boolean-valued expression as a Lean Bool."""
        if isinstance(n, ast.Compare):
            parts = []
            left = n.left
            for op, right in zip(n.ops, n.comparators):
                if type(op) not in CMPOPS:
                    raise Unsupported('comparison ' + type(op).__name__)
                lb, rb = self.is_bool(left), self.is_bool(right)
                if lb or rb:
                    if type(op) not in (ast.Eq, ast.NotEq):
                        raise Unsupported('ordering of booleans')
                    parts.append('(%s %s %s)' % (self.cond(left), CMPOPS[type(op)], self.cond(right)))
                else:
                    parts.append('(decide (%s %s %s))' % (self.expr(left), {'==': '=', '!=': '≠'}.get(
                        CMPOPS[type(op)], CMPOPS[type(op)]), self.expr(right)))
                left = right
            return '(' + ' && '.join(parts) + ')'
        if isinstance(n, ast.BoolOp):
            j = ' && ' if isinstance(n.op, ast.And) else ' || '
            return '(' + j.join(self.cond(v) for v in n.values) + ')'
        if isinstance(n, ast.UnaryOp) and isinstance(n.op, ast.Not):
            return '(!%s)' % self.cond(n.operand)
        if isinstance(n, ast.Name) and n.id in self.bool_names:
            return n.id
        raise Unsupported('condition ' + self.src(n))

    def is_bool(self, n):
        return isinstance(n, (ast.Compare, ast.BoolOp)) or (isinstance(n, ast.UnaryOp) and isinstance(n.op, ast.Not)) \
            or (isinstance(n, ast.Name) and n.id in self.bool_names)

    def stmts(self, body, result):
        """Statement list -> Lean expression; `result` is the Lean text of the value if the list falls through."""
        if not body:
            return result
        s, rest = body[0], body[1:]
        if isinstance(s, ast.Return):
            return self.ret(s.value)
        if isinstance(s, ast.Assign) and len(s.targets) == 1 and isinstance(s.targets[0], ast.Name):
            name = s.targets[0].id
            if self.is_bool(s.value):
                self.bool_names.add(name)
                return 'let %s : Bool := %s\n  %s' % (name, self.cond(s.value), self.stmts(rest, result))
            return 'let %s : Int := %s\n  %s' % (name, self.expr(s.value), self.stmts(rest, result))
        if isinstance(s, ast.AugAssign) and isinstance(s.target, ast.Name):
            name = s.target.id
            if type(s.op) not in BINOPS:
                raise Unsupported('augmented operator')
            val = BINOPS[type(s.op)].format(name, self.expr(s.value))
            return 'let %s : Int := %s\n  %s' % (name, val, self.stmts(rest, result))
        if isinstance(s, ast.If):
            returns = any(isinstance(x, ast.Return) for x in s.body + s.orelse)
            if not returns:
                assigned = sorted(set(self.assigned(s.body)) | set(self.assigned(s.orelse)))
            if returns:
                return '(if %s then %s else %s)' % (self.cond(s.test), self.stmts(s.body + rest, result),
                                                     self.stmts(s.orelse + rest, result))
            if len(assigned) != 1:
                raise Unsupported('if assigning %r' % (assigned,))
            v = assigned[0]
            return 'let %s : Int := (if %s then %s else %s)\n  %s' % (
                v, self.cond(s.test), self.stmts(s.body, v), self.stmts(s.orelse, v), self.stmts(rest, result))
        if isinstance(s, ast.Expr) and isinstance(s.value, ast.Constant):
            return self.stmts(rest, result)
        raise Unsupported('statement ' + self.src(s))

    def ret(self, value):
        key = self.src(value)
        # `return self.from_int(X)` -> X
        if isinstance(value, ast.Call) and self.src(value.func) == 'self.from_int' and len(value.args) == 1:
            return self.expr(value.args[0])
        return self.expr(value)

    @staticmethod
    def assigned(body):
        out = []
        for s in body:
            if isinstance(s, ast.Assign) and isinstance(s.targets[0], ast.Name):
                out.append(s.targets[0].id)
            elif isinstance(s, ast.AugAssign) and isinstance(s.target, ast.Name):
                out.append(s.target.id)
            else:
                raise Unsupported('statement in if-branch: ' + ast.unparse(s))
        return out


def function_ast(obj):
    src = textwrap.dedent(inspect.getsource(obj))
    return ast.parse(src).body[0]


def find_statements(fn_ast, first_pred, last_pred):
    """Consecutive statements (anywhere in the body tree) from the first matching first_pred up to and
    including the first following one matching last_pred."""
    for node in ast.walk(fn_ast):
        body = getattr(node, 'body', None)
        if not isinstance(body, list):
            continue
        for i, s in enumerate(body):
            if first_pred(s):
                for j in range(i, len(body)):
                    if last_pred(body[j]):
                        return body[i:j + 1]
    raise Unsupported('statement pattern not found')
