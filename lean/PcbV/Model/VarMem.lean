import PcbV.Basic
import PcbV.Gen.Errors
import PcbV.Model.Heap
/-
  PcbV.VarMem — executable model of the variable area of the BASIC data segment, as PEEK/VARPTR see it:
    pcbasic/basic/memory/scalars.py   Scalars.set (name_ptr / var_ptr bookkeeping), varptr, get_memory,
                                      get_name_in_memory
    pcbasic/basic/memory/arrays.py    Arrays.allocate, check_dim, index, set (view_buffer), erase_ (shifting),
                                      varptr, get_memory (REPAIRED, pending fix C11-array-get-memory; the code
                                      before the repair is `arrGetMemoryOld`)
    pcbasic/basic/memory/memory.py    DataSegment.let_ / set_variable / swap_ / _view_buffer / varptr /
                                      varptr_str_ / _get_var_memory / get_memory (variable branch), check_free
    pcbasic/basic/values/strings.py   StringSpace.store, StringSpace.get_memory
    pcbasic/basic/machine.py          Memory.peek_ / _get_memory: `max(0, …)` of the above (`peek`)

  Built next to the C10 heap model (PcbV.Model.Heap, not modified): the string space is the same
  association list address ↦ bytes with `Heap.lookup`; a string cell is the 3-byte pointer
  (length, address lo, address hi) that `Heap.Ptr` abstracts.  What Heap leaves out and C11 needs is added
  here: numeric variables, names, record addresses, arrays of any rank, the memory read functions.

  Abstractions (named in props/c11.py):
  * `Scalars._vars` and `Scalars._var_memory` (same key set, insertion ordered) are one list of `SRec`;
    `Arrays._dims/_buffers/_array_memory` one list of `ARec`;
  * an array buffer of `flat_length*size` bytes is the list of its `flat_length` cells of `size` bytes
    (`buf = cells.flatten`; the slice `[k*size:(k+1)*size]` is cell `k`), as in PcbV.Model.Arrays;
  * values arrive as their byte representation (number conversion is C03's subject);
  * `check_free` is modelled WITHOUT the garbage collector (C10's subject): when free space is not larger
    than the request the statement fails with the error the real code raises when a collection does not help;
  * a string assignment is `V$ = "literal"` in direct mode: the literal is stored in string space
    (`store`: current -= len, address current+1) and the pointer assigned; temporaries are not modelled;
  * `_base` is a parameter of the history (0, or 1 after an initial OPTION BASE 1);
  * a value of `-1` (address not backed by anything) is `none`.
-/
namespace PcbV.VarMem
open PcbV

/-- `bytes.upper()` on one byte -/
def upperB (c : Nat) : Nat := if 97 ≤ c ∧ c ≤ 122 then c - 32 else c

/-- `values.size_bytes(name)` (TYPE_TO_SIZE by sigil; a name without sigil never gets here) -/
def vsize (name : Bytes) : Nat :=
  match name.getLast? with
  | some 36 => 3
  | some 37 => 2
  | some 33 => 4
  | some 35 => 8
  | _ => 0

def isStr (name : Bytes) : Bool := name.getLast? == some 36

/-- `scalars.get_name_in_memory(name, offset)`; `ch - ord('A') + 0xC1` is `ch + 128` -/
def getNameInMemory (name : Bytes) (offset : Nat) : Option Nat :=
  let norm := (name.map upperB).dropLast
  if offset = 0 then some (vsize name)
  else if offset = 1 then norm[0]?
  else if offset = 2 then (if name.length > 2 then norm[1]? else some 0)
  else if offset = 3 then (if name.length > 3 then some (name.length - 3) else some 0)
  else if 4 ≤ offset ∧ offset ≤ norm.length + 1 then (norm[offset - 2]?).map (· + 128)
  else none

/-- `Scalars._record_size` -/
def recSize (name : Bytes) : Nat := max 3 name.length + 1
/-- `Scalars.memory_size` -/
def memSize (name : Bytes) : Nat := recSize name + vsize name

/-- `Arrays.index`: the loop as coded (first subscript varies fastest) -/
def indexLoop (base : Nat) : Nat → Nat → List Nat → List Nat → Nat
  | _, big, [], _ => big
  | _, big, _ :: _, [] => big
  | area, big, i :: is, d :: ds => indexLoop base (area * (d + 1 - base)) (big + area * (i - base)) is ds

def index (base : Nat) (idx dims : List Nat) : Nat := indexLoop base 1 0 idx dims
/-- `Arrays.flat_length` -/
def flatLength (base : Nat) (dims : List Nat) : Nat := index base dims dims + 1
/-- `Arrays._buffer_size` -/
def bufSize (base : Nat) (name : Bytes) (dims : List Nat) : Nat := flatLength base dims * vsize name
/-- `Arrays._record_size` -/
def arecSize (name : Bytes) (dims : List Nat) : Nat := 1 + max 3 name.length + 3 + 2 * dims.length
/-- `Arrays.memory_size` -/
def amemSize (base : Nat) (name : Bytes) (dims : List Nat) : Nat := arecSize name dims + bufSize base name dims

structure SRec where
  name : Bytes        -- completed, upper-case, with sigil
  namePtr : Nat       -- absolute
  varPtr : Nat        -- absolute
  val : Bytes         -- `_vars[name]`
deriving DecidableEq, Repr

structure ARec where
  name : Bytes
  dims : List Nat     -- maximum subscripts
  namePtr : Nat       -- relative to var_current
  arrPtr : Nat        -- relative to var_current
  cells : List Bytes  -- `_buffers[name]`, cell by cell
deriving DecidableEq, Repr

structure VM where
  varStart : Nat            -- DataSegment.var_start()
  base : Nat                -- Arrays._base
  scalars : List SRec
  scalCur : Nat             -- Scalars.current
  arrays : List ARec
  arrCur : Nat              -- Arrays.current
  strs : List (Nat × Bytes) -- StringSpace._strings, insertion order
  strCur : Nat              -- StringSpace.current
  strTop : Nat              -- DataSegment.stack_start()
deriving Repr

def init (varStart strTop base : Nat) : VM :=
  { varStart := varStart, base := base, scalars := [], scalCur := 0, arrays := [], arrCur := 0,
    strs := [], strCur := strTop, strTop := strTop }

/-- `DataSegment.var_current()` -/
def varCurrent (s : VM) : Nat := s.varStart + s.scalCur

def findS (name : Bytes) : List SRec → Option SRec
  | [] => none
  | r :: rest => if r.name = name then some r else findS name rest

def findA (name : Bytes) : List ARec → Option ARec
  | [] => none
  | a :: rest => if a.name = name then some a else findA name rest

/-! ### reading memory -/

/-- the search loop shared by `Scalars.get_memory` and the repaired `Arrays.get_memory`: the entry with
    the greatest name pointer that is ≤ address (accumulator = best name pointer and its position) -/
def beats (np : Nat) : Option (Nat × Nat) → Bool
  | none => true                      -- `name_try > -1`
  | some (b, _) => decide (np > b)

def selLoop (addr : Nat) : List Nat → Nat → Option (Nat × Nat) → Option (Nat × Nat)
  | [], _, acc => acc
  | np :: r, i, acc =>
    if np ≤ addr ∧ beats np acc = true then selLoop addr r (i + 1) (some (np, i))
    else selLoop addr r (i + 1) acc

def select (nps : List Nat) (addr : Nat) : Option Nat := (selLoop addr nps 0 none).map (·.2)

/-- `Scalars.get_memory` -/
def scalGetMemory (s : VM) (address : Nat) : Option Nat :=
  match select (s.scalars.map (·.namePtr)) address with
  | none => none
  | some k =>
    match s.scalars[k]? with
    | none => none
    | some r =>
      if address ≥ r.varPtr then
        let off := address - r.varPtr
        if off ≥ vsize r.name then none else r.val[off]?
      else getNameInMemory r.name (address - r.namePtr)

/-- `struct.pack('<H', x)` -/
def le16 (x : Nat) : Bytes := [x % 256, x / 256]

/-- `data_rep` of `Arrays.get_memory` -/
def arrHeader (base : Nat) (a : ARec) : Bytes :=
  le16 (bufSize base a.name a.dims + 1 + 2 * a.dims.length) ++ [a.dims.length]
    ++ (a.dims.map (fun d => le16 (d + 1 - base))).flatten

/-- the part of `Arrays.get_memory` behind the search -/
def arrRead (s : VM) (a : ARec) (address : Nat) : Option Nat :=
  let vc := varCurrent s
  if address ≥ vc + a.arrPtr then
    let off := address - a.arrPtr - vc
    if off ≥ bufSize s.base a.name a.dims then none else a.cells.flatten[off]?
  else
    let off := address - a.namePtr - vc
    if off < max 3 a.name.length + 1 then getNameInMemory a.name off
    else (arrHeader s.base a)[off - (max 3 a.name.length + 1)]?

/-- `Arrays.get_memory`, repaired: the search runs in array-space coordinates over all arrays -/
def arrGetMemory (s : VM) (address : Nat) : Option Nat :=
  match select (s.arrays.map (·.namePtr)) (address - varCurrent s) with
  | none => none
  | some k =>
    match s.arrays[k]? with
    | none => none
    | some a => arrRead s a address

/-- `Arrays.get_memory` before the repair: the relative name pointer is compared with the absolute
    address and the loop `break`s at the first hit -/
def arrGetMemoryOld (s : VM) (address : Nat) : Option Nat :=
  match s.arrays.find? (fun a => decide (a.namePtr ≤ address)) with
  | none => none
  | some a => arrRead s a address

/-- `StringSpace.get_memory` -/
def strGetLoop (address : Nat) : List (Nat × Bytes) → Option Nat
  | [] => none
  | (a, b) :: r => if a ≤ address ∧ address < a + b.length then b[address - a]? else strGetLoop address r

/-- `DataSegment._get_var_memory` -/
def getVarMemory (s : VM) (address : Nat) : Option Nat :=
  if address < varCurrent s then scalGetMemory s address
  else if address < varCurrent s + s.arrCur then arrGetMemory s address
  else if address > s.strCur then strGetLoop address s.strs
  else none

def getVarMemoryOld (s : VM) (address : Nat) : Option Nat :=
  if address < varCurrent s then scalGetMemory s address
  else if address < varCurrent s + s.arrCur then arrGetMemoryOld s address
  else if address > s.strCur then strGetLoop address s.strs
  else none

/-- PEEK at a data-segment offset inside variable memory: `max(0, _get_var_memory(addr))`
    (below `var_start` lies the program text, not modelled: 0) -/
def peek (s : VM) (address : Nat) : Nat :=
  if address ≥ s.varStart then (getVarMemory s address).getD 0 else 0

def peekOld (s : VM) (address : Nat) : Nat :=
  if address ≥ s.varStart then (getVarMemoryOld s address).getD 0 else 0

/-! ### VARPTR, VARPTR$ -/

inductive Dst
  | sc (name : Bytes)
  | el (name : Bytes) (idx : List Nat)
deriving DecidableEq, Repr

def Dst.name : Dst → Bytes
  | .sc n => n
  | .el n _ => n

/-- `DataSegment.varptr` (KeyError → Illegal function call) -/
def varptr (s : VM) : Dst → R Nat
  | .sc n =>
    match findS n s.scalars with
    | some r => .ok r.varPtr
    | none => .error Gen.E.ifc
  | .el n idx =>
    match findA n s.arrays with
    | some a => .ok (varCurrent s + a.arrPtr + vsize n * index s.base idx a.dims)
    | none => .error Gen.E.ifc

/-- `DataSegment.varptr_str_` for an existing variable: `struct.pack('<BH', size, var_ptr)` -/
def varptrStr (s : VM) (d : Dst) : R Bytes :=
  match varptr s d with
  | .ok p => .ok (vsize d.name :: le16 p)
  | .error e => .error e

/-! ### statements -/

abbrev MR := Except (Nat × VM) VM

/-- `_get_free() <= size` -/
def lowMem (s : VM) (size : Nat) : Bool := s.strCur ≤ varCurrent s + s.arrCur + size

/-- `Scalars.set(name, None)`: allocate the record of a new name, value `values.new(type)` -/
def ensureScalar (name : Bytes) (s : VM) : MR :=
  match findS name s.scalars with
  | some _ => .ok s
  | none =>
    if lowMem s (memSize name) then .error (Gen.E.out_of_memory, s)
    else .ok { s with
      scalars := s.scalars ++ [⟨name, varCurrent s, varCurrent s + recSize name, List.replicate (vsize name) 0⟩],
      scalCur := s.scalCur + memSize name }

/-- `Arrays.allocate` -/
def allocate (name : Bytes) (dims : List Nat) (s : VM) : MR :=
  if dims = [] then .ok s
  else match findA name s.arrays with
    | some _ => .error (Gen.E.duplicate_definition, s)
    | none =>
      if dims.any (fun d => decide (d < s.base)) then .error (Gen.E.subscript_out_of_range, s)
      else if lowMem s (amemSize s.base name dims) then .error (Gen.E.out_of_memory, s)
      else .ok { s with
        arrays := s.arrays ++ [⟨name, dims, s.arrCur, s.arrCur + arecSize name dims,
                                List.replicate (flatLength s.base dims) (List.replicate (vsize name) 0)⟩],
        arrCur := s.arrCur + amemSize s.base name dims }

/-- the bounds loop of `check_dim` (subscripts are unsigned here: the `i < 0` branch cannot fire) -/
def checkLoop (base : Nat) : List Nat → List Nat → Bool
  | i :: is, d :: ds => if i < base ∨ i > d then false else checkLoop base is ds
  | _, _ => true

/-- `Arrays.check_dim` -/
def checkDim (name : Bytes) (idx : List Nat) (s : VM) : MR :=
  let r : MR := match findA name s.arrays with
                | some _ => .ok s
                | none => allocate name (idx.map (fun _ => 10)) s
  match r with
  | .error x => .error x
  | .ok s1 =>
    match findA name s1.arrays with
    | none => .error (Gen.E.internal_error, s1)
    | some a =>
      if idx.length ≠ a.dims.length then .error (Gen.E.subscript_out_of_range, s1)
      else if checkLoop s1.base idx a.dims then .ok s1
      else .error (Gen.E.subscript_out_of_range, s1)

/-- `DataSegment._preallocate` -/
def prealloc (d : Dst) (s : VM) : MR :=
  match d with
  | .sc name => ensureScalar name s
  | .el name idx => checkDim name idx s

def mapS (name : Bytes) (f : SRec → SRec) (l : List SRec) : List SRec :=
  l.map (fun r => if r.name = name then f r else r)

def mapA (name : Bytes) (f : ARec → ARec) (l : List ARec) : List ARec :=
  l.map (fun a => if a.name = name then f a else a)

/-- copy a value into the cell of an existing variable (`_vars[name][:] = …`, `view_buffer(...)[:] = …`) -/
def writeCell (d : Dst) (v : Bytes) (s : VM) : VM :=
  match d with
  | .sc name => { s with scalars := mapS name (fun r => { r with val := v }) s.scalars }
  | .el name idx =>
    { s with arrays := mapA name (fun a => { a with cells := a.cells.set (index s.base idx a.dims) v }) s.arrays }

/-- the bytes of the cell of an existing variable -/
def rawCell (s : VM) : Dst → Bytes
  | .sc name => ((findS name s.scalars).map (·.val)).getD []
  | .el name idx => ((findA name s.arrays).bind (fun a => a.cells[index s.base idx a.dims]?)).getD []

inductive Val
  | num (b : Bytes)     -- `to_bytes()` of a number of the variable's own type
  | str (b : Bytes)     -- a string literal
deriving DecidableEq, Repr

/-- `DataSegment.let_` with a literal on the right -/
def letStmt (d : Dst) (v : Val) (s : VM) : MR :=
  match prealloc d s with
  | .error x => .error x
  | .ok s1 =>
    match v with
    | .num b =>
      if isStr d.name ∨ b.length ≠ vsize d.name then .error (Gen.E.type_mismatch, s1)
      else .ok (writeCell d b s1)
    | .str b =>
      if !isStr d.name then .error (Gen.E.type_mismatch, s1)
      else if b.length > 255 then .error (Gen.E.string_too_long, s1)
      else if lowMem s1 b.length then .error (Gen.E.out_of_string_space, s1)
      else
        let cur := s1.strCur - b.length
        let s2 := { s1 with strCur := cur, strs := if b.length > 0 then s1.strs ++ [(cur + 1, b)] else s1.strs }
        .ok (writeCell d (b.length :: le16 (cur + 1)) s2)

/-- `DataSegment._view_buffer` -/
def viewBuffer (d : Dst) (emptyErr : Bool) (s : VM) : MR :=
  match d with
  | .sc name =>
    match findS name s.scalars with
    | some _ => .ok s
    | none =>
      match ensureScalar name s with
      | .error x => .error x
      | .ok s1 => if emptyErr then .error (Gen.E.ifc, s1) else .ok s1
  | .el name idx => checkDim name idx s

/-- `DataSegment.swap_` -/
def swapStmt (a b : Dst) (s : VM) : MR :=
  if a.name.getLast? ≠ b.name.getLast? then .error (Gen.E.type_mismatch, s) else
  match viewBuffer a false s with
  | .error x => .error x
  | .ok s1 =>
    match viewBuffer b true s1 with
    | .error x => .error x
    | .ok s2 =>
      let va := rawCell s2 a
      let vb := rawCell s2 b
      -- both views have the size of the common type (a slice assignment of another length would be a
      -- Python ValueError, reported here as Internal error; not proved unreachable, but never produced in
      -- the correspondence, where it would show up as a disagreement)
      if va.length ≠ vsize a.name ∨ vb.length ≠ vsize a.name then .error (Gen.E.internal_error, s2)
      else .ok (writeCell b va (writeCell a vb s2))

/-- `del self._dims[name]` etc.: the (single) entry of the key goes -/
def removeA (name : Bytes) : List ARec → List ARec
  | [] => []
  | a :: rest => if a.name = name then rest else a :: removeA name rest

/-- the address update loop of `erase_` -/
def shiftA (erasedPtr freed : Nat) (a : ARec) : ARec :=
  if a.namePtr > erasedPtr then { a with namePtr := a.namePtr - freed, arrPtr := a.arrPtr - freed } else a

/-- one round of the `for name in args` loop of `Arrays.erase_` -/
def eraseStmt (name : Bytes) (s : VM) : MR :=
  match findA name s.arrays with
  | none => .error (Gen.E.ifc, s)
  | some e =>
    let freed := bufSize s.base name e.dims + arecSize name e.dims
    .ok { s with arrays := (removeA name s.arrays).map (shiftA e.namePtr freed), arrCur := s.arrCur - freed }

/-- `Arrays.erase_`: the loop over the names of one ERASE statement; an unknown (or repeated) name raises
    Illegal function call after the names before it have been erased -/
def eraseList : List Bytes → VM → MR
  | [], s => .ok s
  | n :: r, s =>
    match eraseStmt n s with
    | .error x => .error x
    | .ok s1 => eraseList r s1

inductive Op
  | letv (d : Dst) (v : Val)
  | dim (name : Bytes) (dims : List Nat)
  | swap (a b : Dst)
  | erase (names : List Bytes)
deriving Repr

def stmt : Op → VM → MR
  | .letv d v, s => letStmt d v s
  | .dim n dims, s => allocate n dims s
  | .swap a b, s => swapStmt a b s
  | .erase ns, s => eraseList ns s

/-- one statement: the state the interpreter is left in, and the error number (0 = none) -/
def step (s : VM) (op : Op) : VM × Nat :=
  match stmt op s with
  | .ok s' => (s', 0)
  | .error (e, s') => (s', e)

def run (s : VM) : List Op → VM
  | [] => s
  | op :: r => run (step s op).1 r

/-! ### what BASIC reads back -/

/-- `String.dereference` of a pointer cell -/
def derefCell (s : VM) (c : Bytes) : Bytes :=
  if c.getD 0 0 = 0 then [] else (Heap.lookup s.strs (c.getD 1 0 + 256 * c.getD 2 0)).getD []

/-- the value of a variable as a program reads it: the number's bytes, or the characters of the string -/
def readBack (s : VM) (d : Dst) : Bytes :=
  if isStr d.name then derefCell s (rawCell s d) else rawCell s d

end PcbV.VarMem
