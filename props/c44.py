"""C44 — TIME$, DATE$ and ENVIRON read back what was set."""
import datetime as real_datetime
import os

from vlib import basic

LEVEL = 'proof'
RULE = ('histories of TIME$=/DATE$=/reads under a fake host clock that is advanced between statements (across second, '
        'minute and midnight boundaries), strings from canonical-valid, clearly-invalid and odd (signed/blank/underscore) '
        'classes; ENVIRON/ENVIRON$ histories over a few names in random letter case with values over all byte values; '
        'a case is one statement; non-trivial = not a repeat of an earlier (statement text, clock) pair')
EXPLANATION = ('theorems (PcbV.Props.C44): accepted TIME$/DATE$ strings satisfy the host datetime precondition, rejected ones '
               'are Illegal function call; TIME$ after a set shows the set time plus elapsed whole seconds for every host '
               'clock value; DATE$ shows the set date and leaves the time of day alone (host calendar a parameter with '
               'civil∘days=id); ENVIRON set/get case-insensitive read-back and frame; correspondence drives the real '
               'Session with a substituted clock and the real os.environ')
TRUSTED_BASE = ['model PcbV.Model.Clock: hand transcription of clock.py Clock and dos.py Environment incl. Python int() grammar',
                'host datetime calendar (civil/days) and os.environ are parameters of the model']
ASSUMPTIONS = ['datetime.datetime constructor precondition is 1<=y<=9999, valid month/day, 0<=h<24, 0<=m,s<60',
               'os.environ rejects exactly NUL (and "=" in names); environment values round-trip through the codepage (C41)']

EPOCH = real_datetime.datetime(1970, 1, 1)
US = real_datetime.timedelta(microseconds=1)


class FakeClock(object):
    """Substitute for the `datetime` module inside pcbasic.basic.clock with a settable now()."""

    def __init__(self, start):
        outer = self
        self.now = start

        class _DT(real_datetime.datetime):
            @classmethod
            def now(cls, tz=None):
                return outer.now
        self.datetime = _DT
        self.timedelta = real_datetime.timedelta
        self.date = real_datetime.date

    def host_us(self):
        return (self.now - EPOCH) // US


def hexb(b):
    return bytes(b).hex() or '-'


def gen_time(rng):
    k = rng.random()
    if k < 0.45:       # canonical valid
        h, m, s = rng.choice([0, 1, 9, 10, 12, 22, 23, rng.randrange(24)]), rng.choice([0, 1, 30, 58, 59, rng.randrange(60)]), \
            rng.choice([0, 1, 58, 59, rng.randrange(60)])
        n = rng.choice([1, 2, 3])
        parts = [h, m, s][:n]
        fmt = rng.choice(['%d', '%02d'])
        sep = rng.choice([':', ':', '.'])
        return sep.join(fmt % p for p in parts).encode(), 'valid', tuple(parts + [0] * (3 - n))
    if k < 0.75:       # clearly invalid
        return rng.choice([
            b'24', b'24:00', b'23:60', b'23:59:60', b'-1:00:00', b'1:-5', b'1:2:-3', b'12:', b':12', b'', b'::',
            b'1:2:3:4', b'ab', b'12:xx', b'1e1', b'0x10', b'12:30:4.5', b'99999999999999999999', b'25', b'100:00',
            b'12;30', b'\xff', b'12:30:61', b'-0:-0:-1', b'12 30']), 'invalid', None
    # odd but possibly accepted forms: only compared with the model
    return rng.choice([b'+5', b' 5', b'5 ', b'+5:+6', b'1_2', b'1_2:3', b'\t7:\n8', b'007', b'0:0:0', b'1__2', b'_1', b'5:+',
                       b'-0', b'-0:00', b'+0:-0', b'\x0b4', b'4\x0c:5', b'12.30', b'12.30.15', b'1.2:3']), 'odd', None


def gen_date(rng):
    k = rng.random()
    if k < 0.45:
        yk = rng.random()
        if yk < 0.4:
            y = rng.choice([1980, 1981, 1999, 2000, 2024, 2077, 2078, 2099, rng.randrange(1980, 2100)])
            ys = '%d' % y
        elif yk < 0.7:
            yy = rng.choice([80, 81, 99, rng.randrange(80, 100)])
            y, ys = 1900 + yy, '%02d' % yy
        else:
            yy = rng.choice([0, 1, 24, 76, 77, rng.randrange(0, 78)])
            y, ys = 2000 + yy, rng.choice(['%02d', '%d']) % yy
        mo = rng.choice([1, 2, 2, 12, rng.randrange(1, 13)])
        dim = [31, 29 if (y % 4 == 0 and y % 100 != 0) or y % 400 == 0 else 28, 31, 30, 31, 30, 31, 31, 30, 31, 30, 31][mo - 1]
        d = rng.choice([1, dim, dim, rng.randrange(1, dim + 1)])
        sep = rng.choice(['-', '/'])
        fmt = rng.choice(['%d', '%02d'])
        return (sep.join([fmt % mo, fmt % d, ys])).encode(), 'valid', (y, mo, d)
    if k < 0.8:
        return rng.choice([
            b'13-01-1990', b'0-1-1990', b'1-0-1990', b'1-32-1990', b'2-30-2000', b'2-29-1999', b'2-29-2100', b'4-31-1985',
            b'1-1-78', b'1-1-79', b'1-1-100', b'1-1-1979', b'1-1-2100', b'1-1-9999', b'1-1', b'1-1-1990-1', b'', b'a-b-c',
            b'1-1-19x0', b'1--1-1990', b'-1-1-1990', b'1/1/-5', b'1.1.1990', b'1-1-', b'--', b'6-31-99', b'9-31-2020',
            b'11-31-2020', b'2-29-1900', b'1 1 1990', b'12-32-80']), 'invalid', None
    return rng.choice([b'+1-+1-+1990', b' 1- 1- 1990', b'1_0-1-1990', b'01-01-0080', b'1-1-00', b'1-1-000', b'1-1-077',
                       b'1-1-0', b'12-31-77', b'1/1-80', b'1-1/80', b'\t1-1-80', b'1-1-80 ', b'1-1-1_9_9_0']), 'odd', None


def fmt_time(secs):
    secs %= 86400
    return b'%02d:%02d:%02d' % (secs // 3600, secs // 60 % 60, secs % 60)


def clock_part(ctx, n_hist, hist_len):
    from pcbasic.basic import clock as clock_module
    rng = ctx.rng
    saved = clock_module.datetime
    try:
        for hi in range(n_hist):
            start = real_datetime.datetime(rng.choice([1985, 1999, 2000, 2024, 2026, 2077, 2099]), rng.randrange(1, 13),
                                           rng.randrange(1, 29), rng.randrange(24), rng.randrange(60), rng.randrange(60),
                                           rng.choice([0, 1, 499999, 500000, 999999, rng.randrange(1000000)]))
            fake = FakeClock(start)
            clock_module.datetime = fake
            s = basic.new_session()
            with s:
                clk = s._impl.clock
                lines, outs, cases = [], [], []
                # oracle state: what TIME$/DATE$ must show = (expected datetime of the emulated clock)
                exp_now = start
                for step in range(hist_len):
                    # advance the host clock
                    adv = rng.choice([0, 0, 1, 999999, 1000000, 1500000, 59000000, 3600000000, 86399000000,
                                      rng.randrange(0, 3000000), rng.randrange(0, 90000000000)])
                    fake.now = fake.now + adv * US
                    exp_now = exp_now + adv * US
                    host = fake.host_us()
                    off = clk.time_offset // US
                    op = rng.choice(['tset', 'tset', 'dset', 'dset', 'tget', 'dget'])
                    if op == 'tset':
                        text, kind, comp = gen_time(rng)
                        s.set_variable('T$', text)
                        out = basic.safe_exec(s, b'TIME$=T$')
                        ok = out == b''
                        ifc = b'Illegal function call' in out
                        new_off = clk.time_offset // US
                        impl = 'ok %d' % new_off if ok else ('err 5' if ifc else 'other %r' % out)
                        lines.append('timeset %d %d %s' % (host, off, hexb(text)))
                        outs.append(impl)
                        cases.append(('tset', text))
                        ctx.count('time:' + kind)
                        ctx.count('time:' + impl.split()[0])
                        if kind == 'valid':
                            if not ok:
                                ctx.fail('time-valid-rejected:%s' % text.decode('latin-1'), {'time': text.decode('latin-1')},
                                         'valid TIME$ value %r rejected: %r' % (text, out))
                            else:
                                exp_now = exp_now.replace(hour=comp[0], minute=comp[1], second=comp[2])
                        elif kind == 'invalid':
                            if not ifc:
                                ctx.fail('time-invalid-accepted:%s' % text.decode('latin-1'), {'time': text.decode('latin-1')},
                                         'invalid TIME$ value %r: expected Illegal function call, got %r' % (text, out))
                            elif new_off != off:
                                ctx.fail('time-invalid-changed-clock', {'time': text.decode('latin-1')},
                                         'rejected TIME$ value changed the clock offset')
                        else:
                            if ok:
                                exp_now = EPOCH + (fake.host_us() + new_off) * US   # trust the implementation for odd forms
                    elif op == 'dset':
                        text, kind, comp = gen_date(rng)
                        s.set_variable('T$', text)
                        out = basic.safe_exec(s, b'DATE$=T$')
                        ok = out == b''
                        ifc = b'Illegal function call' in out
                        new_off = clk.time_offset // US
                        impl = 'ok %d' % new_off if ok else ('err 5' if ifc else 'other %r' % out)
                        lines.append('dateset %d %d %s' % (host, off, hexb(text)))
                        outs.append(impl)
                        cases.append(('dset', text))
                        ctx.count('date:' + kind)
                        ctx.count('date:' + impl.split()[0])
                        if kind == 'valid':
                            if not ok:
                                ctx.fail('date-valid-rejected:%s' % text.decode('latin-1'), {'date': text.decode('latin-1')},
                                         'valid DATE$ value %r rejected: %r' % (text, out))
                            else:
                                exp_now = exp_now.replace(year=comp[0], month=comp[1], day=comp[2])
                        elif kind == 'invalid':
                            if not ifc:
                                ctx.fail('date-invalid-accepted:%s' % text.decode('latin-1'), {'date': text.decode('latin-1')},
                                         'invalid DATE$ value %r: expected Illegal function call, got %r' % (text, out))
                            elif new_off != off:
                                ctx.fail('date-invalid-changed-clock', {'date': text.decode('latin-1')},
                                         'rejected DATE$ value changed the clock offset')
                        else:
                            if ok:
                                exp_now = EPOCH + (fake.host_us() + new_off) * US
                    elif op == 'tget':
                        out = s.execute(b'PRINT TIME$').strip()
                        lines.append('timefn %d %d' % (host, off))
                        outs.append('ok ' + hexb(out))
                        cases.append(('tget',))
                        exp = exp_now.strftime('%H:%M:%S').encode()
                        if out != exp:
                            ctx.fail('time-readback', {'start': str(start), 'step': step},
                                     'TIME$ shows %r, expected %r (set time advanced by elapsed seconds)' % (out, exp))
                    else:
                        out = s.execute(b'PRINT DATE$').strip()
                        lines.append('datefn %d %d' % (host, off))
                        outs.append('ok ' + hexb(out))
                        cases.append(('dget',))
                        exp = exp_now.strftime('%m-%d-%Y').encode()
                        if out != exp:
                            ctx.fail('date-readback', {'start': str(start), 'step': step},
                                     'DATE$ shows %r, expected %r' % (out, exp))
                    ctx.case((hi, step, lines[-1]))
                ctx.compare(cases, outs, lines, label='clock')
                if hi == 0:
                    ctx.sample({'history': lines[:6], 'impl': outs[:6]})
    finally:
        clock_module.datetime = saved


def env_part(ctx, n_hist, hist_len):
    rng = ctx.rng
    saved = dict(os.environ)
    try:
        for hi in range(n_hist):
            s = basic.new_session()
            tag = 'PCBV%d_' % rng.randrange(10**6)
            # names over the whole alphabet (both ends a/z included), digits and the ASCII neighbours of the
            # letter ranges (@ [ ` {), so that case folding is exercised on every letter and on non-letters
            alphabet = 'abcdefghijklmnopqrstuvwxyz'
            names = [tag + 'az', tag + 'Path_z', tag + 'x1@[`{~!#$%&()-.^_']
            for _ in range(3):
                names.append(tag + ''.join(rng.choice(alphabet + '0123456789_') for _ in range(rng.randrange(1, 9))))
            names.append(tag + ''.join(rng.sample(alphabet, 26)))
            ref = {}
            ops, outs = [], []
            with s:
                for step in range(hist_len):
                    name = rng.choice(names)
                    name = ''.join(c.upper() if rng.random() < 0.5 else c.lower() for c in name).encode()
                    k = rng.random()
                    if k < 0.45:
                        vk = rng.random()
                        if vk < 0.5:
                            value = bytes(rng.choice(b'abcXYZ019 =;:\\/.-_') for _ in range(rng.randrange(0, 12)))
                        elif vk < 0.8:
                            value = bytes(rng.randrange(1, 256) for _ in range(rng.randrange(0, 20)))
                        else:
                            value = bytes(rng.randrange(0, 256) for _ in range(rng.randrange(1, 6)))   # may contain NUL
                        arg = name + b'=' + value
                        bad = None
                        ek = rng.random()
                        if ek < 0.06:
                            arg, bad = value.replace(b'=', b''), 'no-equals'
                        elif ek < 0.1:
                            arg, bad = b'=' + value, 'empty-name'
                        elif ek < 0.14:
                            arg, bad = name + b'\x80\xe9=' + value, 'non-ascii-name'
                        elif ek < 0.20:
                            pos = rng.randrange(len(value) + 1)
                            arg, bad = name + b'=' + value[:pos] + b'\0' + value[pos:], 'nul-in-value'
                        elif ek < 0.24:
                            arg, bad = name[:3] + b'\0' + name[3:] + b'=' + value, 'nul-in-name'
                        # through a string variable so that every byte value can be passed
                        s.set_variable('E$', arg)
                        out = basic.safe_exec(s, b'ENVIRON E$')
                        ok, ifc = out == b'', b'Illegal function call' in out
                        ops.append('s:' + hexb(arg))
                        outs.append('ok' if ok else ('err 5' if ifc else 'other %r' % out))
                        ctx.count('env:set:' + outs[-1].split()[0])
                        invalid = bad is not None or b'\0' in arg
                        if invalid:
                            ctx.count('env:invalid:' + (bad or 'nul'))
                            if not ifc:
                                ctx.fail('environ-invalid-accepted:%s' % (bad or 'nul'), {'arg': hexb(arg)},
                                         'invalid ENVIRON argument %r: expected Illegal function call, got %r' % (arg, out))
                        else:
                            if not ok:
                                ctx.fail('environ-valid-rejected', {'arg': hexb(arg)},
                                         'ENVIRON %r rejected: %r' % (arg, out))
                            else:
                                ref[name.upper()] = value
                    else:
                        s.set_variable('E$', name)
                        out = basic.safe_exec(s, b'A$=ENVIRON$(E$)')
                        got = s.get_variable('A$')
                        ops.append('g:' + hexb(name))
                        outs.append('ok ' + hexb(got) if out == b'' else 'other %r' % out)
                        ctx.count('env:get')
                        exp = ref.get(name.upper(), b'')
                        if bytes(got) != exp:
                            ctx.fail('environ-readback', {'ops': ops[-8:]},
                                     'ENVIRON$(%r) returned %r, expected %r' % (name, bytes(got), exp))
                    ctx.case((hi, step, ops[-1]))
            line = 'env ' + ';'.join(ops)
            ctx.compare([ops], [';'.join(outs)], [line], label='environ')
            if hi == 0:
                ctx.sample({'environ_history': ops[:6], 'impl': outs[:6]})
    finally:
        for k in list(os.environ):
            if k not in saved:
                del os.environ[k]
        os.environ.update(saved)


def run(ctx):
    clock_part(ctx, 40 if ctx.quick else 1500, 40)
    env_part(ctx, 30 if ctx.quick else 1000, 40)


def replay(ctx, payload):
    import random
    sub = _Sub(ctx)
    sub.rng = random.Random(payload.get('seed', 0))
    sub.tier = payload.get('tier', 'quick')
    run(sub)
    hits = [f for f in sub.failures if f['key'] == payload.get('key')]
    return hits[0]['what'] if hits else None


class _Sub(object):
    def __init__(self, ctx):
        self.__dict__.update(ctx.__dict__)
        self._ctx = ctx
        self.failures, self.disagreements = [], []

    @property
    def quick(self):
        return self.tier == 'quick'

    def __getattr__(self, name):
        return getattr(self._ctx.__class__, name).__get__(self)
