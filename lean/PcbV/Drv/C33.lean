import PcbV.Model.Gml
import PcbV.Drv.C42
/-
  Driver operations of C33 (unset viewport of a `W × H` mode, no WINDOW):
    hist <fuel> <numAttr> <W> <H> <bindings> <x,y,attr,scale,angle> <stmts>
      bindings as for C42 (`<hexname>:n:<int>`, `<hexname>:s:<hexbytes>`, `<hexname>:a:<ints>`; `-` = none);
      the pen is `_last_point`, `_last_attr`, `_draw_scale`, `_draw_angle` (`_draw_current` = None);
      stmts, comma-separated:  d:<hex>  DRAW string,  p:x:y:c  PSET (x,y),c,  l:x:y:c  LINE -(x,y),c
      reply `ok <status>/<POINT(0)>/<POINT(1)>;… <digest>` with status ok | err<n> | hang | unsup and
      digest `<pixel buffer, big endian, mod 2147483647>:<non-zero cells>` (`-` when a P command painted).
    limit     reply `ok <nesting limit>`
-/
namespace PcbV.Drv.C33
open PcbV PcbV.Gen PcbV.Mml PcbV.Gml PcbV.Viewport

def parseStmt (s : String) : Option Stmt :=
  match s.splitOn ":" with
  | ["d", h] => (ofHex h).map Stmt.draw
  | ["p", x, y, c] => do
    let x ← PcbV.Drv.C42.parseInt x; let y ← PcbV.Drv.C42.parseInt y; let c ← PcbV.Drv.C42.parseInt c
    pure (.pset x y c)
  | ["l", x, y, c] => do
    let x ← PcbV.Drv.C42.parseInt x; let y ← PcbV.Drv.C42.parseInt y; let c ← PcbV.Drv.C42.parseInt c
    pure (.lineTo x y c)
  | _ => none

def showStatus : Status → String
  | .ok => "ok"
  | .err e => "err" ++ toString e
  | .outOfFuel => "hang"
  | .unsupported => "unsup"

/-- write the single-pixel ops of one event into the row-major buffer -/
def paintBuf (v : View) (w : Nat) (buf : Array Nat) (e : Ev) : Array Nat :=
  (e.ops v).foldl (fun buf op =>
    match op with
    | ⟨.int y, .int x⟩ =>
      if v.contains x y then buf.set! (y.toNat * w + x.toNat) e.attr.toNat else buf
    | _ => buf) buf

def digest (buf : Array Nat) : String :=
  let h := buf.foldl (fun h c => (h * 256 + c) % 2147483647) 0
  let n := buf.foldl (fun n c => if c == 0 then n else n + 1) 0
  toString h ++ ":" ++ toString n

def runAll (P : Params) (env : Env) (fuel : Nat) :
    Pen → List Stmt → List String → List Ev → List String × List Ev
  | _, [], acc, evs => (acc.reverse, evs)
  | pen, st :: rest, acc, evs =>
    let o := stmt P env fuel pen st
    let line := showStatus o.status ++ "/" ++ toString (point o.pen 0) ++ "/" ++ toString (point o.pen 1)
    runAll P env fuel o.pen rest (line :: acc) (evs ++ o.evs)

def handle : List String → String
  | ["hist", fuel, numAttr, w, h, binds, pen, stmts] =>
    match fuel.toNat?, numAttr.toNat?, w.toNat?, h.toNat?, PcbV.Drv.C42.parseBindings binds,
      PcbV.Drv.C42.parseInts pen, (stmts.splitOn ",").mapM parseStmt with
    | some fuel, some numAttr, some w, some h, some bs, some [x, y, a, sc, an], some sts =>
      let v := View.full w h
      let P := params numAttr (v.xmin, v.ymin, v.xmax, v.ymax)
      let pen : Pen := ⟨none, (x, y), a, sc, an⟩
      let (outs, evs) := runAll P (PcbV.Drv.C42.mkEnv bs) fuel pen sts [] []
      let painted := evs.any (fun e => match e with | .paint .. => true | _ => false)
      let dg := if painted then "-" else
        digest (evs.foldl (paintBuf v w) (Array.replicate (w * h) 0))
      "ok " ++ ";".intercalate outs ++ " " ++ dg
    | _, _, _, _, _, _, _ => "bad-op"
  | ["limit"] => "ok " ++ toString DrawGml.maxNesting
  | _ => "bad-op"

end PcbV.Drv.C33
