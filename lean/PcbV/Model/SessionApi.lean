import PcbV.Basic
import PcbV.Gen.Errors
import PcbV.Gen.ApiConsts
import PcbV.Model.IntOps
import PcbV.Model.Mbf
import PcbV.Model.Arrays
import PcbV.Model.Codepage
/-
  PcbV.Model.SessionApi — the value conversions behind `Session.set_variable / get_variable /
  evaluate` (pcbasic/basic/api.py, implementation.py: Implementation.set_variable / get_variable /
  _to_basic_compatible, values.py: Values.from_value, numbers.py: Integer.from_value/to_value,
  Float.from_value/to_value, strings.py: String.from_value/to_value, arrays.py: Arrays.from_list/
  to_list).

  * A Python float is a dyadic rational `±num·2^k` (`num : Nat`, `k : Int`; every finite IEEE double
    is one), or an infinity, or NaN.  `math.frexp`/`math.ldexp`/`int()` on such a value are exact
    integer operations, written out below.
  * `fromValue` is the code AFTER the repair "fix: Float.from_value …" (frexp);  `fromValueOld` is the
    code before it (`int(math.log(|x|, 2) - shift)`, `int(|x| * 0.5**exp)`), under the assumption that
    the integer part of `math.log(x, 2)` is right (the fractional part is only looked at through
    "is it zero", i.e. "is `num` a power of two").
  * `toValue` returns the exact dyadic value `±man·2^exp` of a stored pattern; Python then forms
    `man * 2.**exp` in IEEE double arithmetic, which is exact whenever `man < 2^53` (always the case
    for a Single, and for a Double that was set from a Python float) and correctly rounded otherwise.
    That last rounding is NOT part of the model (the harness applies it when it compares).
  * Lists: `Arrays.from_list` / `to_list` for ranks 1..3 over the array model of C12
    (`PcbV.Model.Arrays`); cells hold abstract payloads (`Int`), the element conversion
    `from_value`/`to_value` is covered by the scalar functions.  `ValueError('Array must not be
    empty.')` is reported as the pseudo error number `valueError` (not a BASIC error number).
-/
namespace PcbV.SessionApi
open PcbV PcbV.Gen

/-! ## integers (`Integer.from_value = from_int`, `to_value = to_int`) -/

/-- `set_variable('N%', n)`: the stored 16-bit pattern, or Overflow -/
def setInt (n : Int) : R Nat := IntOps.fromInt n false

/-- `get_variable('N%')` of a stored pattern -/
def getInt (w : Nat) : Int := IntOps.toInt w

/-- `bool` is converted before anything else: `-1 if value else 0` -/
def ofBool (b : Bool) : Int := if b then -1 else 0

/-- a bool leaf of a (nested) list, repaired code: `_to_basic_compatible` converts every leaf like a scalar -/
def listBool (b : Bool) : Int := ofBool b

/-- a bool leaf of a list BEFORE the repair: only the top-level value was converted, the leaf went to
    `Integer.from_int(True)`, and `struct.pack('<h', True)` stores 1 -/
def listBoolOld (b : Bool) : Int := if b then 1 else 0

/-! ## floats -/

open PcbV.Mbf

/-- a Python float -/
inductive PyFloat where
  | fin (neg : Bool) (num : Nat) (k : Int)     -- ±num·2^k  (num = 0: zero)
  | inf (neg : Bool)
  | nan
deriving DecidableEq, Repr

/-- number of binary digits (`0` for `0`) -/
def bitLen (n : Nat) : Nat := if n = 0 then 0 else Nat.log2 n + 1

/-- `int(math.ldexp(frac, w))` where `frac, e = math.frexp(num·2^k)`, i.e. `frac = num / 2^bitLen num`:
    the top `w` bits of `num` (shifted up when there are fewer) -/
def topBits (w num : Nat) : Nat :=
  if bitLen num ≤ w then num * 2 ^ (w - bitLen num) else num / 2 ^ (bitLen num - w)

/-- `_shift = _bias - 129` -/
def shiftOf (f : Fmt) : Nat := f.bias - 129

/-- the tail of `from_value` shared by both versions: `_bring_to_range`, `_check_limits`, pack into a
    FRESH (all-zero) value: underflow leaves it zero; overflow raises with the signed maximum -/
def finish (f : Fmt) (man : Nat) (exp : Int) (neg : Bool) : FR :=
  let (man, exp) := bringToRange man exp f.posMask f.mask
  if exp > 255 then .error (overflow, if neg then f.negMax else f.posMax)
  else if exp ≤ 0 then .ok zero
  else .ok ⟨packMan f man neg, exp.toNat⟩

/-- `Float.from_value(in_float)` (repaired code).  NaN: `int(nan)` raises ValueError, which the float
    error handler turns into Illegal function call (not a soft error: always raised). -/
def fromValue (f : Fmt) : PyFloat → FR
  | .nan => .error (E.ifc, zero)
  | .inf neg => .error (overflow, if neg then f.negMax else f.posMax)
  | .fin neg num k =>
    if num = 0 then .ok zero else
    -- frac, exp = math.frexp(abs(in_float));  man = int(math.ldexp(frac, shift + 1))
    let man := topBits (shiftOf f + 1) num
    -- exp += bias - shift - 1
    let exp : Int := (bitLen num : Int) + k + (f.bias : Int) - (shiftOf f : Int) - 1
    finish f man exp neg

/-- outcome of the code before the repair: a value / soft error, or a Python exception that escapes
    `Session.set_variable` (AttributeError raised inside `FloatErrorHandler.handle`) -/
inductive OldOut where
  | res (r : FR)
  | crash
deriving DecidableEq, Repr

/-- `Float.from_value` BEFORE the repair, on a finite nonzero value:
    `exp = int(math.log(|x|, 2) - shift)` truncates toward zero, so below `2^shift` (and off the powers
    of two) the exponent is one too large and the mantissa has one bit less; `0.5**exp` raises
    OverflowError once `-exp ≥ 1024`. -/
def fromValueOld (f : Fmt) (neg : Bool) (num : Nat) (k : Int) : OldOut :=
  if num = 0 then .res (.ok zero) else
  let fl : Int := (bitLen num : Int) - 1 + k            -- ⌊log2 |x|⌋
  let isPow2 := decide (num = 2 ^ (bitLen num - 1))
  let d : Int := fl - (shiftOf f : Int)
  let exp0 : Int := if d ≥ 0 ∨ isPow2 then d else d + 1  -- int() of a negative non-integer rounds up
  if -exp0 ≥ 1024 then .crash else
  -- man = int(|x| * 0.5**exp0)
  let sh : Int := k - exp0
  let man := if sh ≥ 0 then num * 2 ^ sh.toNat else num / 2 ^ (-sh).toNat
  if man = 0 then .crash   -- not reachable for doubles; `_bring_to_range` would not terminate
  else .res (finish f man (exp0 + f.bias) neg)

/-- `Float.to_value()`: exact value `±man·2^exp` (see the header for the final IEEE rounding) -/
def toValue (f : Fmt) (x : F) : PyFloat :=
  if x.e = 0 then .fin false 0 0
  else .fin (isNeg f x) (if isNeg f x then x.m else x.m + f.signMask) ((x.e : Int) - f.bias)

/-- what `set_variable` stores for a float and whether "Overflow" was printed: the float error handler
    prints the message and continues with the signed maximum; Illegal function call is raised -/
def setFloat (f : Fmt) (x : PyFloat) : R (F × Bool) :=
  match fromValue f x with
  | .ok v => .ok (v, false)
  | .error (e, v) => if e = overflow then .ok (v, true) else .error e

/-! ## strings -/

/-- `String.from_str` → `StringSpace.store`: at most 255 bytes -/
def setBytes (b : Bytes) : R Bytes :=
  if b.length > 255 then .error E.string_too_long else .ok b

/-- `set_variable('S$', u)` for unicode: `codepage.unicode_to_bytes(u)` first (argument NFC) -/
def setUnicode (cp : Codepage.Cp) (u : Codepage.Cluster) : R Bytes :=
  setBytes (Codepage.unicodeToBytes cp u false)

/-- `get_variable('S$', as_type=str)`: `bytes_to_unicode(value, preserve=cp.CONTROL)` -/
def getUnicode (cp : Codepage.Cp) (b : Bytes) : Codepage.Cluster :=
  Codepage.bytesToUnicode cp b ApiConsts.control none false

/-! ## lists -/

open PcbV.Arrays

/-- pseudo error number for `ValueError('Array must not be empty.')` -/
def valueError : Nat := 1000

/-- `for i, v in enumerate(xs): body(i, v)` where the body may raise -/
def enumFold {α : Type} (body : Nat → α → State → State × Option Nat) :
    Nat → List α → State → State × Option Nat
  | _, [], st => (st, none)
  | i, x :: xs, st =>
    match body i x st with
    | (st', some e) => (st', some e)
    | (st', none) => enumFold body (i + 1) xs st'

/-- the leaf level of `_from_list`: `self.set(name, index+[i+(self._base or 0)], from_value(v))` -/
def fromRow (name : Nat) (pre : List Int) (vs : List Int) (st : State) : State × Option Nat :=
  if vs = [] then (st, some valueError) else
  enumFold (fun i v st => Arrays.set st name (pre ++ [(i : Int) + st.b]) v) 0 vs st

/-- one level up: `self._from_list(v, name, index+[i+(self._base or 0)])` for every sub-list -/
def fromRows (name : Nat) (pre : List Int) (rows : List (List Int)) (st : State) : State × Option Nat :=
  if rows = [] then (st, some valueError) else
  enumFold (fun i r st => fromRow name (pre ++ [(i : Int) + st.b]) r st) 0 rows st

def fromPlanes (name : Nat) (pre : List Int) (ps : List (List (List Int))) (st : State) :
    State × Option Nat :=
  if ps = [] then (st, some valueError) else
  enumFold (fun i p st => fromRows name (pre ++ [(i : Int) + st.b]) p st) 0 ps st

/-- `Arrays.from_list` for a list of scalars / of lists / of lists of lists -/
def fromList1 (st : State) (name : Nat) (l : List Int) := fromRow name [] l st
def fromList2 (st : State) (name : Nat) (l : List (List Int)) := fromRows name [] l st
def fromList3 (st : State) (name : Nat) (l : List (List (List Int))) := fromPlanes name [] l st

/-- `range(self._base or 0, d + 1)` -/
def pyRange (b d : Int) : List Int := (List.range (d + 1 - b).toNat).map fun (i : Nat) => b + (i : Int)

/-- `self.get(name, index).to_value()`; the subscripts produced by `to_list` are always in range, an
    error cannot occur (it would show as 0 here) -/
def rd (st : State) (name : Nat) (idx : List Int) : Int :=
  match (Arrays.get st name idx).2 with
  | .ok v => v
  | .error _ => 0

/-- `_to_list(name, index, [d])` -/
def toRow (st : State) (name : Nat) (pre : List Int) (d : Int) : List Int :=
  (pyRange st.b d).map fun i => rd st name (pre ++ [i])

/-- `_to_list(name, index, [d0, d1])` -/
def toRows (st : State) (name : Nat) (pre : List Int) (d0 d1 : Int) : List (List Int) :=
  (pyRange st.b d0).map fun i => toRow st name (pre ++ [i]) d1

def toPlanes (st : State) (name : Nat) (pre : List Int) (d0 d1 d2 : Int) : List (List (List Int)) :=
  (pyRange st.b d0).map fun i => toRows st name (pre ++ [i]) d1 d2

/-- result of `Arrays.to_list(name)` by rank (`none`: unknown name → `[]`; rank > 3 not modelled) -/
inductive PyList where
  | missing
  | l1 (l : List Int)
  | l2 (l : List (List Int))
  | l3 (l : List (List (List Int)))
  | other
deriving DecidableEq, Repr

def toList (st : State) (name : Nat) : PyList :=
  match find name st.arrs with
  | none => .missing
  | some a =>
    match a.dims with
    | [d0] => .l1 (toRow st name [] d0)
    | [d0, d1] => .l2 (toRows st name [] d0 d1)
    | [d0, d1, d2] => .l3 (toPlanes st name [] d0 d1 d2)
    | _ => .other

end PcbV.SessionApi
