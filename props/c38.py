"""C38 — event traps fire only when enabled and never re-enter."""
import re
import struct

from vlib import basic

LEVEL = 'proof'
RULE = ('a case is one scenario = one BASIC program (main part, one handler per trap for 1-4 KEY/PEN/STRIG traps, an ON ERROR '
        'section with RESUME NEXT, a plain subroutine; statements ON/OFF/STOP, ON..GOSUB n/0, ERROR, GOSUB, stray RETURN, '
        'CLEAR, END) plus a schedule of event occurrences injected per executed line through Session.set_hook, and in about half '
        'of them a direct-mode phase after the program has returned to the prompt (ON/OFF/STOP, ERROR entering the ON ERROR handler '
        'from direct mode, CONT, GOTO line, CLEAR, each preceded by occurrences); '
        'hand-written boundary scenarios for every clause of the statement, then random ones from the PRNG; '
        'non-trivial = distinct (program, schedule) in which at least one occurrence is injected')
EXPLANATION = ('theorems (PcbV.Props.C38): over ARBITRARY unbounded schedules of occurrences, ON/OFF/STOP, ON..GOSUB, dispatch '
               '(any iteration order), GOSUB/RETURN, error trap/RESUME, END/CONT/RUN/CLEAR the machine made of the code\'s flags '
               '(enabled, stopped, triggered, gosub, suspend_all, run_mode, gosub-stack tags) enters exactly the traps that the '
               'specification machine (armed off/on/stop, pending, busy, errActive, run) enters; on it: a trap is entered only when '
               'running, outside the error handler, armed ON, with a handler, not busy, and with an occurrence recorded while '
               'ON/STOPped and not consumed by an earlier entry; STOP remembers once; OFF loses; no re-entry before RETURN of the '
               'frame or an explicit ON; several traps are independent.  Correspondence: the compiled event-program machine built on '
               'the same step function predicts the printed marker trace and the executed lines of every scenario run in a real '
               'Session; an independent oracle checks the clauses of the statement on the observed line log + schedule.')
TRUSTED_BASE = ['model PcbV.Model.Events: hand transcription of BasicEvents.command, EventHandler flags, '
                'Interpreter.handle_basic_events/jump_sub/return_/trap_error/resume_/clear and the parse loop order '
                '(check_events, dispatch, line, hook, statement)',
                'iteration order of the enabled set is read from the live object in the hook and given to the model as data '
                '(the theorems hold for every order)',
                'COM traps (live `triggered`, OFF does not disable) are outside the model']
ASSUMPTIONS = ['an occurrence is an input signal processed by EventQueues._check_input; signals put on the input queue in the '
               'line hook are processed by the next check_events (before the next dispatch)',
               'TIMER/PLAY occurrences (clock / sound-queue driven) use the same EventHandler flags and are not driven here']


class Scenario(object):
    """traps: list of ('KEY',k)|('PEN',)|('STRIG',j); main/handlers/errh/sub: lists of statement tokens;
    inj: {tick: [trap,...]}"""

    def __init__(self, traps, main, handlers, errh, sub, inj, direct=()):
        self.traps, self.main, self.handlers, self.errh, self.sub = traps, main, handlers, errh, sub
        self.inj = {int(k): list(v) for k, v in inj.items()}
        # direct-mode statements executed after the program has returned to the prompt: (token, [traps occurring before it])
        self.direct = [(c, list(i)) for c, i in direct]
        self.n = len(traps)
        # the GOTO after the final END keeps a CONT from running into the handler sections
        code = list(main) + ['d', 'j%d' % len(main)]
        self.hstart = []
        for i, body in enumerate(handlers):
            self.hstart.append(len(code))
            code += ['mE%d' % i] + list(body) + ['mX%d' % i, 'r']
            # RESUME NEXT after a failing final RETURN (stack dropped by CLEAR) must not fall into the next section
            code += ['d', 'j%d' % len(code)]
        self.estart = len(code)
        code += ['mR'] + list(errh) + ['mS', 'u']
        self.sstart = len(code)
        code += ['mG'] + list(sub) + ['r']
        code += ['d', 'j%d' % len(code)]
        self.code = code

    def to_json(self):
        return {'traps': [list(t) for t in self.traps], 'main': self.main, 'handlers': self.handlers, 'errh': self.errh,
                'sub': self.sub, 'inj': {str(k): v for k, v in self.inj.items()}, 'direct': [[c, i] for c, i in self.direct]}

    @classmethod
    def from_json(cls, j):
        return cls([tuple(t) for t in j['traps']], j['main'], j['handlers'], j['errh'], j['sub'], j['inj'],
                   [tuple(d) for d in j.get('direct', [])])

    def line(self, idx):
        return 10 * (idx + 1)

    def ev_name(self, i):
        t = self.traps[i]
        if t[0] == 'KEY':
            return 'KEY(%d)' % t[1]
        if t[0] == 'PEN':
            return 'PEN'
        return 'STRIG(%d)' % t[1]

    def basic_text(self, tok):
        k = tok[0]
        if k == 'm':
            # no newline: scrolling the screen is by far the most expensive thing the interpreter would do here
            return 'PRINT "<%s>";' % tok[1:]
        if k in 'nfs':
            return '%s %s' % (self.ev_name(int(tok[1])), {'n': 'ON', 'f': 'OFF', 's': 'STOP'}[k])
        if k == 'h':
            return 'ON %s GOSUB %d' % (self.ev_name(int(tok[1])), self.line(self.hstart[int(tok[1])]))
        if k == 'z':
            return 'ON %s GOSUB 0' % self.ev_name(int(tok[1]))
        if k in 'jJ':
            return 'GOTO %d' % self.line(int(tok[1:]))
        if k == 'q':
            return 'RETURN %d' % self.line(int(tok[1:]))
        if tok == 't':
            return 'CONT'
        if tok == 'e1':
            return 'ON ERROR GOTO %d' % self.line(self.estart)
        if tok == 'e0':
            return 'ON ERROR GOTO 0'
        return {'x': 'ERROR 5', 'g': 'GOSUB %d' % self.line(self.sstart), 'r': 'RETURN', 'u': 'RESUME NEXT', 'd': 'END',
                'c': 'CLEAR'}[tok]

    def program(self):
        return [('%d %s' % (self.line(i), self.basic_text(t))).encode() for i, t in enumerate(self.code)]


# ---------------------------------------------------------------------------------------------
# implementation adapter

def signal_for(trap):
    from pcbasic.basic.base import signals, scancode
    if trap[0] == 'KEY':
        k = trap[1]
        sc = [scancode.F1, scancode.F2, scancode.F3, scancode.F4, scancode.F5, scancode.F6, scancode.F7, scancode.F8,
              scancode.F9, scancode.F10, scancode.UP, scancode.LEFT, scancode.RIGHT, scancode.DOWN][k - 1]
        return signals.Event(signals.KEYB_DOWN, (u'', sc, []))
    if trap[0] == 'PEN':
        return signals.Event(signals.PEN_DOWN, (1, 1))
    j = trap[1] // 2
    return signals.Event(signals.STICK_DOWN, (j // 2, j % 2))


def run_impl(sc, max_ticks=1500):
    """Run the scenario in a real Session.  Returns (markers, items, raw output); an item is one executed program line
    ('T', hook call) or one direct-mode statement ('D'), with the occurrences delivered by the check_events before it
    ('pre') and the iteration order of the enabled set at that moment."""
    s = basic.new_session()
    items, pending = [], []
    nticks = [0]
    with s:
        for l in sc.program():
            s.execute(l)
        impl = s._impl
        q = impl.queues.inputs

        def enabled_order():
            try:
                be = impl.basic_events
                ident = {}
                for i, t in enumerate(sc.traps):
                    h = be.key[t[1] - 1] if t[0] == 'KEY' else (be.pen if t[0] == 'PEN' else be.strig[t[1] // 2])
                    ident[id(h)] = i
                return [ident[id(h)] for h in be.enabled if id(h) in ident]
            except Exception:   # noqa  (a refactored container: fall back to ascending order)
                return list(range(sc.n))

        def occur(i):
            q.put(signal_for(sc.traps[i]))
            pending.append(i)

        def hook(token):
            t = nticks[0]
            if t >= max_ticks:
                raise RuntimeError('scenario does not terminate')
            nticks[0] += 1
            items.append({'kind': 'T', 'idx': struct.unpack_from('<H', token, 2)[0] // 10 - 1, 'pre': pending[:],
                          'order': enabled_order()})
            del pending[:]
            for i in sc.inj.get(t, ()):
                occur(i)
        s.set_hook(hook)
        out = s.execute(b'RUN')
        for cmd, inj in sc.direct:
            for i in inj:
                occur(i)
            items.append({'kind': 'D', 'cmd': cmd, 'pre': pending[:], 'order': enabled_order()})
            del pending[:]
            out += s.execute(sc.basic_text(cmd).encode())
        s.set_hook(lambda token: None)
    markers = [m.decode('latin-1') for m in re.findall(br'<([A-Z][0-9]*)>', out.replace(b'\r', b'').replace(b'\n', b''))]
    return markers, items, out


def model_line(sc, items):
    def digs(l):
        return ''.join(str(i) for i in l) or '-'
    filler = ['T-/%s' % digs(range(sc.n))] * 2     # lets the model notice the end of the program
    sched = []
    for it in items:
        if it['kind'] == 'T':
            sched.append('T%s/%s' % (digs(it['pre']), digs(it['order'])))
        else:
            cmd = it['cmd']
            sched += filler
            sched.append('D%s/%s/%s' % (digs(it['pre']), digs(it['order']), 'j' + cmd[1:] if cmd[0] == 'J' else cmd))
    sched += filler
    return 'vm %s %s %d %d %s' % (';'.join(sc.code), ','.join(str(h) for h in sc.hstart), sc.estart, sc.sstart,
                                  ';'.join(sched))


# ---------------------------------------------------------------------------------------------
# independent oracle: the clauses of the statement, checked on the observed line log + schedule

def oracle(sc, items, markers, stats=None):
    """items: the observed log (see run_impl).  Returns a list of (key, message)."""
    n, code = sc.n, sc.code
    bad = []
    # busy: certainly-or-possibly busy (used where the statement DEMANDS an entry);
    # busy_lo: certainly busy (used where the statement FORBIDS an entry)
    armed, handler, busy, busy_lo = ['off'] * n, [False] * n, [False] * n, [False] * n
    err_active, on_err = False, False
    err_direct = False                     # the active error handler was entered by a direct-mode statement
    maybe_suspended = False                # traps held since a trapped error; RESUME / CLEAR end that for certain
    run_expected = True                    # a program is running (RUN, GOTO, CONT, error handler entered); else: at the prompt
    cont_ok = False                        # END has set a position for CONT
    hist = []                              # state at dispatch t (before line t executes)
    qual = [[] for _ in range(n)]          # delivery indices of occurrences recorded while ON/STOPped
    sure = [[] for _ in range(n)]          # those that certainly have not been consumed or dropped
    clears = []                            # ticks at which CLEAR was executed
    waived = []                            # dispatch ranges in which a decided entry was cancelled by CLEAR
    unbusied = [-1] * n                    # tick of the last ON / RETURN from a frame of the trap / CLEAR
    entries = [[] for _ in range(n)]       # (fmin, tick of first handler line)
    obligations = []                       # (trap, dispatch index) where the statement demands an entry
    stack = []                             # reconstructed from the observed control flow
    popped = None                          # frame popped by a RETURN at the previous tick
    hstart = {sc.hstart[i]: i for i in range(n)}
    seen = []
    blind_from = None                      # the oracle stopped judging at a RETURN <line> (see there)

    def note(tag):
        if stats is not None:
            stats(tag)

    for t, it in enumerate(items):
        prog = it['kind'] == 'T'
        idx = it['idx'] if prog else -1
        if prog and not run_expected:
            bad.append(('ran-after-termination', 'line %d executed although no program was running' % sc.line(idx)))
            break
        if not prog:
            run_expected = False
        # occurrences put on the queue since the last check_events are seen now
        for i in it['pre']:
            if armed[i] != 'off':
                qual[i].append(t)
                sure[i].append(t)
                note('occ:while-' + armed[i] + ('-busy' if busy[i] else ''))
            else:
                note('occ:while-off(lost)')
        hist.append((tuple(armed), tuple(handler), tuple(busy_lo), err_active, prog))
        for x in range(n):
            if prog and armed[x] == 'on' and handler[x] and not err_active and not maybe_suspended and not busy[x] and sure[x]:
                obligations.append((x, t))
        tok = (code[idx] if 0 <= idx < len(code) else '?') if prog else it['cmd']
        if tok[0] == 'm':
            seen.append(tok[1:])
        if prog and idx in hstart:
            x = hstart[idx]
            # Several traps entered by ONE dispatch run one after the other (the last one first); the start of a handler
            # reached by the RETURN of another handler may therefore have been decided at that earlier dispatch.
            # `pend` of a frame: for every trap, the earliest dispatch since which the start of its handler may be waiting
            # underneath that frame.
            base = popped[3] if (popped is not None and popped[0] == 'trap') else {}
            fmin = min(t, base.get(x, t))
            ok = False
            for j in range(fmin, t + 1):
                a, h, b, e, running = hist[j]
                # occurrences up to the (earliest possible) dispatch of entries that certainly precede j are used up
                cons = max([f for f, te in entries[x] if te < j] + [c for c in clears if c < j] + [-1])
                if running and a[x] == 'on' and h[x] and not b[x] and not e and any(cons < qd <= j for qd in qual[x]):
                    ok = True
                    break
            if not ok:
                a, h, b, e, running = hist[t]
                if e:
                    key = 'entry-during-error-handler'
                elif a[x] != 'on':
                    key = 'entry-while-' + a[x]
                elif not h[x]:
                    key = 'entry-without-handler'
                elif b[x]:
                    key = 'reentry-before-return'
                else:
                    key = 'entry-without-occurrence'
                bad.append((key, 'handler of trap %d (%s) entered at observed step #%d (line %d): %s'
                            % (x, sc.ev_name(x), t, sc.line(idx), key)))
            note('entry' + ('' if fmin == t else ':chained'))
            if any(fr[0] == 'trap' and fr[1] == x for fr in stack):
                note('entry:nested-in-own-handler')
            # if the entry was decided at an earlier dispatch (several traps at once: the other handlers ran first) an
            # ON / RETURN-of-its-frame / CLEAR executed since then has already ended the busy period
            busy[x] = True
            busy_lo[x] = not (fmin <= unbusied[x] < t)
            sure[x] = []
            entries[x].append((fmin, t))
            pend = {y: min(base.get(y, t), fmin) for y in range(n) if y != x}
            if x in base:
                pend[x] = base[x]
            stack.append(('trap', x, fmin, pend, False, t))
        popped = None
        error = False
        k = tok[0]
        if k == 'n':
            i = int(tok[1])
            if busy[i]:
                note('on-inside-handler')
            armed[i], busy[i], busy_lo[i] = 'on', False, False
            unbusied[i] = t
        elif k == 'f':
            i = int(tok[1])
            armed[i] = 'off'
            sure[i] = []       # whether OFF forgets a remembered occurrence is not demanded either way
        elif k == 's':
            i = int(tok[1])
            if armed[i] != 'off':
                armed[i] = 'stop'
        elif k == 'h':
            handler[int(tok[1])] = True
        elif k == 'z':
            handler[int(tok[1])] = False
        elif tok == 'e1':
            on_err = True
        elif tok == 'e0':
            on_err = False
            error = err_active
        elif tok == 'x':
            error = True
        elif tok == 'g':
            stack.append(('sub',))
        elif tok == 'r' or k == 'q':
            # RETURN and RETURN <line> pop the same frame; only the continuation differs (observed, not demanded)
            if stack:
                popped = stack.pop()
                if (k == 'q' and popped[0] == 'trap' and len(popped) > 5
                        and any(hist[j][0][y] == 'on' and hist[j][1][y]
                                for y in range(n) if y != popped[1] for j in range(popped[2], popped[5] + 1))):
                    # The dispatch that entered this handler may have entered other traps too: their frames lie
                    # underneath (their handlers start when the frame above RETURNs).  RETURN <line> leaves the chain:
                    # those frames stay on the GOSUB stack with handlers that never started, and a later RETURN
                    # continues at a handler start without a dispatch.  The statement says nothing about that; the
                    # oracle stops here (the model correspondence still covers the rest of the run).
                    note('return-line:frames-possibly-left-underneath(oracle-stops)')
                    blind_from = popped[2]
                    break
                if popped[0] == 'trap' and not popped[4]:
                    i = popped[1]
                    busy[i], busy_lo[i] = False, False
                    unbusied[i] = t
                    if armed[i] == 'stop':
                        armed[i] = 'on'
            else:
                error = True
        elif tok == 'u':
            if err_active:
                err_active, maybe_suspended = False, False
                if err_direct:
                    run_expected = False      # back to the direct line, which has nothing left to do
                err_direct = False
            else:
                on_err = False
                error = True
        elif tok == 'd':
            # END: at the prompt, CONT possible; the error handler (if any) is over.  (The code keeps the traps suspended
            # after END inside an error handler until RUN/CLEAR/RESUME: nothing is demanded while `maybe_suspended`.)
            run_expected, cont_ok = False, True
            err_active, err_direct = False, False
        elif k == 'J':
            run_expected = True
        elif tok == 't':
            if cont_ok:
                run_expected = True
            else:
                error = True
        elif tok == 'c':
            armed, handler, busy, busy_lo = ['off'] * n, [False] * n, [False] * n, [False] * n
            err_active, on_err = False, False
            err_direct, maybe_suspended, cont_ok = False, False, False
            sure = [[] for _ in range(n)]
            clears.append(t)
            unbusied = [t] * n
            # CLEAR drops the whole GOSUB stack: handlers entered (or decided) before it never return / never start
            dropped = [min([fr[2]] + list(fr[3].values())) for fr in stack if fr[0] == 'trap']
            if dropped:
                waived.append((min(dropped), t))
            stack = []
        elif tok == 'mR':
            err_active = True
        if error:
            note('error:' + ('trapped' if on_err and not err_active else 'fatal'))
            if on_err and not err_active:
                # the ON ERROR handler is entered, from the program or from a direct-mode statement alike
                err_active, maybe_suspended, err_direct = True, True, not prog
                run_expected = True
                if not prog:
                    note('error-handler-entered-from-direct-mode')
            else:
                err_active, err_direct = False, False
                run_expected = False
    # demanded entries
    # a handler start still waiting underneath a frame that never returned (program ended inside) cannot be demanded
    unreturned = [min([fr[2]] + list(fr[3].values())) for fr in stack if fr[0] == 'trap']
    waive_from = min(unreturned) if unreturned else None
    for x, t in obligations:
        if any(f <= t <= te for f, te in entries[x]):
            continue
        if ((waive_from is not None and t >= waive_from) or any(a <= t <= b for a, b in waived)
                or (blind_from is not None and t >= blind_from)):
            note('obligation-waived')
            continue
        if t >= len(items):
            continue
        bad.append(('missed-entry', 'trap %d (%s) was ON with a handler, not busy, outside the error handler and had a remembered '
                    'occurrence at the dispatch before executed line #%d, but its handler was not entered' % (x, sc.ev_name(x), t)))
        break
    if blind_from is None and markers != seen:
        bad.append(('marker-log-mismatch', 'printed markers %r differ from the executed marker lines %r' % (markers, seen)))
    return bad


# ---------------------------------------------------------------------------------------------
# generators

def boundary_scenarios():
    K1, K2 = ('KEY', 1), ('KEY', 2)
    S = Scenario
    out = []
    # plain: occurrence while ON fires once
    out.append(('on-fires', S([K1], ['h0', 'n0', 'mM', 'mM', 'mM'], [[]], [], [], {2: [0]})))
    # two occurrences before the dispatch collapse into one entry
    out.append(('two-occurrences', S([K1], ['h0', 'n0', 'mM', 'mM', 'mM'], [[]], [], [], {2: [0, 0]})))
    # occurrence while OFF is lost, even after ON
    out.append(('off-loses', S([K1], ['h0', 'mM', 'mM', 'n0', 'mM', 'mM'], [[]], [], [], {1: [0]})))
    out.append(('off-loses-2', S([K1], ['h0', 'n0', 'f0', 'mM', 'n0', 'mM', 'mM'], [[]], [], [], {2: [0], 3: [0]})))
    # STOP remembers once
    out.append(('stop-remembers', S([K1], ['h0', 'n0', 's0', 'mM', 'mM', 'n0', 'mM', 'mM', 'mM'], [[]], [], [],
                                    {3: [0], 4: [0]})))
    # STOP on an OFF trap
    out.append(('stop-on-off', S([K1], ['h0', 's0', 'mM', 'n0', 'mM', 'mM'], [[]], [], [], {2: [0]})))
    # no handler: remembered until ON..GOSUB
    out.append(('no-handler', S([K1], ['n0', 'mM', 'mM', 'h0', 'mM', 'mM'], [[]], [], [], {1: [0]})))
    out.append(('handler-removed', S([K1], ['h0', 'n0', 'z0', 'mM', 'mM', 'h0', 'mM'], [[]], [], [], {3: [0]})))
    # occurrence during the handler: remembered, handled after RETURN, not nested
    out.append(('no-reentry', S([K1], ['h0', 'n0', 'mM', 'mM', 'mM', 'mM'], [['mA', 'mA', 'mA']], [], [],
                                {2: [0], 4: [0]})))
    # handler turns the event back ON: nested re-entry
    out.append(('reenter-after-on', S([K1], ['h0', 'n0', 'mM', 'mM', 'mM', 'mM'], [['n0', 'mA', 'mA']], [], [],
                                      {2: [0], 4: [0]})))
    # STOP inside the handler is undone by RETURN; OFF inside the handler stays
    out.append(('stop-in-handler', S([K1], ['h0', 'n0', 'mM', 'mM', 'mM', 'mM', 'mM'], [['s0', 'mA']], [], [],
                                     {2: [0], 4: [0]})))
    out.append(('off-in-handler', S([K1], ['h0', 'n0', 'mM', 'mM', 'mM', 'n0', 'mM', 'mM'], [['f0', 'mA', 'mA']], [], [],
                                    {2: [0], 4: [0], 5: [0]})))
    # error handler: occurrences are held until RESUME
    out.append(('error-handler-holds', S([K1], ['h0', 'n0', 'e1', 'x', 'mM', 'mM'], [[]], ['mQ', 'mQ', 'mQ'], [],
                                         {3: [0], 4: [0]})))
    out.append(('on-in-error-handler', S([K1], ['h0', 'e1', 'x', 'mM', 'mM'], [[]], ['n0', 'mQ', 'mQ', 'mQ'], [],
                                         {3: [0], 4: [0]})))
    # error inside a trap handler
    out.append(('error-in-handler', S([K1, K2], ['h0', 'h1', 'n0', 'n1', 'e1', 'mM', 'mM', 'mM'], [['x', 'mA'], ['mB']],
                                      ['mQ', 'mQ'], [], {5: [0], 6: [1], 7: [0, 1]})))
    # END in the error handler, fatal error, stray RETURN
    out.append(('fatal-error', S([K1], ['h0', 'n0', 'mM', 'x', 'mM'], [[]], [], [], {1: [0], 2: [0]})))
    # a handler left through RETURN <line> re-arms its trap: the second occurrence enters it again
    out.append(('return-line-rearms', S([K1], ['h0', 'n0', 'mM', 'mM', 'mM', 'mM', 'mM', 'mM', 'mM'], [['q5']], [], [],
                                        {2: [0], 6: [0]})))
    out.append(('return-line-after-stop', S([K1], ['h0', 'n0', 'mM', 'mM', 'mM', 'mM', 'mM', 'mM'], [['s0', 'q3']], [], [],
                                            {2: [0], 4: [0]})))
    out.append(('stray-return', S([K1], ['h0', 'n0', 'e1', 'r', 'mM', 'mM'], [['r', 'mA']], [], [], {3: [0], 4: [0]})))
    # two traps at once
    out.append(('two-at-once', S([K1, K2], ['h0', 'h1', 'n0', 'n1', 'mM', 'mM', 'mM'], [['mA'], ['mB']], [], [],
                                 {4: [0, 1], 6: [1]})))
    out.append(('three-kinds', S([K1, ('PEN',), ('STRIG', 0)], ['h0', 'h1', 'h2', 'n0', 'n1', 'n2', 'mM', 'mM', 'mM'],
                                 [['mA'], ['f2', 'mB'], ['mC']], [], [], {6: [0, 1, 2], 8: [2, 1]})))
    out.append(('cross-commands', S([K1, K2], ['h0', 'h1', 'n0', 'n1', 'mM', 'mM', 'mM', 'mM'], [['s1', 'mA'], ['n0', 'mB']],
                                    [], [], {4: [0], 5: [1, 0], 6: [0]})))
    # GOSUB frames between
    out.append(('gosub', S([K1], ['h0', 'n0', 'g', 'mM', 'mM'], [['g', 'mA']], [], ['mT', 'mT'], {2: [0], 4: [0]})))
    # CLEAR: everything reset, also inside handlers and the error handler
    out.append(('clear', S([K1], ['h0', 'n0', 'mM', 'c', 'mM', 'h0', 'n0', 'mM', 'mM'], [[]], [], [], {2: [0], 3: [0], 6: [0]})))
    out.append(('clear-in-handler', S([K1], ['h0', 'n0', 'mM', 'mM', 'mM', 'mM'], [['c', 'h0', 'n0', 'mA', 'mA']], [], [],
                                      {2: [0], 5: [0], 6: [0]})))
    out.append(('clear-in-error-handler', S([K1], ['h0', 'n0', 'e1', 'x', 'mM'], [[]], ['c', 'h0', 'n0', 'mQ', 'mQ'], [],
                                            {5: [0], 6: [0]})))
    # other kinds of key
    out.append(('arrow-key', S([('KEY', 11), ('KEY', 14)], ['h0', 'h1', 'n0', 'n1', 'mM', 'mM'], [[], []], [], [],
                               {3: [1], 4: [0]})))
    out.append(('strigs', S([('STRIG', 0), ('STRIG', 2), ('STRIG', 4), ('STRIG', 6)],
                            ['h0', 'h1', 'h2', 'h3', 'n0', 'n1', 'n2', 'n3', 'mM', 'mM', 'mM'], [[], ['s2'], [], []], [], [],
                            {7: [0, 1, 2, 3], 9: [2]})))
    # ON..GOSUB 0 only removes the handler line: issued while the event is stopped (inside its own handler, after STOP)
    # or remembered, and then re-defined, the trap must still be held / still be handled
    out.append(('gosub0-in-own-handler', S([K1], ['h0', 'n0', 'mM', 'mM', 'mM', 'mM'], [['z0', 'h0', 'mA', 'mA', 'mA']], [], [],
                                          {2: [0], 5: [0], 6: [0]})))
    out.append(('gosub0-while-stopped', S([K1], ['h0', 'n0', 's0', 'mM', 'z0', 'mM', 'h0', 'n0', 'mM', 'mM'], [[]], [], [],
                                         {3: [0]})))
    out.append(('gosub0-while-remembered', S([('PEN',)], ['n0', 'mM', 'z0', 'mM', 'h0', 'mM', 'mM'], [[]], [], [], {1: [0]})))
    out.append(('gosub0-in-other-handler', S([K1, K2], ['h0', 'h1', 'n0', 'n1', 'mM', 'mM', 'mM', 'mM'],
                                            [['mA'], ['z0', 'h0', 'mB', 'mB']], [], [], {4: [0, 1], 5: [0], 6: [0]})))
    out.append(('gosub0-at-the-prompt', S([K1], ['h0', 'n0', 'mM'], [[]], [], [], {},
                                         [('s0', []), ('z0', [0]), ('h0', []), ('n0', []), ('J2', [])])))
    out += cross_mode_scenarios()
    return out


def cross_mode_scenarios():
    """Histories that cross run-mode boundaries: the program arms ON ERROR and traps and returns to the prompt (END in
    the main part / in a handler / fatal error); then direct-mode statements: ON/OFF/STOP, ERROR (enters the program's
    error handler from direct mode), CONT, GOTO, with occurrences before each of them and inside the handler."""
    S = Scenario
    out = []
    kinds = [('KEY', 1), ('PEN',), ('STRIG', 2), ('KEY', 12)]
    for ki, K in enumerate(kinds):
        arm = ['e1', 'h0', 'n0', 'mM']          # executed lines 0..4 (with END), the handler then starts at line #5
        # occurrence pending when a direct-mode error enters the handler; handled when the program runs again
        out.append(('direct-error-pending-%d' % ki, S([K], arm, [[]], ['mQ', 'mQ'], [], {}, [('x', [0]), ('J3', []), ('t', [])])))
        # occurrence while the handler entered from direct mode is running
        out.append(('direct-error-occurs-inside-%d' % ki, S([K], arm, [[]], ['mQ', 'mQ', 'mQ'], [], {5: [0], 6: [0]},
                                                         [('x', []), ('mD', []), ('t', [])])))
        # STOPped at the prompt, occurrence, error from direct mode, ON at the prompt, CONT
        out.append(('direct-stop-error-on-%d' % ki, S([K], arm, [['mA']], ['mQ'], [], {},
                                                  [('s0', []), ('x', [0]), ('n0', []), ('x', [0]), ('t', [])])))
        # ON inside the handler entered from direct mode must not let the trap in before RESUME
        out.append(('direct-error-on-in-handler-%d' % ki, S([K], ['e1', 'h0', 'mM'], [[]], ['n0', 'mQ', 'mQ'], [], {5: [0]},
                                                        [('x', [0]), ('x', []), ('J2', [])])))
    K1, K2 = ('KEY', 1), ('KEY', 2)
    # the program ends inside a trap handler; another trap is pending; error from direct mode; CONT finishes the handler
    out.append(('end-in-handler', S([K1, K2], ['e1', 'h0', 'h1', 'n0', 'n1', 'mM', 'mM', 'mM'], [['mA', 'd', 'mA'], ['mB']],
                                   ['mQ', 'mQ'], [], {5: [0]}, [('x', [1]), ('mD', [1, 0]), ('t', []), ('J5', [0])])))
    # fatal error inside the error handler: ON ERROR stays armed, no CONT position: CONT itself enters the handler again
    out.append(('cant-continue', S([K1], ['h0', 'n0', 'e1', 'x', 'mM'], [[]], ['mQ', 'x'], [], {},
                                  [('t', [0]), ('n0', []), ('J4', [0])])))
    # END inside the error handler, then GOTO / error from direct mode
    out.append(('end-in-error-handler', S([K1], ['h0', 'n0', 'e1', 'x', 'mM'], [[]], ['mQ', 'd', 'mQ'], [], {4: [0]},
                                         [('J4', [0]), ('x', [0]), ('t', [])])))
    # error from direct mode without ON ERROR, CLEAR at the prompt, GOTO with the GOSUB stack of the ended program
    out.append(('direct-no-on-error', S([K1, K2], ['h0', 'h1', 'n0', 'n1', 'g', 'mM'], [['mA'], ['mB']], [], ['d', 'mT'], {},
                                       [('x', [0, 1]), ('J5', []), ('t', [1]), ('c', []), ('x', []), ('t', [])])))
    return out


def random_direct_phase(rng, n, nmain):
    out = []
    for _ in range(rng.randrange(1, 7)):
        r = rng.random()
        if r < 0.33:
            cmd = rng.choice(['n', 'n', 'f', 's', 's', 'h', 'z']) + str(rng.randrange(n))
        elif r < 0.60:
            cmd = 'x'
        elif r < 0.75:
            cmd = 't'
        elif r < 0.90:
            cmd = 'J%d' % rng.randrange(nmain + 1)
        elif r < 0.97:
            cmd = 'mD'
        else:
            cmd = 'c'
        out.append((cmd, [rng.randrange(n) for _ in range(rng.choice([0, 0, 1, 1, 2]))]))
    return out


def random_scenario(rng):
    n = rng.choice([1, 1, 2, 2, 2, 3, 3, 4])
    pool = [('KEY', k) for k in range(1, 15)] + [('PEN',), ('STRIG', 0), ('STRIG', 2), ('STRIG', 4), ('STRIG', 6)]
    traps = rng.sample(pool, n)
    with_err = rng.random() < 0.6
    with_clear = rng.random() < 0.12

    def trapop():
        i = rng.randrange(n)
        return rng.choice(['n', 'n', 'n', 'f', 's', 's', 'h', 'h', 'z'][:9]) + str(i)

    def body(length, where):
        out = []
        for _ in range(length):
            r = rng.random()
            if r < 0.45:
                out.append(trapop())
            elif r < 0.75:
                out.append('m' + where)
            elif r < 0.83 and where != 'T':
                out.append('g')
            elif r < (0.85 if where == 'Q' else 0.90):
                out.append('x')
            elif r < 0.93 and where != 'Q':
                out.append('r')
            elif r < 0.95 and with_clear:
                out.append('c')
            elif r < 0.97:
                out.append(rng.choice(['e1', 'e0']) if with_err else 'm' + where)
            elif r < 0.975 and where != 'M':
                out.append('d')
            else:
                out.append('m' + where)
        return out
    main = []
    # usually start by arming everything
    if rng.random() < 0.8:
        for i in range(n):
            if rng.random() < 0.9:
                main.append('h%d' % i)
            if rng.random() < 0.8:
                main.append('n%d' % i)
        rng.shuffle(main)
    if with_err and rng.random() < 0.85:
        main.insert(rng.randrange(len(main) + 1), 'e1')
    main += body(rng.randrange(4, 22), 'M')
    handlers = [body(rng.randrange(0, 6), 'ABCD'[i]) for i in range(n)]
    # a handler may leave through RETURN <line> (to a line of the main section or its END): the trap must be re-armed
    # exactly as by a plain RETURN
    for hb in handlers:
        if rng.random() < 0.3:
            hb.insert(rng.choice([len(hb), len(hb), rng.randrange(len(hb) + 1)]), 'q%d' % rng.randrange(len(main) + 1))
    errh = body(rng.randrange(0, 5), 'Q')
    sub = body(rng.randrange(0, 4), 'T')
    dens = rng.choice([0.1, 0.25, 0.5, 0.9])
    inj = {}
    for t in range(0, 90):
        if rng.random() < dens:
            inj[t] = [rng.randrange(n) for _ in range(rng.choice([1, 1, 1, 2, 3]))]
    direct = random_direct_phase(rng, n, len(main)) if rng.random() < 0.45 else []
    return Scenario(traps, main, handlers, errh, sub, inj, direct)


# ---------------------------------------------------------------------------------------------

def impl_string(markers, items):
    ticks = [it['idx'] for it in items if it['kind'] == 'T']
    return 'ok %s %s 1' % (','.join(markers) or '-', ','.join(str(i) for i in ticks) or '-')


def check_scenarios(ctx, scs, label):
    lines, outs, cases = [], [], []
    for name, sc in scs:
        try:
            markers, items, raw = run_impl(sc)
            ticks = [it['idx'] for it in items if it['kind'] == 'T']
        except Exception as e:   # noqa
            ctx.fail('exception:%s' % type(e).__name__, {'scenario': sc.to_json(), 'name': name},
                     'host exception %r escaped while running the scenario' % (e,))
            continue
        ctx.case((repr(sc.traps), tuple(sc.code), tuple(sorted((k, tuple(v)) for k, v in sc.inj.items())), repr(sc.direct)))
        ctx.count('ticks', len(ticks))
        ctx.count('traps:%d' % sc.n)
        for t in sc.traps:
            ctx.count('kind:' + t[0])
        if sc.direct:
            ctx.count('scenarios-with-direct-mode-phase')
        if any(len(set(it['order'])) > 1 for it in items):
            ctx.count('scenarios-with-several-enabled')
        observed = [sc.line(it['idx']) if it['kind'] == 'T' else sc.basic_text(it['cmd']) for it in items]
        for key, what in oracle(sc, items, markers, ctx.count):
            ctx.fail(key, {'scenario': sc.to_json(), 'name': name, 'observed': observed}, what)
        lines.append(model_line(sc, items))
        outs.append(impl_string(markers, items))
        cases.append({'name': name, 'scenario': sc.to_json()})
        if len(ctx.samples) < 4:
            ctx.sample({'name': name, 'program': [l.decode() for l in sc.program()], 'inject': sc.to_json()['inj'],
                        'markers': markers})
    ctx.compare(cases, outs, lines, label=label)


def run(ctx):
    rng = ctx.rng
    check_scenarios(ctx, boundary_scenarios(), 'boundary')
    nrand = 500 if ctx.quick else 5000
    batch = []
    for k in range(nrand):
        batch.append(('random-%d' % k, random_scenario(rng)))
        if len(batch) == 250:
            check_scenarios(ctx, batch, 'random')
            batch = []
    if batch:
        check_scenarios(ctx, batch, 'random')


def replay(ctx, payload):
    if payload.get('kind') == 'no-failing-input-found':
        # a correspondence replay: re-run the recorded scenarios on the implementation and through the model
        for d in payload.get('correspondence_disagreements', []):
            scj = d.get('case', {}).get('input', {}).get('scenario')
            if not scj:
                continue
            sc = Scenario.from_json(scj)
            try:
                markers, items, raw = run_impl(sc)
            except Exception as e:   # noqa
                return 'host exception %r escaped' % (e,)
            for k, w in oracle(sc, items, markers):
                return w
            mouts = ctx.model([model_line(sc, items)])
            if mouts is not None and mouts[0] != impl_string(markers, items):
                return ('model and implementation still disagree on scenario %s: impl %s / model %s'
                        % (d['case']['input'].get('name'), impl_string(markers, items)[-80:], mouts[0][-80:]))
        return None
    case = payload.get('case', {})
    if 'scenario' not in case:
        return None
    sc = Scenario.from_json(case['scenario'])
    try:
        markers, items, raw = run_impl(sc)
    except Exception as e:   # noqa
        return 'host exception %r escaped' % (e,)
    hits = [w for k, w in oracle(sc, items, markers) if k == payload.get('key')]
    return hits[0] if hits else None
