import PcbV.Model.Heap
/-
  PcbV.UserFn — executable model of user-defined functions:
    pcbasic/basic/parser/userfunctions.py   UserFunction.evaluate / _evaluate (argument conversion, the
                                            values kept referenced during the call, recursion flag, saving
                                            each parameter variable by clone, binding, body evaluation,
                                            `finally` restore + flag reset), UserFunctionManager.get
    pcbasic/basic/memory/scalars.py         Scalars.set(name) / set(name, value) / view(name)
    pcbasic/basic/values/values.py          TYPE_TO_CONV / to_type (pass_string, to_integer, to_single,
                                            to_double)
  on top of the string heap model `PcbV.Heap` (strings.py, memory.py; not modified).

  What is modelled
    * the state `St`: the heap (string scalars, string space, collector roots), the numeric scalars
      (name ↦ value) and the set of functions whose `_is_parsing` flag is set;
    * a value held in a Python local and registered in `DataSegment.temp_values` (a converted
      argument, a saved parameter variable) is an own pointer on the heap's root stack (`Item.own`):
      the collector rewrites it exactly like the clone's 3-byte buffer; the local handle is the stack
      index (`Slot.str k`).  `temp_values.discard` of everything in `keep` (outer `finally`) is the
      truncation of the root stack to its length at entry;
    * numbers are exact dyadic values in quarter units (`Val.num t q` = q/4 of type t) — every value
      the check generates is exactly representable in all three numeric types, so the conversions are
      identity / round-half-away-from-zero + range check (to_integer: Overflow);
    * `evaluate` takes the argument expressions and the body as *computations* (`Comp`), so that the
      theorems hold for every body outcome and with garbage collection at any point inside;
      `evalE` is the concrete expression evaluator used by the correspondence (literals, variables, `+`,
      forced collections, a failing subexpression, temporaries, nested FN calls) under a default-type
      table; statement histories (`stmt`, `runStmts`) interleave LET/PRINT with DEFtype statements and
      DEF FN (re)definitions: names written without a type character are completed when they are USED.

  This is the model of the REPAIRED code: saved values are collector roots (commit 71bbc812, defect
  D17), the converted arguments and the function result are clones, not views of variable cells
  (pending fix C20-fn-value-views).  `evaluateOld…` transcribe the code before the repairs and are used
  by the counterexample theorems only.
-/
namespace PcbV.UserFn
open PcbV PcbV.Heap

inductive Ty
  | int | sng | dbl | str
deriving DecidableEq, Repr

/-- the sigil of a complete variable name (`%` `!` `#` `$`) -/
def sigil (name : Bytes) : Ty :=
  match name.getLast? with
  | some 37 => .int
  | some 35 => .dbl
  | some 36 => .str
  | _ => .sng

/-- an expression value that is not (or no longer) referenced by a collector root: a number, or a copy
    of a 3-byte string pointer -/
inductive Val
  | num (t : Ty) (q : Int)
  | str (p : Ptr)
deriving DecidableEq, Repr

structure St where
  h : Heap
  nums : List (Bytes × Int)        -- numeric scalars (complete name ↦ quarter units), insertion order
  busy : List Nat                  -- functions whose `_is_parsing` flag is set
deriving Repr

abbrev Res (α : Type) := Except (Nat × St) α
abbrev Comp := St → Res (St × Val)

/-! ### conversions (values.py) -/

/-- `Float.to_int` on quarter units: round to nearest, halves away from zero -/
def roundQ (q : Int) : Int := if q < 0 then -((-q + 2) / 4) else (q + 2) / 4

/-- `TYPE_TO_CONV[sigil]` / `to_type(sigil, value)` -/
def conv (t : Ty) (v : Val) : Except Nat Val :=
  match t, v with
  | .str, .str p => .ok (.str p)
  | .str, .num _ _ => .error Gen.E.type_mismatch
  | _, .str _ => .error Gen.E.type_mismatch
  | .int, .num _ q =>
    let n := roundQ q
    if -32768 ≤ n ∧ n ≤ 32767 then .ok (.num .int (4 * n)) else .error Gen.E.overflow
  | .sng, .num _ q => .ok (.num .sng q)
  | .dbl, .num _ q => .ok (.num .dbl q)

/-! ### scalars -/

def lookupNum : List (Bytes × Int) → Bytes → Option Int
  | [], _ => none
  | (n, v) :: r, name => if n = name then some v else lookupNum r name

/-- write the value of an existing name in place (a missing name is appended: never needed, the
    callers create the variable first) -/
def upsert : List (Bytes × Int) → Bytes → Int → List (Bytes × Int)
  | [], name, q => [(name, q)]
  | (n, v) :: r, name, q => if n = name then (n, q) :: r else (n, v) :: upsert r name q

/-- what BASIC reads from a numeric scalar (zero when it does not exist) -/
def getNum (s : St) (name : Bytes) : Int := (lookupNum s.nums name).getD 0

def setNum (s : St) (name : Bytes) (q : Int) : St := { s with nums := upsert s.nums name q }

/-- what BASIC reads from a string scalar (empty when it does not exist) -/
def readStr (s : St) (name : Bytes) : Bytes := readDst s.h (.sc name)

/-- the pointer cell of a string scalar -/
def cellOf (h : Heap) (name : Bytes) : Option VLoc := (findIdx name h.scalars 0).map VLoc.sc

def numBytes : Ty → Nat
  | .int => 2
  | .sng => 4
  | .dbl => 8
  | .str => 3

/-- `Scalars.memory_size(name)` -/
def varSize (name : Bytes) : Nat := max 3 name.length + 1 + numBytes (sigil name)

def liftH (s : St) (r : HR) : Res St :=
  match r with
  | .ok h => .ok { s with h := h }
  | .error (e, h) => .error (e, { s with h := h })

/-- `Scalars.set(name)` without a value: allocate the variable (zero / empty) if it does not exist -/
def ensureVar (name : Bytes) (s : St) : Res St :=
  if sigil name = .str then liftH s (ensureScalar name s.h)
  else
    match lookupNum s.nums name with
    | some _ => .ok s
    | none =>
      match allocNum (varSize name) s.h with
      | .error (e, h) => .error (e, { s with h := h })
      | .ok h => .ok { s with h := h, nums := upsert s.nums name 0 }

/-! ### values kept in `temp_values` -/

/-- a value in a Python local of `_evaluate`: a number, or a String registered in `temp_values`
    (index on the root stack) -/
inductive Slot
  | num (q : Int)
  | str (k : Nat)
deriving DecidableEq, Repr

def pushRoot (s : St) (p : Ptr) : St := { s with h := push s.h (.own p) }

/-- the current pointer of a registered String -/
def slotPtr (h : Heap) (k : Nat) : Ptr := itemPtr h ((h.stack[k]?).getD (.own Ptr.null))

/-- `temp_values.discard` for everything in `keep`: back to the roots at entry -/
def unwind (base : Nat) (s : St) : St := { s with h := { s.h with stack := s.h.stack.take base } }

/-! ### UserFunction._evaluate -/

/-- the argument loop: each argument expression is evaluated after the previous one was converted,
    cloned and registered; the result pairs each converted value with its parameter name
    (`zip(varnames, args)`) -/
def evalArgs : List (Bytes × Comp) → St → Res (St × List (Bytes × Slot))
  | [], s => .ok (s, [])
  | (name, c) :: r, s =>
    match c s with
    | .error x => .error x
    | .ok (s1, v) =>
      match conv (sigil name) v with
      | .error e => .error (e, s1)
      | .ok (.num _ q) =>
        match evalArgs r s1 with
        | .error x => .error x
        | .ok (s2, l) => .ok (s2, (name, .num q) :: l)
      | .ok (.str p) =>
        match evalArgs r (pushRoot s1 p) with
        | .error x => .error x
        | .ok (s2, l) => .ok (s2, (name, .str s1.h.stack.length) :: l)

/-- "save existing vars": create the missing ones, clone the buffer, register the clone (`varsave`;
    a repeated name is saved again with the same value, which is what the dict keeps) -/
def saveAll : List Bytes → St → Res (St × List (Bytes × Slot))
  | [], s => .ok (s, [])
  | name :: r, s =>
    match ensureVar name s with
    | .error x => .error x
    | .ok s1 =>
      if sigil name = .str then
        let p := ((cellOf s1.h name).bind (getV s1.h)).getD Ptr.null
        match saveAll r (pushRoot s1 p) with
        | .error x => .error x
        | .ok (s2, l) => .ok (s2, (name, .str s1.h.stack.length) :: l)
      else
        match saveAll r s1 with
        | .error x => .error x
        | .ok (s2, l) => .ok (s2, (name, .num (getNum s1 name)) :: l)

/-- write a kept value into the variable: `Scalars.set(name, value)` (`fix` = fix_temporaries, done for
    a String value) / `view(name).copy_from(saved)` -/
def writeVar (fix : Bool) (name : Bytes) (v : Slot) (s : St) : St :=
  match v with
  | .num q => setNum s name q
  | .str k =>
    let h := if fix then fixTemps s.h else s.h
    match cellOf h name with
    | some l => { s with h := setV h l (slotPtr h k) }
    | none => s

def writeAll (fix : Bool) : List (Bytes × Slot) → St → St
  | [], s => s
  | (name, v) :: r, s => writeAll fix r (writeVar fix name v s)

structure Fn where
  idx : Nat               -- identity of the UserFunction object (its `_is_parsing` flag)
  sigil : Ty              -- type of the function name
  params : List Bytes     -- complete parameter names at the time of the call
deriving Repr

/-- everything up to the body: on success the state the body runs in and the saved values -/
def enter (f : Fn) (args : List Comp) (s : St) : Res (St × List (Bytes × Slot)) :=
  match evalArgs (f.params.zip args) s with
  | .error x => .error x
  | .ok (s1, avals) =>
    if f.idx ∈ s1.busy then .error (Gen.E.out_of_memory, s1) else
    match saveAll f.params s1 with
    | .error x => .error x
    | .ok (s2, saved) =>
      let s3 := writeAll true avals s2
      .ok ({ s3 with busy := f.idx :: s3.busy }, saved)

/-- the inner `finally`: reset the flag, restore the parameter variables -/
def leave (f : Fn) (saved : List (Bytes × Slot)) (s : St) : St :=
  writeAll false saved { s with busy := s.busy.erase f.idx }

/-- `UserFunction.evaluate` -/
def evaluate (f : Fn) (args : List Comp) (body : Comp) (s : St) : Res (St × Val) :=
  let base := s.h.stack.length
  match enter f args s with
  | .error (e, t) => .error (e, unwind base t)
  | .ok (s4, saved) =>
    match body s4 with
    | .error (e, t) => .error (e, unwind base (leave f saved t))
    | .ok (t, v) =>
      match conv f.sigil v with
      | .error e => .error (e, unwind base (leave f saved t))
      | .ok v' => .ok (unwind base (leave f saved t), v')

/-! ### building blocks of expressions -/

def pureC (v : Val) : Comp := fun s => .ok (s, v)
def failC (e : Nat) : Comp := fun s => .error (e, s)

/-- a forced collection (`FRE("")`) -/
def gcC (v : Val) : Comp := fun s =>
  match collect s.h with
  | .error (e, h) => .error (e, { s with h := h })
  | .ok h => .ok ({ s with h := h }, v)

/-- a new string in string space (result of `+`, STRING$ …); the value is returned unreferenced -/
def allocC (b : Bytes) : Comp := fun s =>
  match allocPush b s.h with
  | .error (e, h) => .error (e, { s with h := h })
  | .ok h => .ok ({ s with h := pop h }, .str (itemPtr h (topItem h)))

/-- read a scalar -/
def readC (name : Bytes) : Comp := fun s =>
  if sigil name = .str then
    .ok (s, .str (((cellOf s.h name).bind (getV s.h)).getD Ptr.null))
  else .ok (s, .num (sigil name) (getNum s name))

/-- run `c` while the value `v` stays on the evaluation stack (a collector root); gives back the
    possibly relocated `v` and the result of `c` -/
def withRoot (v : Val) (c : Comp) (s : St) : Res (St × Val × Val) :=
  match v with
  | .num _ _ =>
    match c s with
    | .error x => .error x
    | .ok (s1, w) => .ok (s1, v, w)
  | .str p =>
    let k := s.h.stack.length
    match c (pushRoot s p) with
    | .error (e, t) => .error (e, unwind k t)
    | .ok (s1, w) => .ok (unwind k s1, .str (slotPtr s1.h k), w)

def tyRank : Ty → Nat
  | .int => 0
  | .sng => 1
  | .dbl => 2
  | .str => 3

/-- `values.add`: string concatenation or numeric addition (exact on the generated domain; an
    integer sum outside 16 bits is delivered as a Single) -/
def plusC (a b : Val) : Comp := fun s =>
  match a, b with
  | .str p, .str q =>
    let bytes := deref s.h p ++ deref s.h q
    allocC bytes s
  | .num t x, .num u y =>
    let r := if tyRank t ≥ tyRank u then t else u
    let z := x + y
    if r = .int ∧ ¬ (-131072 ≤ z ∧ z ≤ 131068) then .ok (s, .num .sng z) else .ok (s, .num r z)
  | _, _ => .error (Gen.E.type_mismatch, s)

/-! ### default types (DEFINT / DEFSNG / DEFDBL / DEFSTR) -/

/-- `DataSegment.deftype`: the default type of each initial letter A..Z -/
abbrev DefTy := List Ty

def defTy0 : DefTy := List.replicate 26 .sng

def sigilChar : Ty → Nat
  | .int => 37
  | .sng => 33
  | .dbl => 35
  | .str => 36

def isSigil (c : Nat) : Bool := c = 37 || c = 33 || c = 35 || c = 36

/-- `DataSegment.complete_name`: a name written without a type character gets the CURRENT default
    type of its first letter (names are upper case here) -/
def completeName (dt : DefTy) (name : Bytes) : Bytes :=
  match name.getLast? with
  | none => name
  | some c =>
    if isSigil c then name
    else name ++ [sigilChar ((dt[name.headD 65 - 65]?).getD .sng)]

/-- `DataSegment.deftype_`: letters `lo..hi` (0-based) get type `t` -/
def setDefTy (dt : DefTy) (t : Ty) (lo hi : Nat) : DefTy :=
  (enumFrom 0 dt).map (fun x => if lo ≤ x.1 ∧ x.1 ≤ hi then t else x.2)

inductive FExpr
  | nlit (t : Ty) (q : Int)          -- numeric literal
  | code (addr : Nat) (len : Nat)    -- string literal inside the program text
  | var (name : Bytes)               -- scalar variable, as written (with or without type character)
  | plus (a b : FExpr)               -- a + b
  | gcEmpty                          -- SPACE$(0*FRE("")) : collection, then an empty string
  | gcZero                           -- 0*FRE("")         : collection, then a Single zero
  | fail                             -- 1\0               : Division by zero
  | rep (n c : Nat)                  -- STRING$(n, c)     : a temporary in string space
  | call (f : Bytes) (args : List FExpr)   -- FN<f>(args), name as written

/-- a `UserFunction` object in `UserFunctionManager._fn_dict` -/
structure FnDecl where
  name : Bytes            -- the function name completed when DEF FN was executed (dict key)
  params : List Bytes     -- parameter names as written: completed at every call
  body : FExpr

def undefinedFn : Nat := Gen.E.undefined_user_function

/-- `_fn_dict[name]`: the latest definition under that complete name; its position identifies the
    UserFunction object (every DEF FN creates a new one with its own `_is_parsing` flag) -/
def findFn (name : Bytes) : List FnDecl → Nat → Option (Nat × FnDecl) → Option (Nat × FnDecl)
  | [], _, acc => acc
  | d :: r, i, acc => findFn name r (i + 1) (if d.name = name then some (i, d) else acc)

/-- the expression evaluator (`ExpressionParser.parse` restricted to the forms above) under the
    default-type table `dt` (it cannot change inside an expression); fuel bounds the nesting depth,
    999 = fuel exhausted (never happens for the fuel the driver uses) -/
def evalE (dt : DefTy) (fns : List FnDecl) : Nat → FExpr → Comp
  | 0, _ => failC crash
  | _ + 1, .nlit t q => pureC (.num t q)
  | _ + 1, .code addr len => pureC (.str ⟨len, addr⟩)
  | _ + 1, .var name => readC (completeName dt name)
  | fuel + 1, .plus a b => fun s =>
    match evalE dt fns fuel a s with
    | .error x => .error x
    | .ok (s1, va) =>
      match withRoot va (evalE dt fns fuel b) s1 with
      | .error x => .error x
      | .ok (s2, va', vb) => plusC va' vb s2
  | _ + 1, .gcEmpty => fun s =>
    match gcC (.str Ptr.null) s with
    | .error x => .error x
    | .ok (s1, _) => allocC [] s1
  | _ + 1, .gcZero => gcC (.num .sng 0)
  | _ + 1, .fail => failC Gen.E.division_by_zero
  | _ + 1, .rep n c => allocC (List.replicate n c)
  | fuel + 1, .call f args =>
    match findFn (completeName dt f) fns 0 none with
    | none => failC undefinedFn
    | some (i, d) =>
      evaluate ⟨i, sigil d.name, d.params.map (completeName dt)⟩ (args.map (evalE dt fns fuel))
        (evalE dt fns fuel d.body)

/-! ### statements of the correspondence programs -/

inductive Stmt
  | letS (name : Bytes) (e : FExpr)               -- name = e   (name as written)
  | printS (e : FExpr)                            -- PRINT e
  | defType (t : Ty) (lo hi : Nat)                -- DEFINT/DEFSNG/DEFDBL/DEFSTR lo-hi
  | defFn (name : Bytes) (params : List Bytes) (body : FExpr)   -- DEF FNname(params)=body

inductive Out
  | done
  | num (q : Int)
  | str (b : Bytes)
  | err (e : Nat)
deriving DecidableEq, Repr

def fuel0 : Nat := 40

/-- the interpreter state between statements: default types, defined functions, memory -/
structure Prog where
  dt : DefTy
  fns : List FnDecl
  s : St

/-- `UserFunctionManager.define`: "allocate, but don't set" the parameter variables under the default
    types current at the DEF (the 2-byte function pointer record is not modelled) -/
def defParams : List Bytes → St → St
  | [], s => s
  | n :: r, s =>
    match ensureVar n s with
    | .ok s1 => defParams r s1
    | .error (_, s1) => s1

/-- `DataSegment.let_` / PRINT / DEFtype / DEF FN; every expression statement starts with
    `reset_temporaries` (parse_expression) and ends with the evaluation stacks unwound -/
def stmt (st : Stmt) (p : Prog) : Prog × Out :=
  let fin (t : St) : St := unwind 0 t
  let s := p.s
  match st with
  | .defType t lo hi => ({ p with dt := setDefTy p.dt t lo hi }, .done)
  | .defFn name params body =>
    ({ p with fns := p.fns ++ [⟨completeName p.dt name, params, body⟩],
              s := defParams (params.map (completeName p.dt)) s }, .done)
  | .printS e =>
    match evalE p.dt p.fns fuel0 e { s with h := resetTemps s.h } with
    | .error (e, t) => ({ p with s := fin t }, .err e)
    | .ok (t, .num _ q) => ({ p with s := fin t }, .num q)
    | .ok (t, .str q) => ({ p with s := fin t }, .str (deref t.h q))
  | .letS raw e =>
    let name := completeName p.dt raw
    match ensureVar name s with
    | .error (e, t) => ({ p with s := fin t }, .err e)
    | .ok s1 =>
      match evalE p.dt p.fns fuel0 e { s1 with h := resetTemps s1.h } with
      | .error (e, t) => ({ p with s := fin t }, .err e)
      | .ok (t, v) =>
        match conv (sigil name) v with
        | .error e => ({ p with s := fin t }, .err e)
        | .ok (.num _ q) => ({ p with s := fin (setNum t name q) }, .done)
        | .ok (.str q) =>
          let r : HR :=
            if needsCopy t.h q then
              match allocPush (deref t.h q) t.h with
              | .error x => .error x
              | .ok h4 => assignDst (.sc name) (itemPtr h4 (topItem h4)) h4
            else assignDst (.sc name) q (push t.h (.own q))
          match r with
          | .error (e, h) => ({ p with s := fin { t with h := h } }, .err e)
          | .ok h => ({ p with s := fin { t with h := h } }, .done)

def runStmts : List Stmt → Prog → List (Prog × Out)
  | [], _ => []
  | st :: r, p => let so := stmt st p; so :: runStmts r so.1

def initSt (h : Heap) : St := { h := h, nums := [], busy := [] }

/-! ### the code before the repairs (for the counterexample theorems) -/

/-- the saved parameter values of the old `evaluate`: clones held in a Python dict only — not
    registered in `temp_values`, so a collection neither keeps their strings nor rewrites them -/
inductive OldSlot
  | num (q : Int)
  | ptr (p : Ptr)
deriving DecidableEq, Repr

def saveAllOld : List Bytes → St → Res (St × List OldSlot)
  | [], s => .ok (s, [])
  | name :: r, s =>
    match ensureVar name s with
    | .error x => .error x
    | .ok s1 =>
      if sigil name = .str then
        let p := ((cellOf s1.h name).bind (getV s1.h)).getD Ptr.null
        match saveAllOld r s1 with
        | .error x => .error x
        | .ok (s2, l) => .ok (s2, .ptr p :: l)
      else
        match saveAllOld r s1 with
        | .error x => .error x
        | .ok (s2, l) => .ok (s2, .num (getNum s1 name) :: l)

def restoreOld1 (name : Bytes) (v : OldSlot) (s : St) : St :=
  match v with
  | .num q => setNum s name q
  | .ptr p =>
    match cellOf s.h name with
    | some l => { s with h := setV s.h l p }
    | none => s

def restoreAllOld : List (Bytes × OldSlot) → St → St
  | [], s => s
  | (name, v) :: r, s => restoreAllOld r (restoreOld1 name v s)

/-- `evaluate` before commit 71bbc812 (D17): the arguments are roots, the saved values are not -/
def evaluateOldSave (f : Fn) (args : List Comp) (body : Comp) (s : St) : Res (St × Val) :=
  let base := s.h.stack.length
  match evalArgs (f.params.zip args) s with
  | .error x => .error x                                   -- (the argument roots leak)
  | .ok (s1, avals) =>
    if f.idx ∈ s1.busy then .error (Gen.E.out_of_memory, s1) else
    match saveAllOld f.params s1 with
    | .error x => .error x
    | .ok (s2, saved) =>
      let s3 := writeAll true avals s2
      let fin (t : St) : St :=
        unwind base (restoreAllOld (f.params.zip saved) { t with busy := t.busy.erase f.idx })
      match body { s3 with busy := f.idx :: s3.busy } with
      | .error (e, t) => .error (e, fin t)
      | .ok (t, v) =>
        match conv f.sigil v with
        | .error e => .error (e, fin t)
        | .ok v' => .ok (fin t, v')

/-- a value as the old code passed it around: possibly a *view* of a scalar's buffer -/
inductive OldVal
  | val (v : Val)
  | view (name : Bytes)
deriving DecidableEq, Repr

/-- what a consumer reads from such a value -/
def readOld (s : St) : OldVal → Sum Int Bytes
  | .val (.num _ q) => .inl q
  | .val (.str p) => .inr (deref s.h p)
  | .view name => if sigil name = .str then .inr (readStr s name) else .inl (getNum s name)

/-- the old binding loop with numeric arguments that are views: `Scalars.set(name, value)` copies the
    bytes the view shows *now* -/
def bindOldViews : List (Bytes × OldVal) → St → St
  | [], s => s
  | (name, v) :: r, s =>
    match readOld s v with
    | .inl q => bindOldViews r (setNum s name q)
    | .inr _ => bindOldViews r s

/-- the old `evaluate` for numeric parameters, arguments and a body that are plain variable
    references (no conversion needed, so `conv(arg)` and `to_type` return the views themselves):
    save, bind from the views, read the body view *after* the `finally` restored the parameters -/
def evaluateOldViews (params : List Bytes) (args : List OldVal) (body : OldVal) (s : St) : St × Sum Int Bytes :=
  let saved := params.map (fun n => (n, getNum s n))
  let s3 := bindOldViews (params.zip args) s
  let sF := saved.foldl (fun t x => setNum t x.1 x.2) s3
  (sF, readOld sF body)

/-- what the body sees in the old code -/
def bodyStateOldViews (params : List Bytes) (args : List OldVal) (s : St) : St :=
  bindOldViews (params.zip args) s

end PcbV.UserFn
