import PcbV.Model.Play
import PcbV.Model.PlayVoices
/-
  PcbV.Lemmas.PlayVoices — a voice's command does not look at `Sound._foreground`, and what the
  round-robin loop of the three-voice PLAY emits for one voice is a run of that voice alone.
-/
namespace PcbV.C42
open PcbV PcbV.Gen PcbV.Mml PcbV.Play PcbV.PlayVoices

def psFg (b : Bool) (ps : PlayState) : PlayState := { ps with foreground := b }

/-- the foreground flag after a command -/
def fgAfter (cmd : Cmd) (b : Bool) : Bool :=
  match cmd with
  | .fg x => x
  | _ => b

theorem apply_psFg (b : Bool) (ps : PlayState) (cmd : Cmd) :
    apply (psFg b ps) cmd = (apply ps cmd).map (fun r => (psFg (fgAfter cmd b) r.1, r.2)) := by
  cases cmd with
  | sub s => simp [apply, Except.map, fgAfter]
  | n k d =>
    simp only [apply]
    cases rangeNat 0 84 k with
    | error e => simp [Except.map]
    | ok m => by_cases h0 : m = 0 <;> simp [Except.map, h0, mkEv, psFg, fgAfter]
  | len k =>
    simp only [apply]
    cases rangeNat 1 64 k <;> simp [Except.map, psFg, fgAfter]
  | tempo k =>
    simp only [apply]
    cases rangeNat 32 255 k <;> simp [Except.map, psFg, fgAfter]
  | oct k =>
    simp only [apply]
    cases rangeNat 0 6 k <;> simp [Except.map, psFg, fgAfter]
  | up => simp [apply, Except.map, psFg, fgAfter]
  | down => simp [apply, Except.map, psFg, fgAfter]
  | note letter acc l d =>
    simp only [apply]
    split
    · split
      · simp [Except.map]
      · split <;> simp [Except.map, psFg, fgAfter]
      · simp [Except.map, psFg, fgAfter, mkEv, effLen]
    · cases semitone letter acc <;> simp [Except.map, psFg, fgAfter, mkEv, effLen]
  | fill f => simp [apply, Except.map, psFg, fgAfter]
  | fg x => simp [apply, Except.map, psFg, fgAfter]
  | vol k =>
    simp only [apply]
    split <;> simp [Except.map, psFg, fgAfter]

/-- outcomes of one command on two copies of a voice that differ in the foreground flag only -/
def StepSim : Step → Step → Prop
  | .done, .done => True
  | .fail e, .fail e' => e = e'
  | .cont c evs, .cont c' evs' => evs = evs' ∧ setFg true c = setFg true c'
  | _, _ => False

theorem step_setFg (lim : Limits) (env : Env) (b : Bool) (c : Cfg) :
    StepSim (step lim env (setFg b c)) (step lim env (setFg true c)) := by
  unfold step
  have hr : ∀ x, (setFg x c).rest = c.rest := fun _ => rfl
  have hl : ∀ x, (setFg x c).levels = c.levels := fun _ => rfl
  have hp : ∀ x, (setFg x c).ps = psFg x c.ps := fun _ => rfl
  simp only [hr, hl, hp]
  cases hparse : parseCmd env c.rest with
  | error e => simp [StepSim]
  | ok o =>
    cases o with
    | none => simp [StepSim]
    | some p =>
      obtain ⟨cmd, r⟩ := p
      cases cmd with
      | sub s =>
        dsimp only
        split <;> simp [StepSim, setFg, psFg]
      | _ =>
        dsimp only
        rw [apply_psFg b, apply_psFg true]
        cases apply c.ps _ with
        | error e => simp [StepSim, Except.map]
        | ok res => simp [StepSim, Except.map, setFg, psFg]

/-- the first `k` commands of one voice run alone (foreground flag normalised): tones and voice -/
def strace (lim : Limits) (env : Env) : Nat → Cfg → List Ev × Cfg
  | 0, c => ([], setFg true c)
  | k + 1, c =>
    match step lim env (setFg true c) with
    | .cont c' evs => let r := strace lim env k c'; (evs ++ r.1, r.2)
    | _ => ([], setFg true c)

theorem setFg_idem (a b : Bool) (c : Cfg) : setFg a (setFg b c) = setFg a c := rfl

theorem strace_congr (lim : Limits) (env : Env) (k : Nat) (a b : Cfg) (h : setFg true a = setFg true b) :
    strace lim env k a = strace lim env k b := by
  cases k with
  | zero => simp [strace, h]
  | succ k => simp [strace, h]

theorem filter_hw_same (i : Nat) (evs : List Ev) :
    (evs.map (hwEv i)).filter (fun e => e.voice == i) = evs.map (hwEv i) := by
  induction evs with
  | nil => rfl
  | cons e es ih => simp [hwEv, ih]

theorem filter_hw_ne (v i : Nat) (h : v ≠ i) (evs : List Ev) :
    (evs.map (hwEv v)).filter (fun e => e.voice == i) = [] := by
  induction evs with
  | nil => rfl
  | cons e es ih => simp [hwEv, h]

end PcbV.C42
