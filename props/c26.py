"""C26 — File sharing and record locks exclude each other."""
import os
import shutil
import tempfile
from fractions import Fraction

from vlib import basic

LEVEL = 'proof'
RULE = ('one case = one step of a random history; histories of OPEN (all modes, ACCESS/LOCK/SHARED clauses, old '
        'syntax), LOCK/UNLOCK (equal/contained/containing/partially overlapping/adjacent/disjoint/whole-file/'
        'inverted/out-of-range ranges relative to ranges used earlier in the history), GET/PUT (inside, at the '
        'edges of, just outside earlier ranges, or sequential), CLOSE/RESET over file numbers 1..3 (and invalid '
        '0, 4) on two files of a temp-dir drive; a deterministic family: three handles on one file in all 64 '
        'sequences of OPEN modes, the lock taken through each handle in turn and GET/PUT/LOCK/UNLOCK tried '
        'through every other handle (thorough: all assignments of file numbers); plus direct call histories '
        '(random and the same family) on a diskfiles.Locks object '
        '(including file number 0 and re-registration); non-trivial = the step reached the lock manager')
EXPLANATION = ('theorems (PcbV.Props.C26) by induction over arbitrary statement histories of the model: held ranges '
               'pairwise disjoint, overlapping LOCK denied with 70, access to a record locked through another '
               'number denied, UNLOCK exact, single writer; correspondence: error number and held lock sets per '
               'file number after every step (Session level and Locks level) against the Lean model; oracle: a '
               'shadow built only from the observed success/failure of statements, judged by the statement text')
TRUSTED_BASE = ['model PcbV.Model.Locks is a hand transcription of diskfiles.py:Locks and of the Files/RandomFile/'
                'TextFile callers (file-number checks, lock limits, record pointer)']
ASSUMPTIONS = ['integer record numbers used are exactly representable in single precision; fractional ones are small '
               'decimals whose single-precision value rounds like the decimal itself (x.5 is exact); the model '
               'rounds record numbers half-to-even (PcbV.Locks.roundHalfEven), as GET/PUT do on HEAD',
               'for sequential files LOCK/UNLOCK affect the whole file regardless of the range (GW-BASIC manual); '
               'the oracle normalises their ranges to the whole file',
               'the temp-dir files exist and are writable, so OPEN fails only for sharing reasons']

FILES = [b'A.DAT', b'B.DAT']
SPELL = {0: [b'A.DAT', b'A.DAT', b'a.dat', b'A.dat'], 1: [b'B.DAT', b'b.dat']}
RECLEN = 8
BIG = [16777216, 33554428, 33554430]
OUTSIDE_LOCK = [0, 33554432, 33554436]
MODES = ['I', 'O', 'A', 'R']
MODE_WORD = {'I': b'INPUT', 'O': b'OUTPUT', 'A': b'APPEND', 'R': b'RANDOM'}
ACC_WORD = {'R': b'READ', 'W': b'WRITE', 'RW': b'READ WRITE'}
KEYERR = 51


# ---------------------------------------------------------------------------------------------
# ranges as record sets (oracle vocabulary)

def r_empty(r):
    return r is not None and r[0] > r[1]


def r_shares(a, b):
    """Do two ranges share a record?  None = whole file."""
    if a is None and b is None:
        return True
    if a is None:
        return not r_empty(b)
    if b is None:
        return not r_empty(a)
    return max(a[0], b[0]) <= min(a[1], b[1])


def r_contains(r, k):
    return r is None or r[0] <= k <= r[1]


def relation(new, old):
    if new is None or old is None:
        return 'whole'
    if new == old:
        return 'equal'
    if new[0] <= old[0] and old[1] <= new[1]:
        return 'containing'
    if old[0] <= new[0] and new[1] <= old[1]:
        return 'contained'
    return 'partial'


def show_rng(r):
    return '*' if r is None else '%d-%d' % r


def canon_state(entries):
    """entries: {num: (name_id, iterable of (s, e) / (None, None))} -> canonical text (as the Lean driver)."""
    if not entries:
        return '-'
    out = []
    for num in sorted(entries):
        name, locks = entries[num]
        ls = sorted(((0, 0, 0) if s is None else (1, s, e)) for s, e in locks)
        out.append('%d@%d[%s]' % (num, name, '/'.join('*' if k[0] == 0 else '%d-%d' % k[1:] for k in ls)))
    return ','.join(out)


def name_id(name):
    base = name.replace(b'/', b'\\').split(b'\\')[-1].upper()
    return FILES.index(base)


# ---------------------------------------------------------------------------------------------
# Session level

def rnd(v):
    """The record a (possibly fractional) record-number value denotes: nearest integer, halves to even -
    what GET/PUT do (`round()` of the single-precision value in Files._check_pos); the statement's
    'record inside a locked range' only makes sense if LOCK/UNLOCK and GET/PUT agree on it."""
    if v is None or isinstance(v, int):
        return v
    return int(round(v))     # round(Fraction) rounds halves to even


def dec_text(v):
    """Decimal text of a Fraction with at most two decimals."""
    t = ('%.2f' % float(v)).rstrip('0')
    return t + '0' if t.endswith('.') else t


def num_text(v, pick, idx=0):
    """(prefix statements, expression text) for a record number; fractional values come as single/double
    literals, variables and expressions."""
    if isinstance(v, int):
        return b'', b'%d' % v
    t = dec_text(v).encode()
    form = pick(7)
    if form == 0:
        return b'', t
    if form == 1:
        return b'', (t[1:] if t.startswith(b'0.') else t + b'#')
    if form == 2:
        name = [b'X!', b'Y!'][idx]
        return name + b'=' + t + b':', name
    if form == 3:
        name = [b'D#', b'E#'][idx]
        return name + b'=' + t + b':', name
    if form == 4:
        if (v * 2).denominator == 1:
            return b'', b'(%d/2)' % int(v * 2)
        k = int(v)
        return b'', b'(%d+%s)' % (k, dec_text(v - k).encode()[1:])
    if form == 5:
        return b'', b'CSNG(' + t + b')'
    name = [b'P', b'Q'][idx]      # default (single) type variable
    return name + b'=' + t + b':', name


def enc_cmd(c):
    k = c[0]
    d = lambda v: '-' if v is None else str(v)
    if k == 'o':
        return 'o:%d:%d:%s:%s:%s' % (c[1], c[2], c[3], c[4] or '-', c[5] or '-')
    if k == 'c':
        return 'c:%d' % c[1]
    if k == 'ca':
        return 'ca'
    if k in ('l', 'u'):
        return '%s:%d:%s:%s' % (k, c[1], d(c[2]), d(c[3]))
    return '%s:%d:%s' % (k, c[1], d(c[2]))


def stmt(c, rng_choice):
    """BASIC text of a command; rng_choice(n) picks a spelling variant deterministically."""
    k = c[0]
    if k == 'o':
        _, nid, num, mode, acc, lt = c[:6]
        names = SPELL[nid]
        name = names[rng_choice(len(names))]
        if acc is None and lt is None and rng_choice(4) == 0:
            return b'OPEN "%s",%s%d,"%s",%d' % (mode.encode(), b'#' if rng_choice(2) else b'', num, name, RECLEN)
        t = b'OPEN "%s"' % name
        if not (mode == 'R' and rng_choice(3) == 0):
            t += b' FOR ' + MODE_WORD[mode]
        if acc:
            t += b' ACCESS ' + ACC_WORD[acc]
        if lt == 'S':
            t += b' SHARED'
        elif lt:
            t += b' LOCK ' + ACC_WORD[lt]
        t += b' AS %s%d LEN=%d' % (b'#' if rng_choice(2) else b'', num, RECLEN)
        return t
    if k == 'c':
        return b'CLOSE #%d' % c[1]
    if k == 'ca':
        return b'CLOSE' if rng_choice(2) else b'RESET'
    if k in ('l', 'u'):
        t = (b'LOCK ' if k == 'l' else b'UNLOCK ') + b'#%d' % c[1]
        s, e = c[2], c[3]
        if s is None and e is None:
            return t
        t += b', '
        pre = b''
        if s is not None:
            p1, x = num_text(s, rng_choice, 0)
            pre += p1
            t += x
        if e is not None:
            p2, x = num_text(e, rng_choice, 1)
            pre += p2
            t += b' TO ' + x
        return pre + t
    t = (b'GET ' if k == 'g' else b'PUT ') + b'#%d' % c[1]
    if c[2] is not None:
        pre, x = num_text(c[2], rng_choice, 0)
        t = pre + t + b', ' + x
    return t


class SessImpl(object):
    """The real interpreter on a temp-dir drive C:."""

    def __init__(self):
        self.dir = tempfile.mkdtemp(prefix='pcbv_c26_')
        for f in FILES:
            with open(os.path.join(self.dir, f.decode()), 'wb') as h:
                h.write(b'\0' * (RECLEN * 12))
        self.session = basic.new_session(devices={'C': self.dir}, current_device='C')
        self.session.__enter__()
        self.session.start()
        self.max_files = self.session._impl.files.max_files
        from pcbasic.basic.base import error
        self.msg_to_err = {m: n for n, m in error.BASICError.messages.items()}

    def close(self):
        try:
            self.session.execute(b'CLOSE')
            self.session.__exit__(None, None, None)
        finally:
            shutil.rmtree(self.dir, ignore_errors=True)

    def locks(self):
        return self.session._impl.files._devices[b'C:']._locks

    def state(self):
        return canon_state({n: (name_id(p.name), p.lock_set)
                            for n, p in self.locks()._locking_parameters.items()})

    def held(self):
        return {n: (name_id(p.name), [None if s is None else (s, e) for s, e in p.lock_set])
                for n, p in self.locks()._locking_parameters.items()}

    def execute(self, text):
        try:
            out = self.session.execute(text)
        except Exception as e:  # an escaping host exception
            return 'exc:%s' % type(e).__name__
        text = out.replace(b'\xff', b'').strip()
        if not text:
            return 0
        return self.msg_to_err.get(text, 'out:%r' % out)


class Shadow(object):
    """What the property statement lets an observer know from successes and failures alone."""

    def __init__(self):
        self.open = {}   # num -> dict(file, mode, locks=[ranges], next=record number or None)

    def holders(self, fid, exclude=None):
        return [(n, f) for n, f in sorted(self.open.items()) if f['file'] == fid and n != exclude]


def lock_limits(s, e):
    """Valid bounds of a LOCK/UNLOCK statement -> range; 'bad' if out of the accepted domain."""
    if s is None and e is None:
        return None
    s, e = rnd(s), rnd(e)
    s1 = 1 if s is None else s
    e1 = s1 if e is None else e
    if not (1 <= s1 <= 2 ** 25 - 2 and 1 <= e1 <= 2 ** 25 - 2):
        return 'bad'
    return (s1, e1)


def report(ctx, key, case, what):
    """ctx.fail, but the two statement-vs-code deviations that nearly every history with an OUTPUT file hits
    are reported once per key and run, so that they cannot crowd other failures out of the (bounded) list."""
    if key.startswith(('D8:', 'S5:')):
        ctx.count('deviation:' + key)
        seen = ctx.notes.setdefault('deviations_seen', [])
        if key in seen:
            return
        seen.append(key)
    ctx.fail(key, case, what)


def judge(ctx, sh, c, err, impl_held, hist, max_files):
    """The oracle: judge one executed statement against the statement text, then update the shadow."""
    k = c[0]
    case = {'level': 'sess', 'cmds': hist}

    def fail(key, what):
        report(ctx, key, case, 'step %d %s -> %r: %s' % (len(hist), enc_cmd(c), err, what))

    if k == 'o':
        _, fid, num, mode, acc, lt = c[:6]
        writers = [(n, f) for n, f in sh.holders(fid) if f['mode'] in 'OA']
        if writers and err == 0:
            n0, f0 = writers[0]
            fail('D8:reopen-after-output:%s>%s' % (f0['mode'], mode),
                 'file is open for %s as #%d and was opened again for %s as #%d' % (f0['mode'], n0, mode, num))
        if writers:
            ctx.count('oracle:reopen-of-output-file')
        if err == 0:
            sh.open[num] = dict(file=fid, mode=mode, locks=[], next=1)
    elif k == 'c':
        if err == 0:
            sh.open.pop(c[1], None)
    elif k == 'ca':
        if err == 0:
            sh.open.clear()
    elif k in ('l', 'u'):
        num = c[1]
        f = sh.open.get(num)
        lim = lock_limits(c[2], c[3])
        if f is not None and lim != 'bad':
            target = lim if f['mode'] == 'R' else None
            if k == 'l':
                clash = [(n, r) for n, g in sh.holders(f['file']) for r in g['locks'] if r_shares(target, r)]
                if clash:
                    ctx.count('oracle:overlapping-lock')
                    n1, r1 = clash[0]
                    rel = relation(target, r1)
                    ctx.count('overlap:' + rel + (':same-number' if n1 == num else ':other-number'))
                    if err != 70:
                        fail('lock-overlap-not-denied:' + rel,
                             'range %s shares a record with %s held through #%d, expected Permission denied (70)'
                             % (show_rng(target), show_rng(r1), n1))
                if err == 0 and target not in f['locks']:
                    f['locks'].append(target)
            else:
                if err == 0:
                    ctx.count('oracle:unlock-ok')
                    if target in f['locks']:
                        f['locks'].remove(target)
                    else:
                        fail('unlock-inexact-accepted',
                             'UNLOCK of %s succeeded but #%d holds %s' %
                             (show_rng(target), num, [show_rng(r) for r in f['locks']]))
                else:
                    ctx.count('oracle:unlock-refused')
    elif k in ('g', 'p'):
        num, pos = c[1], rnd(c[2])
        f = sh.open.get(num)
        if f is not None and f['mode'] == 'R':
            rec = pos if pos is not None else f['next']
            if pos is not None and not 1 <= pos <= 2 ** 25:
                rec = None
            if rec is not None:
                blockers = [(n, g, r) for n, g in sh.holders(f['file'], exclude=num)
                            for r in g['locks'] if r_contains(r, rec)]
                if blockers:
                    ctx.count('oracle:access-to-locked-record')
                    n1, g1, r1 = blockers[0]
                    if err == 0:
                        if k == 'g' and all(g['mode'] in 'OA' for _, g, _ in blockers):
                            fail('S5:get-through-lock-of-output-file',
                                 'GET of record %d succeeded although #%d (open for %s) holds %s'
                                 % (rec, n1, g1['mode'], show_rng(r1)))
                        else:
                            fail('locked-record-%s-allowed' % ('read' if k == 'g' else 'write'),
                                 'record %d lies in %s locked through #%d but the access succeeded'
                                 % (rec, show_rng(r1), n1))
                f['next'] = rec + 1 if err == 0 else None
            elif pos is None:
                f['next'] = None
    # held ranges of the implementation never overlap (read from LockingParameters.lock_set)
    items = [(n, fid, r) for n, (fid, rs) in sorted(impl_held.items()) for r in rs]
    for i in range(len(items)):
        for j in range(i + 1, len(items)):
            (n1, f1, r1), (n2, f2, r2) = items[i], items[j]
            if f1 == f2 and r_shares(r1, r2):
                fail('held-ranges-overlap:' + relation(r2, r1),
                     'held at the same time: %s through #%d and %s through #%d'
                     % (show_rng(r1), n1, show_rng(r2), n2))
    # and neither do the ranges the observer knows to be held
    sitems = [(n, f['file'], r) for n, f in sorted(sh.open.items()) for r in f['locks']]
    for i in range(len(sitems)):
        for j in range(i + 1, len(sitems)):
            (n1, f1, r1), (n2, f2, r2) = sitems[i], sitems[j]
            if f1 == f2 and r_shares(r1, r2):
                fail('locked-ranges-overlap:' + relation(r2, r1),
                     'both LOCKs succeeded and neither was unlocked: %s through #%d and %s through #%d'
                     % (show_rng(r1), n1, show_rng(r2), n2))


def gen_range(rng, used):
    """(s, e) statement bounds (either may be None) in a chosen relation to a range used earlier."""
    kinds = ['equal', 'contained', 'containing', 'left', 'right', 'adj-left', 'adj-right', 'disjoint',
             'whole', 'single', 'to-only', 'inverted', 'outside', 'big']
    weights = [14, 10, 14, 8, 8, 6, 6, 12, 6, 6, 3, 2, 2, 3]
    kind = rng.choices(kinds, weights)[0]
    base = rng.choice(used) if used else None
    if base is None or base[0] is None or kind == 'disjoint':
        if kind in ('whole',):
            return kind, (None, None)
        if kind == 'big':
            b = rng.choice(BIG)
            return kind, (b - rng.choice([0, 2, 4]), b)
        if kind == 'outside':
            return kind, rng.choice([(rng.choice(OUTSIDE_LOCK), None), (3, rng.choice(OUTSIDE_LOCK)),
                                     (0, 5), (None, 0)])
        if kind == 'to-only':
            return kind, (None, rng.randint(1, 9))
        if kind == 'single':
            return kind, (rng.randint(1, 14), None)
        s = rng.randint(1, 14)
        return 'fresh', (s, s + rng.choice([0, 0, 1, 2, 3, 5]))
    s0, e0 = base
    if e0 is None:
        e0 = s0
    lo, hi = min(s0, e0), max(s0, e0)
    if kind == 'equal':
        return kind, base
    if kind == 'contained':
        a = rng.randint(lo, hi)
        return kind, (a, rng.randint(a, hi))
    if kind == 'containing':
        return kind, (max(1, lo - rng.randint(0, 3)), hi + rng.randint(0 if lo > 1 else 1, 3))
    if kind == 'left':
        return kind, (max(1, lo - rng.randint(1, 3)), rng.randint(lo, hi))
    if kind == 'right':
        return kind, (rng.randint(lo, hi), hi + rng.randint(1, 3))
    if kind == 'adj-left':
        return kind, (max(1, lo - rng.randint(1, 3)), max(1, lo - 1))
    if kind == 'adj-right':
        return kind, (hi + 1, hi + rng.randint(1, 3))
    if kind == 'whole':
        return kind, (None, None)
    if kind == 'single':
        return kind, (rng.choice([lo, hi, max(1, lo - 1), hi + 1]), None)
    if kind == 'to-only':
        return kind, (None, rng.choice([lo, hi, max(1, lo - 1)]))
    if kind == 'inverted':
        return kind, (hi + rng.randint(0, 2), max(1, lo - rng.randint(0, 1)) if hi > lo or rng.random() < .5 else lo)
    if kind == 'outside':
        return kind, rng.choice([(0, hi), (lo, rng.choice(OUTSIDE_LOCK)), (rng.choice(OUTSIDE_LOCK), None)])
    b = rng.choice(BIG)
    return kind, (b - rng.choice([0, 2]), b)


def representable(v):
    """Nearest lower value that single precision holds exactly (record numbers pass through to_single)."""
    if v is None or not isinstance(v, int):
        return v
    if v > 2 ** 25:
        return v - v % 4
    if v > 2 ** 24:
        return v - v % 2
    return v


FRACS = ['.5', '.49', '.51']


def fractional(rng, v):
    """A fractional value next to the record number v (exactly halfway, just below, just above)."""
    k = v - 1 if v >= 1 and rng.random() < 0.4 else v
    return Fraction('%d%s' % (k, rng.choice(FRACS + ['.5'])))


def fractionalise(rng, cmds, prob=0.1):
    """Replace some small integer record numbers of LOCK/UNLOCK/GET/PUT by fractional values."""
    out = []
    for c in cmds:
        if c[0] in ('l', 'u', 'g', 'p'):
            c = c[:2] + tuple(fractional(rng, v) if isinstance(v, int) and 0 <= v <= 60 and rng.random() < prob
                              else v for v in c[2:])
        out.append(c)
    return out


def gen_history(rng, max_files):
    profile, cmds = gen_history_raw(rng, max_files)
    cmds = [c if c[0] in ('o', 'c', 'ca') else c[:2] + tuple(representable(v) for v in c[2:]) for c in cmds]
    return profile, fractionalise(rng, cmds)


def fractional_family(rng, max_files, thorough):
    """LOCK n through one file number, then GET n / PUT n / LOCK n with the same value n, and the integers
    next to it, through a second number; UNLOCK with the neighbours and with n; the same with n as the stop
    of a range.  n runs over k.5 (even and odd k), k.49, k.51 including 0.5 / 0.49 / 0.51."""
    ks = list(range(0, 13)) if thorough else [0, 1, 2, 3, 6, 7]
    nums = list(range(1, max_files + 1))
    for k in ks:
        for f in FRACS:
            x = Fraction('%d%s' % (k, f))
            y = x + 3
            a, b = rng.sample(nums, 2)
            lt = rng.choice(['S', None])
            cmds = [('o', 0, a, 'R', None, lt), ('o', 0, b, 'R', None, lt),
                    ('l', a, x, None), ('g', b, x), ('p', b, x), ('g', b, k), ('g', b, k + 1), ('g', b, None),
                    ('l', b, x, None), ('u', b, x, None), ('l', b, k, None), ('u', b, k, None),
                    ('l', b, k + 1, None), ('u', b, k + 1, None),
                    ('u', a, k, None), ('u', a, k + 1, None), ('u', a, x, None),
                    ('l', a, k + 1, y), ('g', b, y), ('p', b, k + 3), ('g', b, k + 4), ('l', b, y, None),
                    ('u', b, y, None), ('l', b, k + 4, y + 2), ('u', b, k + 4, y + 2),
                    ('u', a, k + 1, k + 3), ('u', a, k + 1, k + 4), ('u', a, k + 1, y), ('ca',)]
            yield 'fractional-family', cmds


def gen_multi(rng, max_files, n):
    """All file numbers opened on the same file without sharing clauses (so every OPEN the code allows goes
    through), the first often FOR OUTPUT/APPEND; then record locks, GET/PUT, LOCK/UNLOCK through all of them."""
    nums = list(range(1, max_files + 1))
    rng.shuffle(nums)
    first = rng.choices(MODES, [15, 35, 25, 25])[0]
    cmds = [('o', 0, nums[0], first, None, None)]
    for k in nums[1:]:
        cmds.append(('o', 0, k, rng.choices(MODES, [20, 5, 5, 70])[0], None, None))
    used = []
    while len(cmds) < n:
        r = rng.random()
        num = rng.choice(nums)
        if r < 0.3:
            kind, (s, e) = gen_range(rng, used)
            if s is None and e is not None:
                s = 1
            if max(s or 0, e or 0) > 30:
                s, e = rng.randint(1, 10), None
            if (s, e) != (None, None) and lock_limits(s, e) != 'bad':
                used.append((s, e))
            cmds.append(('l', num, s, e))
        elif r < 0.42:
            s, e = rng.choice(used) if used and rng.random() < 0.8 else (None, None)
            cmds.append(('u', num, s, e))
        elif r < 0.95:
            if used:
                s0, e0 = rng.choice(used)
                e0 = s0 if e0 is None else e0
                lo, hi = min(s0, e0), max(s0, e0)
                pos = rng.choice([lo, hi, rng.randint(lo, hi), max(1, lo - 1), hi + 1])
            else:
                pos = rng.randint(1, 12)
            cmds.append(('g' if rng.random() < 0.6 else 'p', num, min(pos, 60)))
        else:
            k = rng.choice(nums)
            cmds += [('c', k), ('o', 0, k, rng.choices(MODES, [20, 10, 10, 60])[0], None, None)]
    return cmds


def gen_history_raw(rng, max_files):
    profile = rng.choices(['shared', 'default', 'mixed', 'writer', 'multi'], [34, 22, 22, 8, 14])[0]
    n = rng.randint(6, 36)
    if profile == 'multi':
        return profile, gen_multi(rng, max_files, n + 6)
    cmds = []
    used = []          # ranges (statement bounds) used earlier
    lastpos = {}       # upper bound of the record pointer per number (keeps PUT small)
    nums = list(range(1, max_files + 1))
    main_file = 0

    def pick_num():
        r = rng.random()
        if r < 0.03:
            return rng.choice([0, max_files + 1, 255])
        return rng.choice(nums)

    def gen_open():
        fid = main_file if rng.random() < 0.85 else 1 - main_file
        num = pick_num()
        if profile == 'writer':
            mode = rng.choices(MODES, [25, 30, 20, 25])[0]
        else:
            mode = rng.choices(MODES, [12, 8, 6, 74])[0]
        if profile == 'default':
            acc, lt = None, None
        elif profile == 'shared':
            lt = rng.choices([None, 'S', 'R', 'W', 'RW'], [6, 80, 5, 5, 4])[0]
            acc = rng.choices([None, 'R', 'W', 'RW'], [60, 10, 10, 20])[0]
        else:
            lt = rng.choice([None, 'S', 'S', 'R', 'W', 'RW'])
            acc = rng.choice([None, None, 'R', 'W', 'RW'])
        if acc is not None and mode != 'R' and rng.random() < 0.9:
            acc = {'I': 'R', 'O': 'W', 'A': 'RW'}[mode]
        return ('o', fid, num, mode, acc, lt)

    # start with a couple of opens so that the history is not trivially empty
    for _ in range(rng.randint(1, 3)):
        cmds.append(gen_open())
    while len(cmds) < n:
        r = rng.random()
        if r < 0.16:
            cmds.append(gen_open())
        elif r < 0.44:
            kind, (s, e) = gen_range(rng, used)
            if s is None and e is not None:
                s = 1    # `LOCK #n, TO e` is refused by the parser (Syntax error)
            if (s, e) != (None, None) and lock_limits(s, e) != 'bad':
                used.append((s, e))
            cmds.append(('l', pick_num(), s, e))
        elif r < 0.62:
            if used and rng.random() < 0.6:
                s, e = rng.choice(used)
                if rng.random() < 0.15:
                    s, e = (None, None)
            else:
                kind, (s, e) = gen_range(rng, used)
            if s is None and e is not None:
                s = 1
            cmds.append(('u', pick_num(), s, e))
        elif r < 0.92:
            num = pick_num()
            k = 'g' if rng.random() < 0.5 else 'p'
            q = rng.random()
            if q < 0.15 and lastpos.get(num, 0) < 50:
                pos = None
            elif q < 0.75 and used:
                s0, e0 = rng.choice(used)
                e0 = s0 if e0 is None else e0
                lo, hi = min(s0, e0), max(s0, e0)
                pos = rng.choice([lo, hi, rng.randint(lo, hi), max(1, lo - 1), hi + 1])
            elif q < 0.8:
                pos = rng.choice([0, 2 ** 25, 2 ** 25 + 4] + BIG)
            else:
                pos = rng.randint(1, 16)
            if k == 'p' and pos is not None and pos > 60:
                if pos > 2 ** 25:
                    pass   # refused before anything is written
                else:
                    k = 'g'
            if pos is None:
                lastpos[num] = lastpos.get(num, 0) + 1
            else:
                lastpos[num] = pos
            cmds.append((k, num, pos))
        else:
            if rng.random() < 0.2:
                cmds.append(('ca',))
                lastpos.clear()
            else:
                num = pick_num()
                cmds.append(('c', num))
                lastpos.pop(num, None)
    return profile, cmds


FIXED_HISTORIES = [
    # D7: containing range (different and same number), contained, partial, adjacent
    [('o', 0, 1, 'R', None, 'S'), ('o', 0, 2, 'R', None, 'S'), ('l', 1, 3, 5), ('l', 2, 1, 10), ('l', 2, 4, 4),
     ('l', 2, 2, 3), ('l', 2, 5, 7), ('l', 2, 6, 8), ('l', 2, 1, 2), ('g', 2, 3), ('p', 2, 5), ('g', 2, 6),
     ('u', 1, 3, 4), ('u', 2, 3, 5), ('u', 1, 3, 5), ('l', 2, 3, 5)],
    [('o', 0, 1, 'R', None, None), ('l', 1, 3, 5), ('l', 1, 1, 10), ('l', 1, 2, 6), ('l', 1, None, None),
     ('u', 1, 1, 10), ('u', 1, 3, 5), ('l', 1, None, None), ('l', 1, 7, 7), ('u', 1, None, None)],
    # D8 and the GET exception on a file locked through an OUTPUT file (corpus test LockFilesOutput)
    [('o', 0, 1, 'O', None, None), ('l', 1, 1, 3), ('o', 0, 3, 'R', None, None), ('g', 3, 2), ('p', 3, 4),
     ('p', 3, 2), ('l', 3, 1, 3), ('u', 1, 1, 2), ('u', 1, 1, 3), ('p', 3, 3), ('c', 1), ('c', 3)],
    [('o', 0, 1, 'O', None, None), ('o', 0, 2, 'I', None, None), ('o', 0, 3, 'O', None, None), ('c', 1),
     ('o', 0, 1, 'A', None, None), ('ca',), ('o', 0, 1, 'A', None, None), ('o', 0, 2, 'R', None, None),
     ('o', 0, 3, 'A', None, None), ('o', 1, 3, 'A', None, None), ('ca',)],
    [('o', 0, 1, 'I', None, None), ('o', 0, 2, 'O', None, None), ('o', 0, 2, 'A', None, None),
     ('o', 0, 2, 'R', None, None), ('o', 0, 3, 'I', None, None), ('l', 1, None, None), ('g', 2, 1), ('p', 2, 1),
     ('l', 3, None, None), ('u', 3, 1, 2), ('u', 1, 4, 4), ('g', 2, 1), ('ca',)],
    # corpus test LockFiles
    [('o', 0, 1, 'R', None, None), ('l', 1, 1, 3), ('p', 1, 2), ('o', 0, 3, 'R', None, None), ('g', 3, 2),
     ('p', 3, 4), ('p', 3, 2), ('l', 3, 1, 3), ('g', 3, 2), ('p', 3, 2), ('u', 1, 1, 2), ('u', 1, 1, 3),
     ('p', 1, 2), ('p', 3, 2)],
]


def run_history(ctx, impl, cmds, spell_rng, judge_it=True):
    """Execute a history on the real interpreter; returns (protocol line, impl reply)."""
    impl.execute(b'CLOSE')
    leftovers = impl.state()
    if leftovers != '-':
        ctx.fail('close-leaves-registered-files', {'level': 'sess', 'cmds': []}, 'after CLOSE: ' + leftovers)
    sh = Shadow()
    steps = []
    hist = []
    for c in cmds:
        err = impl.execute(stmt(c, lambda n: spell_rng.randrange(n)))
        hist.append(enc_cmd(c))
        steps.append('%s|%s' % (err, impl.state()))
        ctx.case(('sess', tuple(hist)))
        ctx.count('sess:' + c[0])
        ctx.count('sess-err:%s' % err)
        if judge_it:
            judge(ctx, sh, c, err, impl.held(), list(hist), impl.max_files)
    line = 'sess 1 %d %s' % (impl.max_files, ';'.join(hist))
    return line, 'ok ' + ';'.join(steps)


def dec_cmd(w):
    p = w.split(':')
    o = lambda v: None if v == '-' else (Fraction(v) if '/' in v else int(v))
    if p[0] == 'o':
        return ('o', int(p[1]), int(p[2]), p[3], None if p[4] == '-' else p[4], None if p[5] == '-' else p[5])
    if p[0] == 'c':
        return ('c', int(p[1]))
    if p[0] == 'ca':
        return ('ca',)
    if p[0] in ('l', 'u'):
        return (p[0], int(p[1]), o(p[2]), o(p[3]))
    return (p[0], int(p[1]), o(p[2]))


def handle_orders(rng, max_files, all_perms):
    """(file numbers in OPEN order, OPEN modes) for every sequence of modes on up to three handles of one file;
    quick tier: one PRNG-chosen assignment of file numbers per mode sequence, thorough: all of them."""
    import itertools
    nums = list(range(1, max_files + 1))[:3]
    perms = list(itertools.permutations(nums))
    for modes in itertools.product(MODES, repeat=len(nums)):
        for perm in (perms if all_perms else [perms[rng.randrange(len(perms))]]):
            yield perm, modes


def multi_handle_family(rng, max_files, all_perms):
    """Three handles on the same file in every order of OPEN modes (whatever OPEN accepts); a lock is taken
    through each handle in turn and GET / PUT / LOCK / UNLOCK are tried through every other handle, then the
    holder reads its own record and unlocks."""
    for perm, modes in handle_orders(rng, max_files, all_perms):
        cmds = [('o', 0, n, m, None, None) for n, m in zip(perm, modes)]
        for holder in perm:
            base = rng.choice([1, 2, 2, 5, 9])
            whole = rng.random() < 0.2
            cmds.append(('l', holder, None, None) if whole else ('l', holder, base, base + 1))
            for other in perm:
                if other != holder:
                    cmds += [('g', other, base), ('p', other, base + 1), ('g', other, base + 2),
                             ('l', other, base + 1, base + 2), ('u', other, base + 1, base + 2)]
            cmds += [('g', holder, base), ('u', holder, None, None) if whole else ('u', holder, base, base + 1)]
        yield 'multi-family', cmds


def raw_multi_handle_family(rng, all_perms):
    """The same class on diskfiles.Locks directly (read / write / read-write record access)."""
    for perm, modes in handle_orders(rng, 3, all_perms):
        script = [('o', 0, n, m, None, None) for n, m in zip(perm, modes)]
        for holder in perm:
            base = rng.choice([1, 2, 5])
            whole = rng.random() < 0.2
            script.append(('k', holder, None if whole else (base, base + 1)))
            for other in perm:
                if other != holder:
                    script += [('ra', other, (base, base), 'R'), ('ra', other, (base + 1, base + 1), 'W'),
                               ('ra', other, (base + 2, base + 2), 'R'), ('ra', other, (base + 1, base + 1), 'RW'),
                               ('k', other, (base + 1, base + 2)), ('r', other, (base + 1, base + 2))]
            script += [('ra', holder, (base, base), 'R'), ('r', holder, None if whole else (base, base + 1))]
        yield script


def session_level(ctx, n_hist):
    rng = ctx.rng
    impl = SessImpl()
    try:
        lines, outs, cases = [], [], []
        todo = [('fixed', h) for h in FIXED_HISTORIES]
        todo += list(multi_handle_family(rng, impl.max_files, all_perms=not ctx.quick))
        todo += list(fractional_family(rng, impl.max_files, thorough=not ctx.quick))
        for _ in range(n_hist):
            todo.append(gen_history(rng, impl.max_files))
        for profile, cmds in todo:
            ctx.count('profile:' + profile)
            line, out = run_history(ctx, impl, cmds, rng)
            lines.append(line)
            outs.append(out)
            cases.append({'level': 'sess', 'cmds': [enc_cmd(c) for c in cmds]})
        ctx.compare(cases, outs, lines, label='sess')
        ctx.sample({'history': lines[0], 'impl': outs[0]})
        ctx.sample({'history': lines[-1], 'impl': outs[-1]})
    finally:
        impl.close()


# ---------------------------------------------------------------------------------------------
# Locks level (direct calls of the anchored methods)

RAW_NAMES = {0: [b'A.DAT', b'a.dat', b'SUB\\A.DAT', b'A.dat'], 1: [b'B.DAT', b'b.dat']}
B = lambda v: None if v is None else v.encode()


def raw_history(ctx, n_ops, script=None):
    """Generate and execute a history on a fresh diskfiles.Locks; generation looks at the registered numbers.
    With `script` (a list of op tuples) the ops are taken from it instead of the PRNG; scripted ops on a file
    number that is not registered (its open was refused) are skipped."""
    from pcbasic.basic.devices.diskfiles import Locks
    from pcbasic.basic.base import error
    rng = ctx.rng
    locks = Locks()
    ops, steps = [], []
    used = []

    def held():
        return {n: (name_id(p.name), [None if s is None else (s, e) for s, e in p.lock_set], p.mode)
                for n, p in locks._locking_parameters.items()}

    def small_range():
        kind, (s, e) = gen_range(rng, used)
        if s is None and e is None:
            return None
        s = 1 if s is None else s
        e = s if e is None else e
        if max(s, e) > 40:
            s, e = rng.randint(0, 12), rng.randint(0, 14)
        return (s, e)

    for step_no in range(len(script) if script is not None else n_ops):
        before = held()
        reg = sorted(before)
        sc = script[step_no] if script is not None else None
        if sc is not None:
            if sc[0] not in ('o', 'c') and sc[1] not in before:
                continue
            r = {'o': 0.0, 'c': 0.31, 'a': 0.4, 'ra': 0.5, 'k': 0.7, 'r': 0.9}[sc[0]]
        else:
            r = rng.random()

        def fail(key, what):
            report(ctx, key, {'level': 'raw', 'ops': list(ops)}, 'op %d %s: %s' % (len(ops), ops[-1], what))

        if sc is not None and sc[0] == 'o':
            _, fid, num, mode, acc, lt = sc
        if sc is None and (r < 0.3 or not reg):
            fid = 0 if rng.random() < 0.8 else 1
            num = rng.choice([0, 1, 1, 2, 2, 3, 3, 4])
            mode = rng.choices(MODES, [15, 15, 10, 60])[0]
            lt = rng.choice([None, None, 'S', 'S', 'S', 'R', 'W', 'RW', ''])
            acc = rng.choice([None, None, 'R', 'W', 'RW', ''])
        if (sc is not None and sc[0] == 'o') or (sc is None and (r < 0.3 or not reg)):
            ops.append('o:%d:%d:%s:%s:%s' % (fid, num, mode, acc or '-', lt or '-'))
            call = lambda: locks.open_file(rng.choice(RAW_NAMES[fid]), num, B(mode),
                                           {'S': b'SHARED'}.get(lt, B(lt)), B(acc))
            writers = [n for n, (f, _, m) in before.items() if f == fid and m in (b'O', b'A')]
            check = ('open', fid, num, mode, writers)
        elif r < 0.38:
            num = sc[1] if sc is not None else rng.choice(reg + [4])
            ops.append('c:%d' % num)
            call = lambda: locks.close_file(num)
            check = None
        elif r < 0.48:
            if sc is not None:
                _, num, a = sc
            else:
                num = rng.choice(reg + [0])
                a = rng.choice(['R', 'W', 'RW'])
            ops.append('a:%d:%s' % (num, a))
            call = lambda: locks.try_access(num, B(a))
            check = None
        elif r < 0.66 and sc is not None:
            _, num, rg, a = sc
            ops.append('ra:%d:%d:%d:%s' % (num, rg[0], rg[1], a))
            call = lambda: locks.try_record_access(num, rg[0], rg[1], B(a))
            check = ('access', num, rg, a)
        elif r < 0.66:
            num = rng.choice(reg)
            rg = small_range()
            if rg is None or rng.random() < 0.6:
                k = rg[0] if rg else 1
                if used and rng.random() < 0.7:
                    u = rng.choice(used)
                    k = rng.choice([u[0], u[1], max(0, u[0] - 1), u[1] + 1])
                rg = (k, k)
            a = rng.choice(['R', 'W', 'RW'])
            ops.append('ra:%d:%d:%d:%s' % (num, rg[0], rg[1], a))
            call = lambda: locks.try_record_access(num, rg[0], rg[1], B(a))
            check = ('access', num, rg, a)
        elif r < 0.86:
            if sc is not None:
                _, num, rg = sc
            else:
                num = rng.choice(reg)
                rg = small_range()
            if rg is not None:
                used.append(rg)
            ops.append('k:%d:%s:%s' % ((num,) + (('-', '-') if rg is None else rg)))
            call = lambda: locks.acquire_record_lock(num, *(rg or (None, None)))
            check = ('lock', num, rg)
        else:
            if sc is not None:
                _, num, rg = sc
            else:
                num = rng.choice(reg)
                mine = before[num][1]
                if mine and rng.random() < 0.55:
                    rg = rng.choice(sorted(mine, key=lambda x: (x is not None, x)))
                else:
                    rg = small_range()
            ops.append('r:%d:%s:%s' % ((num,) + (('-', '-') if rg is None else rg)))
            call = lambda: locks.release_record_lock(num, *(rg or (None, None)))
            check = ('unlock', num, rg)
        try:
            call()
            err = 0
        except error.BASICError as e:
            err = e.err
        except Exception as e:
            err = 'exc:%s' % type(e).__name__
        after = held()
        steps.append('%s|%s' % (err, canon_state({n: (f, [(None, None) if x is None else x for x in rs])
                                                  for n, (f, rs, _) in after.items()})))
        ctx.case(('raw', tuple(ops)))
        ctx.count('raw:' + ops[-1].split(':')[0])
        ctx.count('raw-err:%s' % err)
        # oracle on the direct calls, from the state before the call
        if check:
            if check[0] == 'open' and check[4] and err == 0:
                m0 = before[check[4][0]][2].decode()
                fail('D8:reopen-after-output:%s>%s' % (m0, check[3]), 'open_file accepted although #%d has the '
                     'file open for %s' % (check[4][0], m0))
            if check[0] == 'lock':
                fid = before[check[1]][0]
                clash = [(n, x) for n, (f, rs, _) in sorted(before.items()) if f == fid for x in rs
                         if r_shares(check[2], x)]
                if clash:
                    ctx.count('raw-oracle:overlapping-lock:' + relation(check[2], clash[0][1]))
                    if err != 70:
                        fail('lock-overlap-not-denied:' + relation(check[2], clash[0][1]),
                             'acquire_record_lock%r accepted (%r) while #%d holds %s'
                             % (check[2], err, clash[0][0], show_rng(clash[0][1])))
            if check[0] == 'unlock' and err == 0 and check[2] not in before[check[1]][1]:
                fail('unlock-inexact-accepted', 'release_record_lock%r succeeded, held: %r'
                     % (check[2], before[check[1]][1]))
            if check[0] == 'access' and check[2][0] == check[2][1]:
                fid = before[check[1]][0]
                blockers = [(n, m) for n, (f, rs, m) in sorted(before.items())
                            if f == fid and n != check[1] and any(r_contains(x, check[2][0]) for x in rs)]
                if blockers:
                    ctx.count('raw-oracle:access-to-locked-record')
                    if err == 0:
                        if check[3] == 'R' and all(m in (b'O', b'A') for _, m in blockers):
                            fail('S5:get-through-lock-of-output-file', 'read access to record %d allowed although '
                                 '#%d (output file) holds a lock on it' % (check[2][0], blockers[0][0]))
                        else:
                            fail('locked-record-%s-allowed' % ('read' if check[3] == 'R' else 'write'),
                                 'access %s to record %d allowed although #%d holds a lock on it'
                                 % (check[3], check[2][0], blockers[0][0]))
        items = [(n, f, x) for n, (f, rs, _) in sorted(after.items()) for x in rs]
        for i in range(len(items)):
            for j in range(i + 1, len(items)):
                if items[i][1] == items[j][1] and r_shares(items[i][2], items[j][2]):
                    fail('held-ranges-overlap:' + relation(items[j][2], items[i][2]),
                         'held at the same time: %r and %r' % (items[i], items[j]))
    return 'raw 1 ' + ';'.join(ops), 'ok ' + ';'.join(steps)


def locks_level(ctx, n_hist):
    lines, outs, cases = [], [], []
    for script in raw_multi_handle_family(ctx.rng, all_perms=True):
        line, out = raw_history(ctx, 0, script)
        ctx.count('raw-profile:multi-family')
        lines.append(line)
        outs.append(out)
        cases.append({'level': 'raw', 'line': line})
    for _ in range(n_hist):
        line, out = raw_history(ctx, ctx.rng.randint(5, 40))
        lines.append(line)
        outs.append(out)
        cases.append({'level': 'raw', 'line': line})
    ctx.compare(cases, outs, lines, label='raw')
    if lines:
        ctx.sample({'history': lines[0], 'impl': outs[0]})


def run(ctx):
    session_level(ctx, 210 if ctx.quick else 4000)
    ctx.log('session level done')
    locks_level(ctx, 1500 if ctx.quick else 40000)


def replay(ctx, payload):
    import random
    case = payload.get('case', {})
    sub = Ctx2(ctx)
    if case.get('level') == 'sess' and case.get('cmds'):
        impl = SessImpl()
        try:
            run_history(sub, impl, [dec_cmd(w) for w in case['cmds']], random.Random(0))
        finally:
            impl.close()
    else:
        sub.rng = random.Random(payload.get('seed', 0))
        run(sub)
    hits = [f for f in sub.failures if f['key'] == payload.get('key')]
    return hits[0]['what'] if hits else None


class Ctx2(object):
    """thin proxy so replay can reuse run() without touching the outer evidence"""
    def __init__(self, ctx):
        self.__dict__.update(ctx.__dict__)
        self._ctx = ctx
        self.failures = []
        self.disagreements = []

    def __getattr__(self, name):
        return getattr(self._ctx.__class__, name).__get__(self)
