import PcbV.Model.ErrTrap
import PcbV.Lemmas.ErrTrap
/-
  Property C21 — error trapping reports and resumes at the right place.

  All theorems are about `PcbV.Model.ErrTrap.step` (one turn of the interpreter's `parse` loop) for
  EVERY program `code`, every direct line `dl` and every state `s` (hence every history), in the
  repaired (`fixed = true`) and, where it makes no difference, also the unrepaired mechanism.
  The second group ties the positions to the line structure: for every program `p : List Line`,
  every line index i and every statement index k of that line, position `posOf p i k` holds that
  statement, `get_line_number` there is the number of line i, the position after the last statement of
  a line is the first statement of the next line, and `line_numbers[n]` is the first statement of line n.

  "The statement under the pointer raises error e" is `fetch … = some st ∧ execStmt … st = .raise e s1`:
  it covers ERROR n, every failing statement kind of the model, an undefined GOTO / GOSUB / ON ERROR GOTO
  / RESUME target, RETURN without GOSUB, a float error while a trap is set up (`raises_*` below).
-/
namespace PcbV.C21

open PcbV PcbV.ErrTrap PcbV.Gen

/-! ## which statements raise -/

theorem raises_error (code : List Instr) (s : St) (n : Nat) (h : 1 ≤ n ∧ n ≤ 255) :
    execStmt code s (.error n) = .raise n s := by
  simp [execStmt, h]

theorem raises_error_out_of_range (code : List Instr) (s : St) (n : Nat) (h : n = 0 ∨ 255 < n) :
    execStmt code s (.error n) = .raise E.illegal_function_call s := by
  have : ¬ (1 ≤ n ∧ n ≤ 255) := by omega
  simp [execStmt, this]

theorem raises_fault (code : List Instr) (s : St) (e : Nat) :
    execStmt code s (.fault e) = .raise e s := rfl

theorem raises_cfault (code : List Instr) (s : St) (v e : Nat) (h : s.flags v = false) :
    execStmt code s (.cfault v e) = .raise e s := by
  simp [execStmt, h]

theorem raises_soft_under_trap (code : List Instr) (s : St) (e : Nat) (h : s.softRaise = true) :
    execStmt code s (.soft e) = .raise e s := by
  simp [execStmt, h]

theorem raises_undefined_target (code : List Instr) (s : St) (n : Nat) (h : lineIndex code n = none) :
    execStmt code s (.goto n) = .raise E.undefined_line_number s ∧
    execStmt code s (.gosub n) = .raise E.undefined_line_number s ∧
    (n ≠ 0 → execStmt code s (.onErr n) = .raise E.undefined_line_number s) := by
  refine ⟨by simp [execStmt, h], by simp [execStmt, h], fun hn => by simp [execStmt, h, hn]⟩

theorem raises_return_without_gosub (code : List Instr) (s : St) (h : s.gosubs = []) :
    execStmt code s .ret = .raise E.return_without_gosub s := by
  simp [execStmt, h]

/-- a fault inside the body of a user function (all functions of the call chain defined) is raised by the
    CALLING statement, like any other error of that statement -/
theorem raises_in_user_function (code : List Instr) (s : St) (ks : List Nat) (v e : Nat)
    (hd : ks.all s.defs = true) (h : s.flags v = false) :
    execStmt code s (.fnc ks v e) = .raise e s := by
  simp [execStmt, hd, h]

theorem raises_undefined_user_function (code : List Instr) (s : St) (ks : List Nat) (v e : Nat)
    (hd : ks.all s.defs = false) :
    execStmt code s (.fnc ks v e) = .raise E.undefined_user_function s := by
  simp [execStmt, hd]

theorem raises_def_fn_in_direct_line (code : List Instr) (s : St) (k : Nat) (h : s.run = false) :
    execStmt code s (.defFn k) = .raise E.illegal_direct s := by
  simp [execStmt, h]

theorem raises_in_for_expression (code : List Instr) (s : St) (v e : Nat) (h : s.flags v = false) :
    execStmt code s (.forc v e) = .raise e s ∧ execStmt code s .nextq = .raise E.next_without_for s := by
  simp [execStmt, h]

/-! ## the trap -/

/-- With ON ERROR GOTO n active (and not already inside a handler) ANY raised error jumps to the first
    statement of line n; ERR is the error code, `error_pos` is the failing statement (the direct line:
    ERL 65535), the resume position is the START of the failing statement in its own stream, the handler
    flag is set, and GOSUB stack and output are untouched. -/
theorem trap_sets_err_erl (fixed : Bool) (code : List Instr) (dl : List Stmt) (s s1 : St) (st : Stmt)
    (e j : Nat) (hf : fetch code dl s = some st) (hx : execStmt code s st = .raise e s1)
    (hon : s1.onErr ≠ 0) (hh : s1.handling = false) (hj : lineIndex code s1.onErr = some j) :
    ∃ s', step fixed code dl s = .running s' ∧
      s'.run = true ∧ s'.pc = j ∧ s'.errNum = e ∧
      s'.errPos = (if s.run then .prog s.pc else .direct) ∧
      erlVal code s'.errPos = (if s.run then erlVal code (.prog s.pc) else 65535) ∧
      s'.handling = true ∧ s'.resume = some (s.run, s.pc) ∧
      s'.gosubs = s.gosubs ∧ s'.out = s.out ∧ s'.onErr = s1.onErr := by
  obtain ⟨hr, hp, hg, ho⟩ := raise_keeps hx
  have hstep : step fixed code dl s = .running
      { run := true, pc := j, flags := s1.flags, defs := s1.defs, g := s1.g, gosubs := s1.gosubs, onErr := s1.onErr,
        handling := true, resume := some (s1.run, s1.pc), errNum := e, errPos := curPos s1,
        softRaise := s1.softRaise, out := s1.out } := by
    simp only [step, hf, hx, trap, hon, hh, hj, ne_eq, not_false_eq_true, and_self, if_true]
  refine ⟨_, hstep, rfl, rfl, rfl, ?_, ?_, rfl, ?_, hg, ho, rfl⟩
  · simp [curPos, hr, hp]
  · simp only [curPos, hr, hp]; cases s.run <;> simp [erlVal]
  · simp [hr, hp]

/-- ERL inside the handler: for a line-structured program and a failure in statement k of line i,
    `PRINT ERR;ERL` as first statement of the handler prints the error code and the number of line i
    — for every line and every statement index of it. -/
theorem trap_then_print_err_erl (fixed : Bool) (p : List Line) (dl : List Stmt) (s s1 : St) (st : Stmt)
    (e j i k : Nat) (hi : i < p.length) (hk : k < p[i].stmts.length)
    (hrun : s.run = true) (hpc : s.pc = posOf p i k)
    (hf : fetch (flatten p) dl s = some st) (hx : execStmt (flatten p) s st = .raise e s1)
    (hon : s1.onErr ≠ 0) (hh : s1.handling = false) (hj : lineIndex (flatten p) s1.onErr = some j)
    (hprint : ((flatten p)[j]?).map (·.stmt) = some .printErr) :
    ∃ s' s'', step fixed (flatten p) dl s = .running s' ∧ step fixed (flatten p) dl s' = .running s'' ∧
      s''.out = .errerl e (p[i].num : Int) :: s.out ∧ s''.pc = j + 1 := by
  obtain ⟨s', hstep, hr', hpc', he', hpos', _, _, _, _, hout', _⟩ :=
    trap_sets_err_erl fixed (flatten p) dl s s1 st e j hf hx hon hh hj
  have hfetch : fetch (flatten p) dl s' = some .printErr := by simp [fetch, hr', hpc', hprint]
  refine ⟨s', _, hstep, by simp only [step, hfetch, execStmt, advance]; rfl, ?_, by simp [hpc']⟩
  simp only [hpos', hrun, if_true, hpc, erlVal, lineOf_flatten p i k hi hk, he', hout']

/-! ## RESUME -/

/-- RESUME (also RESUME 0): the pointer goes back to the START of the failing statement in the stream it
    failed in — that statement, and exactly that one, is executed next; the handler state is cleared,
    ERR is reset, `error_pos` (ERL) stays. -/
theorem resume_same (fixed : Bool) (code : List Instr) (dl : List Stmt) (s : St) (m : Bool) (p : Nat)
    (st : Stmt) (hst : st = .resume ∨ st = .resumeLine 0)
    (hf : fetch code dl s = some st) (hr : s.resume = some (m, p)) :
    step fixed code dl s =
      .running { s with run := m, pc := p, errNum := 0, handling := false, resume := none } := by
  rcases hst with rfl | rfl <;> simp [step, hf, execStmt, hr, resumeState]

/-- RESUME NEXT: the pointer goes to the statement after the failing one. -/
theorem resume_next (fixed : Bool) (code : List Instr) (dl : List Stmt) (s : St) (m : Bool) (p : Nat)
    (hf : fetch code dl s = some .resumeNext) (hr : s.resume = some (m, p)) :
    step fixed code dl s =
      .running { s with run := m, pc := p + 1, errNum := 0, handling := false, resume := none } := by
  simp [step, hf, execStmt, hr, resumeState]

/-- RESUME n: the pointer goes to the first statement of line n, in the program. -/
theorem resume_line (fixed : Bool) (code : List Instr) (dl : List Stmt) (s : St) (m : Bool) (p n j : Nat)
    (hn : n ≠ 0) (hf : fetch code dl s = some (.resumeLine n)) (hr : s.resume = some (m, p))
    (hj : lineIndex code n = some j) :
    step fixed code dl s =
      .running { s with run := true, pc := j, errNum := 0, handling := false, resume := none } := by
  simp [step, hf, execStmt, hr, resumeState, hn, hj]

/-- Round trip: an error trapped by a handler whose first statement is RESUME brings the machine back to
    the failing statement with nothing changed but ERR (reset to 0) and the remembered error position:
    RESUME re-executes exactly that statement, in the direct line as well as at any depth of GOSUB. -/
theorem trap_resume_roundtrip (fixed : Bool) (code : List Instr) (dl : List Stmt) (s : St) (st : Stmt)
    (e j : Nat) (hf : fetch code dl s = some st) (hx : execStmt code s st = .raise e s)
    (hon : s.onErr ≠ 0) (hh : s.handling = false) (hres : s.resume = none)
    (hj : lineIndex code s.onErr = some j) (hhandler : (code[j]?).map (·.stmt) = some .resume) :
    ∃ s', step fixed code dl s = .running s' ∧
      step fixed code dl s' = .running { s with errNum := 0, errPos := curPos s } := by
  refine ⟨_, by simp only [step, hf, hx, trap, hon, hh, hj, ne_eq, not_false_eq_true, and_self, if_true]; rfl, ?_⟩
  simp [step, fetch, hhandler, execStmt, resumeState, ← hh, ← hres]

/-- Round trip with RESUME NEXT: execution goes on with the statement after the failing one. -/
theorem trap_resume_next_roundtrip (fixed : Bool) (code : List Instr) (dl : List Stmt) (s : St) (st : Stmt)
    (e j : Nat) (hf : fetch code dl s = some st) (hx : execStmt code s st = .raise e s)
    (hon : s.onErr ≠ 0) (hh : s.handling = false) (hres : s.resume = none)
    (hj : lineIndex code s.onErr = some j) (hhandler : (code[j]?).map (·.stmt) = some .resumeNext) :
    ∃ s', step fixed code dl s = .running s' ∧
      step fixed code dl s' = .running { s with pc := s.pc + 1, errNum := 0, errPos := curPos s } := by
  refine ⟨_, by simp only [step, hf, hx, trap, hon, hh, hj, ne_eq, not_false_eq_true, and_self, if_true]; rfl, ?_⟩
  simp [step, fetch, hhandler, execStmt, resumeState, ← hh, ← hres]

/-- Where "the statement after it" is, for every statement index of every line: inside a line the next
    index of the same line; after the last statement of a line the first statement of the next line;
    after the last statement of the last line the end of the program (where the program ends without
    error once RESUME NEXT has cleared the handler state). -/
theorem resume_next_position (p : List Line) (i k : Nat) (hi : i < p.length) :
    (k + 1 < p[i].stmts.length → posOf p i k + 1 = posOf p i (k + 1)) ∧
    (k + 1 = p[i].stmts.length → posOf p i k + 1 = posOf p (i + 1) 0) ∧
    (k + 1 = p[i].stmts.length → i + 1 = p.length → posOf p i k + 1 = (flatten p).length) := by
  refine ⟨fun _ => by simp [posOf, Nat.add_assoc], fun h => ?_, fun h h2 => ?_⟩
  · rw [← posOf_next_line p i hi, ← h]; simp [posOf, Nat.add_assoc]
  · rw [← posOf_end p, ← h2, ← posOf_next_line p i hi, ← h]; simp [posOf, Nat.add_assoc]

theorem end_of_program_without_handler (fixed : Bool) (code : List Instr) (dl : List Stmt) (s : St)
    (hrun : s.run = true) (hpc : code.length ≤ s.pc) (hres : s.resume = none) :
    step fixed code dl s = .done { s with run := false } := by
  have : code[s.pc]? = none := List.getElem?_eq_none hpc
  simp [step, fetch, hrun, this, hres]

/-- the position of statement k of line i holds that statement and is inside line i; line n starts at
    `posOf p i 0` for the first non-empty line i numbered n (the target of RESUME n / ON ERROR GOTO n) -/
theorem positions_of_flatten (p : List Line) (i k : Nat) (hi : i < p.length) (hk : k < p[i].stmts.length) :
    ((flatten p)[posOf p i k]?).map (·.stmt) = some (p[i].stmts[k]) ∧
    lineOf (flatten p) (posOf p i k) = some p[i].num ∧
    ((∀ j (hj : j < i), (p[j]'(by omega)).stmts = [] ∨ (p[j]'(by omega)).num ≠ p[i].num) →
      lineIndex (flatten p) p[i].num = some (posOf p i 0)) :=
  ⟨stmt_flatten p i k hi hk, lineOf_flatten p i k hi hk,
   fun h => lineIndex_flatten p i hi (by intro h0; simp [h0] at hk) h⟩

/-! ## errors that are not trapped -/

/-- An error inside the handler is not trapped: the program stops with THAT error and its own position
    (message line = line of the statement that failed in the handler), the handler flag is reset and —
    in the repaired code — the resume position is forgotten. -/
theorem error_in_handler_stops (fixed : Bool) (code : List Instr) (dl : List Stmt) (s s1 : St) (st : Stmt)
    (e : Nat) (hf : fetch code dl s = some st) (hx : execStmt code s st = .raise e s1)
    (hh : s1.handling = true) :
    ∃ s', step fixed code dl s = .stopped e (if s.run then .prog s.pc else .direct) s' ∧
      s'.handling = false ∧ s'.run = false ∧ (fixed = true → s'.resume = none) ∧
      s'.errNum = (if e = E.stx then 0 else e) ∧ s'.errPos = (if s.run then .prog s.pc else .direct) ∧
      s'.out = s.out := by
  obtain ⟨hr, hp, _, ho⟩ := raise_keeps hx
  refine ⟨_, by simp only [step, hf, hx, trap, hh, curPos, hr, hp]; simp; rfl, ?_⟩
  simp [ho]
  intro h; simp [h]

/-- Without a handler (`on_error` None or 0) every error stops the program with its message and the
    position of the failing statement. -/
theorem untrapped_reports_line (fixed : Bool) (code : List Instr) (dl : List Stmt) (s s1 : St) (st : Stmt)
    (e : Nat) (hf : fetch code dl s = some st) (hx : execStmt code s st = .raise e s1)
    (hon : s1.onErr = 0) :
    ∃ s', step fixed code dl s = .stopped e (if s.run then .prog s.pc else .direct) s' ∧
      s'.run = false ∧ s'.errPos = (if s.run then .prog s.pc else .direct) ∧ s'.out = s.out := by
  obtain ⟨hr, hp, _, ho⟩ := raise_keeps hx
  refine ⟨_, by simp only [step, hf, hx, trap, hon, curPos, hr, hp]; simp; rfl, ?_⟩
  simp [ho]

/-- the line named in the message, for every statement index of every line of a program (line numbers
    are below 65535, as the tokeniser guarantees); in the direct line the message has no line -/
theorem message_line (p : List Line) (i k : Nat) (hi : i < p.length) (hk : k < p[i].stmts.length)
    (hnum : p[i].num < 65535) :
    msgLine (flatten p) (.prog (posOf p i k)) = some p[i].num ∧ msgLine (flatten p) .direct = none := by
  simp [msgLine, lineOf_flatten p i k hi hk, hnum]

/-- An untrapped fault inside a DEF FN body, called from statement k of line i (any line, any statement
    index; the DEF FN line is elsewhere): the program stops with that error and the message names line i
    — the line of the calling statement, not the DEF FN line. -/
theorem fn_error_names_calling_line (fixed : Bool) (p : List Line) (dl : List Stmt) (s : St)
    (ks : List Nat) (v e i k : Nat) (hi : i < p.length) (hk : k < p[i].stmts.length) (hnum : p[i].num < 65535)
    (hrun : s.run = true) (hpc : s.pc = posOf p i k) (hst : p[i].stmts[k] = .fnc ks v e)
    (hd : ks.all s.defs = true) (hv : s.flags v = false) (hon : s.onErr = 0) :
    ∃ s', step fixed (flatten p) dl s = .stopped e (.prog (posOf p i k)) s' ∧
      msgLine (flatten p) (.prog (posOf p i k)) = some p[i].num ∧
      erlVal (flatten p) s'.errPos = (p[i].num : Int) := by
  have hf : fetch (flatten p) dl s = some (.fnc ks v e) := by
    simp only [fetch, hrun, if_true, hpc, stmt_flatten p i k hi hk, hst]
  obtain ⟨s', h1, _, h3, _⟩ := untrapped_reports_line fixed (flatten p) dl s s (.fnc ks v e) e hf
    (raises_in_user_function _ s ks v e hd hv) hon
  simp only [hrun, if_true, hpc] at h1 h3
  exact ⟨s', h1, (message_line p i k hi hk hnum).1, by simp [h3, erlVal, lineOf_flatten p i k hi hk]⟩

/-- ON ERROR GOTO 0 inside the handler re-raises the trapped error: the program stops with the ORIGINAL
    error number and position, and trapping is off. -/
theorem on_error_goto_0_in_handler (fixed : Bool) (code : List Instr) (dl : List Stmt) (s : St)
    (hf : fetch code dl s = some (.onErr 0)) (hh : s.handling = true) :
    ∃ s', step fixed code dl s = .stopped s.errNum s.errPos s' ∧
      s'.onErr = 0 ∧ s'.handling = false ∧ s'.run = false ∧ (fixed = true → s'.resume = none) := by
  refine ⟨_, by simp only [step, hf, execStmt]; simp [hh, trap]; rfl, ?_⟩
  simp
  intro h; simp [h]

/-- ON ERROR GOTO 0 outside a handler just switches trapping off. -/
theorem on_error_goto_0_outside_handler (fixed : Bool) (code : List Instr) (dl : List Stmt) (s : St)
    (hf : fetch code dl s = some (.onErr 0)) (hh : s.handling = false) :
    step fixed code dl s = .running { s with pc := s.pc + 1, onErr := 0, softRaise := false } := by
  simp [step, hf, execStmt, hh, advance]

/-- RESUME (any form) while no error is being handled raises RESUME without error; the code switches
    trapping off first, so this error always reaches the prompt. -/
theorem resume_without_error (fixed : Bool) (code : List Instr) (dl : List Stmt) (s : St) (st : Stmt)
    (hst : st = .resume ∨ st = .resumeNext ∨ ∃ n, st = .resumeLine n)
    (hf : fetch code dl s = some st) (hr : s.resume = none) :
    ∃ s', step fixed code dl s = .stopped E.resume_without_error (curPos s) s' ∧
      s'.onErr = 0 ∧ s'.errNum = E.resume_without_error ∧ s'.out = s.out := by
  rcases hst with rfl | rfl | ⟨n, rfl⟩ <;>
    exact ⟨_, by simp only [step, hf, execStmt, hr, trap]; simp [curPos]; rfl, by simp [E.resume_without_error, E.stx]⟩

/-- A handler that runs off the end of the program: No RESUME, reported for the last line, never trapped. -/
theorem no_resume_at_end (fixed : Bool) (code : List Instr) (dl : List Stmt) (s : St)
    (hrun : s.run = true) (hpc : code.length ≤ s.pc) (hres : s.resume.isSome = true) :
    ∃ s', step fixed code dl s = .stopped E.no_resume (endPos code) s' ∧
      s'.handling = false ∧ (fixed = true → s'.resume = none) := by
  have : code[s.pc]? = none := List.getElem?_eq_none hpc
  refine ⟨_, by simp only [step, fetch, hrun, this, hres, trap]; simp; rfl, ?_⟩
  simp
  intro h; simp [h]

/-! ## "outside a handler" at the prompt: the invariant of the repaired mechanism -/

/-- states that occur in some history: typing direct lines at the prompt and running them -/
inductive Reachable (code : List Instr) : St → Prop
  | init : Reachable code St.init
  | prompt (s : St) : Reachable code s → Reachable code { s with run := false, pc := 0, out := [] }
  | running (dl : List Stmt) (s s' : St) : Reachable code s → step true code dl s = .running s' → Reachable code s'
  | done (dl : List Stmt) (s s' : St) : Reachable code s → step true code dl s = .done s' → Reachable code s'
  | stopped (dl : List Stmt) (s s' : St) (e : Nat) (pos : EPos) :
      Reachable code s → step true code dl s = .stopped e pos s' → Reachable code s'

/-- In the repaired mechanism, in every state of every history (any program, any direct lines typed at
    the prompt, errors inside handlers included): outside a handler (`error_handle_mode` off) no resume
    position is held — and the trap line, if any, exists. -/
theorem outside_handler_no_resume (code : List Instr) (s : St) (h : Reachable code s) :
    (s.handling = false → s.resume = none) ∧ (s.onErr ≠ 0 → (lineIndex code s.onErr).isSome = true) := by
  have hinv : Inv code s := by
    induction h with
    | init => exact ⟨by simp [St.init], by simp [St.init]⟩
    | prompt s _ ih => exact ⟨ih.1, ih.2⟩
    | running dl s s' _ hstep ih => have := step_inv code dl s ih; rw [hstep] at this; exact this
    | done dl s s' _ hstep ih => have := step_inv code dl s ih; rw [hstep] at this; exact this
    | stopped dl s s' e pos _ hstep ih => have := step_inv code dl s ih; rw [hstep] at this; exact this
  refine ⟨fun hh => ?_, hinv.2⟩
  cases hr : s.resume with
  | none => rfl
  | some x => have := hinv.1 (by simp [hr]); simp [hh] at this

/-- Hence: at any point of any history of the repaired mechanism, RESUME executed while no error is
    being handled (`error_handle_mode` off — in particular at the prompt after the program was stopped by
    an error inside its handler) raises RESUME without error. -/
theorem resume_outside_handler (code : List Instr) (dl : List Stmt) (s : St) (st : Stmt)
    (hreach : Reachable code s) (hh : s.handling = false)
    (hst : st = .resume ∨ st = .resumeNext ∨ ∃ n, st = .resumeLine n)
    (hf : fetch code dl s = some st) :
    ∃ s', step true code dl s = .stopped E.resume_without_error (curPos s) s' :=
  let ⟨s', h, _⟩ := resume_without_error true code dl s st hst hf ((outside_handler_no_resume code s hreach).1 hh)
  ⟨s', h⟩

/-! ## the defect of the unrepaired mechanism, and non-vacuity -/

/-- 10 ON ERROR GOTO 100 / 20 ERROR 5 / 30 PRINT 1:END / 100 ERROR 7 -/
def cexProg : List Line :=
  [⟨10, [.onErr 100]⟩, ⟨20, [.error 5]⟩, ⟨30, [.mark 1, .end_]⟩, ⟨100, [.error 7]⟩]

/-- 10 ON ERROR GOTO 100 / 20 ERROR 5 / 30 GOTO 200 / 100 ERROR 7 / 200 PRINT 1 -/
def cexProg2 : List Line :=
  [⟨10, [.onErr 100]⟩, ⟨20, [.error 5]⟩, ⟨30, [.goto 200]⟩, ⟨100, [.error 7]⟩, ⟨200, [.mark 1]⟩]

/-- Before the repair: the program is stopped by the error inside its handler ("Out of memory in 100"),
    the handler flag is reset but the resume position stays … -/
theorem stale_resume_counterexample :
    let s := (execute false (flatten cexProg) 100 St.init [.run]).1
    s.handling = false ∧ s.resume = some (true, 1) := by
  decide

/-- … so RESUME NEXT typed at the prompt (outside any handler) continues the stopped program instead of
    raising RESUME without error; `outside_handler_no_resume` / `resume_outside_handler` fail for
    `fixed = false`. -/
theorem resume_after_handler_error_counterexample :
    session false (flatten cexProg) 100 St.init [[.run], [.resumeNext]] =
      [([], .err 7 (some 100)), ([.mark 1], .ok)] ∧
    session true (flatten cexProg) 100 St.init [[.run], [.resumeNext]] =
      [([], .err 7 (some 100)), ([], .err 20 none)] := by
  decide

/-- … and a later run to the end of the program (GOTO 200 at the prompt) raised No RESUME. -/
theorem no_resume_after_handler_error_counterexample :
    session false (flatten cexProg2) 100 St.init [[.run], [.goto 200]] =
      [([], .err 7 (some 100)), ([.mark 1], .err 19 (some 200))] ∧
    session true (flatten cexProg2) 100 St.init [[.run], [.goto 200]] =
      [([], .err 7 (some 100)), ([.mark 1], .ok)] := by
  decide

/-- 10 ON ERROR GOTO 100:PRINT 1:<fails with 9 while F0%=0>:PRINT 2 / 20 GOSUB 30:END
    / 30 <fails with 13 while F1%=0>:PRINT 3:RETURN / 100 PRINT ERR;ERL:F0%=1:ON ERROR GOTO 200:RESUME
    / 200 PRINT ERR;ERL:F1%=1:ON ERROR GOTO 300:RESUME / 300 PRINT ERR;ERL:F2%=1:RESUME -/
def demo : List Line :=
  [⟨10, [.onErr 100, .mark 1, .cfault 0 9, .mark 2]⟩, ⟨20, [.gosub 30, .end_]⟩,
   ⟨30, [.cfault 1 13, .mark 3, .ret]⟩, ⟨100, [.printErr, .setFlag 0, .onErr 200, .resume]⟩,
   ⟨200, [.printErr, .setFlag 1, .onErr 300, .resume]⟩, ⟨300, [.printErr, .setFlag 2, .resume]⟩]

/-- the hypotheses of `trap_sets_err_erl` / `trap_then_print_err_erl` / `trap_resume_roundtrip` are
    satisfiable: the state in front of the failing third statement of line 10 of `demo` -/
example :
    let s : St := { St.init with run := true, pc := 2, onErr := 100, softRaise := true, out := [.mark 1] }
    fetch (flatten demo) [] s = some (.cfault 0 9) ∧ execStmt (flatten demo) s (.cfault 0 9) = .raise 9 s ∧
      s.onErr ≠ 0 ∧ s.handling = false ∧ s.resume = none ∧ lineIndex (flatten demo) s.onErr = some 9 ∧
      ((flatten demo)[9]?).map (·.stmt) = some .printErr ∧ s.pc = posOf demo 0 2 :=
  ⟨rfl, rfl, by decide, rfl, rfl, rfl, rfl, rfl⟩

/-- whole runs of the repaired mechanism: RESUME re-executes the failing statement (which passes once the
    handler has set the flag) in the main line, inside a GOSUB and in the direct line (ERL 65535); after
    RESUME, ERR reads 0 and ERL is kept; RESUME at the prompt raises RESUME without error -/
example :
    session true (flatten demo) 1000 St.init [[.run], [.mark 7, .cfault 2 6, .mark 8], [.printErr], [.resume]] =
      [([.mark 1, .errerl 9 10, .mark 2, .errerl 13 30, .mark 3], .ok),
       ([.mark 7, .errerl 6 65535, .mark 8], .ok),
       ([.errerl 0 65535], .ok),
       ([], .err 20 none)] := by
  decide +kernel

end PcbV.C21
