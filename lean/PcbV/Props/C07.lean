import PcbV.Lemmas.DecimalText
import PcbV.Lemmas.DecimalScan
import PcbV.Lemmas.DecimalBound
import PcbV.Lemmas.DecimalChain
/-
  C07 — Decimal conversion is accurate in both directions.

  `PcbV.Decimal` transcribes `numbers.py: Float.to_decimal / to_str / from_decimal, str_to_decimal,
  Integer.to_str / from_str` and `values.py: Values.from_repr, to_repr`.  Text is a list of ASCII
  codes (48..57 digits, 46 '.', 43 '+', 45 '-', 69/68 'E'/'D', 33 '!', 35 '#').
-/
namespace PcbV.C07
open PcbV PcbV.Mbf PcbV.Decimal

/-! ## 1. the type of a literal (pure scanning logic) -/

/-- the mantissa of a literal: an optional sign, integer digits, and either nothing or a point and
    fractional digits -/
structure Mant where
  sg : Bytes
  ip : Bytes
  point : Bool
  fp : Bytes
  hsg : sg = [] ∨ sg = [43] ∨ sg = [45]
  hip : ∀ c ∈ ip, IsDig c
  hfp : ∀ c ∈ fp, IsDig c
  hpt : point = false → fp = [] ∧ ip ≠ []

def Mant.text (m : Mant) : Bytes := m.sg ++ m.ip ++ (if m.point then 46 :: m.fp else [])

/-- the scanner state after the mantissa of a literal -/
def Mant.After (m : Mant) (st : Scan) : Prop :=
  st.foundSign = true ∧ st.foundExp = false ∧ st.isDouble = false ∧ st.isSingle = false ∧
  st.neg = (m.sg == [45]) ∧ st.mantissa = manFold 0 (m.ip ++ m.fp) ∧ st.exp10 = -(m.fp.length : Int) ∧
  st.exponent = 0 ∧ st.expNeg = false ∧ st.foundExpSign = false ∧
  st.digits - st.zeros = sigCount m.ip m.fp

/-- scanning the mantissa of a literal leaves the scanner in the state `After` -/
theorem scan_mantissa (a : Bool) (m : Mant) (rest : Bytes) :
    ∃ st, m.After st ∧ scanLoop a (m.text ++ rest) {} = scanLoop a rest st := by
  obtain ⟨sg, ip, point, fp, hsg, hip, hfp, hpt⟩ := m
  simp only [Mant.text, Mant.After]
  -- the state after the integer digits
  let s0 : Scan := { foundSign := true, neg := sg == [45] }
  have hint := fold_int ip s0 rfl rfl hip
  -- first character: a digit or the point
  have hstart : ∀ tl, ip ≠ [] → scanLoop a (sg ++ (ip ++ tl)) {} = scanLoop a tl (ip.foldl digitStep s0) := by
    intro tl hne
    cases ip with
    | nil => exact absurd rfl hne
    | cons c t =>
      have hc := hip c (by simp)
      have hc' := hc
      unfold IsDig at hc'
      rw [List.cons_append, scan_start a sg c (t ++ tl) hsg (dig_not_blank hc) (by omega) (by omega)]
      exact scanLoop_digits a (c :: t) tl s0 rfl rfl hip
  cases point with
  | false =>
    obtain ⟨hfp0, hipne⟩ := hpt rfl
    subst hfp0
    refine ⟨ip.foldl digitStep s0, ?_, ?_⟩
    · rw [hint]
      refine ⟨rfl, rfl, rfl, rfl, rfl, ?_, ?_, rfl, rfl, rfl, ?_⟩
      · simp [s0]
      · simp [s0]
      · exact sig_int ip
    · have := hstart rest hipne
      simpa [List.append_assoc] using this
  | true =>
    -- state after the point
    let s1 : Scan := { (ip.foldl digitStep s0) with foundPoint := true }
    have hs1 : scanLoop a (sg ++ (ip ++ 46 :: (fp ++ rest))) {} = scanLoop a (fp ++ rest) s1 := by
      cases ip with
      | nil =>
        have hb : isBlank 46 = false := by simp [isBlank, PcbV.Gen.DecConsts.blanks]
        rw [List.nil_append, scan_start a sg 46 (fp ++ rest) hsg hb (by decide) (by decide)]
        simp only [scanLoop, step_point a { foundSign := true, neg := sg == [45] } rfl rfl]
        rfl
      | cons c t =>
        rw [hstart (46 :: (fp ++ rest)) (by simp)]
        have f1 : ((c :: t).foldl digitStep s0).foundSign = true := by rw [hint]
        have f2 : ((c :: t).foldl digitStep s0).foundExp = false := by rw [hint]
        simp only [scanLoop, step_point a _ f1 f2]
        rfl
    have hfrac := fold_frac fp s1 rfl hfp
    refine ⟨fp.foldl digitStep s1, ?_, ?_⟩
    · rw [hfrac]
      simp only [s1, hint]
      refine ⟨rfl, rfl, rfl, rfl, rfl, ?_, ?_, rfl, rfl, rfl, ?_⟩
      · exact manFold_append 0 ip fp
      · simp [s0]
      · exact sig_frac ip fp hip
    · have e : (sg ++ ip ++ (if true = true then 46 :: fp else [])) ++ rest = sg ++ (ip ++ 46 :: (fp ++ rest)) := by
        simp [List.append_assoc]
      rw [e, hs1]
      exact scanLoop_digits a fp rest s1 (by simp only [s1]; rw [hint]) (by simp only [s1]; rw [hint]) hfp


/-- the value part of what the scanner returns for a mantissa `m` -/
def Mant.value (m : Mant) : Int :=
  if m.sg == [45] then -(manFold 0 (m.ip ++ m.fp) : Int) else (manFold 0 (m.ip ++ m.fp) : Int)

/-- **Type of a literal** (`str_to_decimal`, the flag that makes `from_repr` build a Double): for a
    mantissa `m` (sign, digits, optional point and fraction digits) followed by
    * nothing: Double iff more than 7 significant digits; the value is the digit string as an
      integer with `exp10 = -(number of fraction digits)`;
    * `!…`: Single, however many digits; * `#…`: Double;
    * an exponent letter `E`/`D`/`e`/`d` and anything: Double iff the letter is `D`/`d` or there are
      more than 7 significant digits (unless an ASCII separator makes the whole text read as 0). -/
theorem literal_type_spec (a : Bool) (m : Mant) (tail : Bytes) (r : Bool × Int × Int)
    (h : strToDecimal (m.text ++ tail) a = some r) :
    (tail = [] → r = (decide (sigCount m.ip m.fp > 7), m.value, -(m.fp.length : Int))) ∧
    (∀ t, tail = 33 :: t → r = (false, m.value, -(m.fp.length : Int))) ∧
    (∀ t, tail = 35 :: t → r = (true, m.value, -(m.fp.length : Int))) ∧
    (∀ l t, tail = l :: t → (l = 68 ∨ l = 69 ∨ l = 100 ∨ l = 101) →
      r = (false, 0, 0) ∨ (r.1 = (decide (upper l = 68) || decide (sigCount m.ip m.fp > 7)) ∧ r.2.1 = m.value)) := by
  obtain ⟨st, hA, hscan⟩ := scan_mantissa a m tail
  obtain ⟨a1, a2, a3, a4, a5, a6, a7, a8, a9, a10, a11⟩ := hA
  unfold strToDecimal at h
  rw [hscan] at h
  have hval : (if st.neg = true then -(st.mantissa : Int) else (st.mantissa : Int)) = m.value := by
    rw [a5, a6]; rfl
  refine ⟨?_, ?_, ?_, ?_⟩
  · intro ht
    subst ht
    simp only [scanLoop, Option.some.injEq] at h
    rw [← h]
    simp only [finish, a3, a4, a7, a8, a9, a11, hval]
    by_cases hc : sigCount m.ip m.fp > 7 <;> simp [hc]
  · intro t ht
    subst ht
    simp only [scanLoop, (step_sigil a st a1 a2).1, Option.some.injEq] at h
    rw [← h]
    simp [finish, a3, a7, a8, a9, hval]
  · intro t ht
    subst ht
    simp only [scanLoop, (step_sigil a st a1 a2).2, Option.some.injEq] at h
    rw [← h]
    simp [finish, a7, a8, a9, hval]
  · intro l t ht hl
    subst ht
    simp only [scanLoop, step_expletter a st l a1 a2 hl] at h
    cases hfin : scanLoop a t { st with foundExp := true, isDouble := upper l == 68 } with
    | zero => rw [hfin] at h; simp only [Option.some.injEq] at h; left; exact h.symm
    | nonnum => rw [hfin] at h; simp at h
    | fin st' =>
      rw [hfin] at h
      simp only [Option.some.injEq] at h
      have k := scanLoop_exp_keep a t _ st' (by simpa using a1) rfl hfin
      obtain ⟨k1, k2, k3, k4, k5, k6, k7, k8, k9⟩ := k
      simp only at k3 k4 k5 k6 k7 k8
      right
      rw [← h]
      simp only [finish, k3, k4, k5, k6, k7, k8, a4, a11, hval]
      by_cases hc : sigCount m.ip m.fp > 7 <;> by_cases hu : upper l = 68 <;> simp [hc, hu]


/-! ## 2. `from_repr`: integer first, then float of the scanned type -/

/-- the word `from_repr` works on: leading spaces / line feeds removed, upper-cased -/
def prep (word : Bytes) : Bytes := (lstrip (fun c => c == 32 || c == 10) word).map upper

/-- a word that is (after stripping blanks at both ends) a non-empty digit string with value
    ≤ 32767 becomes that Integer; -/
theorem from_repr_integer_first (word : Bytes) (a : Bool) (n : Nat)
    (hamp : (prep word).take 1 ≠ [38]) (hi : integerFromStr (prep word) = .ok n) :
    fromRepr word a = .val (.int n) ∧ n ≤ 32767 ∧
      (strip isBlank (prep word)).all isDigit = true ∧ digitsVal 10 (strip isBlank (prep word)) = n := by
  have hne : (prep word).isEmpty = false := by
    cases h : prep word with
    | nil => rw [h] at hi; simp [integerFromStr, strip] at hi
    | cons c t => rfl
  have h2 : (prep word).take 2 ≠ [38, 72] := by
    intro h; apply hamp
    cases hp : prep word with
    | nil => rw [hp] at h; simp at h
    | cons c t => rw [hp] at h; cases t <;> simp_all
  refine ⟨?_, ?_⟩
  · unfold prep at hne h2 hamp hi
    unfold fromRepr
    generalize List.map upper (lstrip (fun c => c == 32 || c == 10) word) = w at *
    simp only [hne, Bool.false_eq_true, if_false, h2, hamp, hi]
  · unfold integerFromStr at hi
    by_cases h1 : (strip isBlank (prep word)).all isDigit = true
    · by_cases h2 : (strip isBlank (prep word)).isEmpty = true
      · simp [h1, h2] at hi
      · by_cases h3 : digitsVal 10 (strip isBlank (prep word)) ≤ 32767
        · simp only [h1, h2, h3, Bool.not_true, Bool.false_eq_true, if_false, if_true, IntParse.ok.injEq] at hi
          exact ⟨by omega, h1, hi⟩
        · simp [h1, h2, h3] at hi
    · simp [h1] at hi

/-- every other word that does not start with `&` becomes a float whose type is the scanner's flag:
    Double if `str_to_decimal` says so, else Single (value, or Overflow with the value supplied);
    a non-numeric character with `allow_nonnum = False` is Illegal function call -/
theorem from_repr_float_type (word : Bytes) (a : Bool)
    (hne : prep word ≠ []) (hamp : (prep word).take 1 ≠ [38])
    (hi : ∀ n, integerFromStr (prep word) ≠ .ok n) :
    match strToDecimal (prep word) a with
    | none => fromRepr word a = .err PcbV.Gen.E.ifc
    | some (true, m, e) => fromRepr word a = ofFR .dbl (fromDecimal double m e)
    | some (false, m, e) => fromRepr word a = ofFR .sgl (fromDecimal single m e) := by
  have hne' : (prep word).isEmpty = false := by
    cases h : prep word with
    | nil => exact absurd h hne
    | cons c t => rfl
  have h2 : (prep word).take 2 ≠ [38, 72] := by
    intro h; apply hamp
    cases hp : prep word with
    | nil => rw [hp] at h; simp at h
    | cons c t => rw [hp] at h; cases t <;> simp_all
  unfold prep at hne' h2 hamp hi ⊢
  unfold fromRepr
  generalize List.map upper (lstrip (fun c => c == 32 || c == 10) word) = w at *
  simp only [hne', Bool.false_eq_true, if_false, h2, hamp]
  cases hint : integerFromStr w with
  | ok n => exact absurd hint (hi n)
  | notInt =>
    cases hs : strToDecimal w a with
    | none => simp
    | some r => obtain ⟨d, m, e⟩ := r; cases d <;> simp
  | overflow =>
    cases hs : strToDecimal w a with
    | none => simp
    | some r => obtain ⟨d, m, e⟩ := r; cases d <;> simp

theorem ofFR_type (mk : F → Num) (r : FR) : ∃ x, ofFR mk r = .val (mk x) ∨ ∃ c, ofFR mk r = .softErr c (mk x) := by
  cases r with
  | ok x => exact ⟨x, Or.inl rfl⟩
  | error e => obtain ⟨c, x⟩ := e; exact ⟨x, Or.inr ⟨c, rfl⟩⟩


/-! ## 3. printing: digit bound, notation -/

/-- the two formats of the current source satisfy the numeric facts the bound needs -/
theorem lim_facts : LimOK single ∧ LimOK double := ⟨single_lim, double_lim⟩

/-- **At most `digits` (7 / 16) significant digits**: whenever `to_decimal(self.digits)` of a stored
    value returns, its mantissa is below `10^digits`, for any format with the mask shapes and limit
    constants of the current source (`lim_facts`).  The two loops are followed through their
    invariants (`≤ lim_top` after the dividing loop and the first carry, `≤ lim_top` + a carry byte
    below one half through the multiplying loop, `≤ 10^digits` after the final rounding, `< 10^digits`
    after the repair of the extra-digit carry). -/
theorem digits_bound (f : Fmt) (hf : f.WF) (hl : LimOK f) (x : F) (hx : x.Valid f) (m e : Int)
    (h : toDecimal f x f.digits = some (m, e)) : m.natAbs < 10 ^ f.digits :=
  toDecimal_lt f hf hl x hx m e h

/-- … so the digit string that `to_str` lays out has at most `digits` characters, all of them digits,
    and its value is the mantissa without its trailing zeros -/
theorem digits_bound_text (f : Fmt) (hf : f.WF) (hl : LimOK f) (x : F) (hx : x.Valid f) (m e : Int)
    (h : toDecimal f x f.digits = some (m, e)) :
    (rstrip0 (getDigits m f.digits)).length ≤ f.digits ∧ ∀ c ∈ rstrip0 (getDigits m f.digits), IsDig c := by
  have hb := digits_bound f hf hl x hx m e h
  obtain ⟨_, hlen, hdig, hiff⟩ := getDigits_ok m f.digits
  have hL : (getDigits m f.digits).length ≤ f.digits := (hiff f.digits hl.dig1 (Nat.le_refl _)).2 hb
  constructor
  · unfold rstrip0
    rw [List.length_reverse]
    have := (List.dropWhile_sublist (fun x => x == 48) (l := (getDigits m f.digits).reverse)).length_le
    rw [List.length_reverse] at this
    omega
  · intro c hc
    unfold rstrip0 at hc
    have := (List.dropWhile_sublist _).subset (List.mem_reverse.1 hc)
    exact hdig c (List.mem_reverse.1 this)

/-- the unrepaired `to_decimal` did return a 17-digit mantissa for doubles just below a power of ten
    (`lim_top` is 10^16 − 0.25 and the final rounding is half-up): the pattern 0C 20 F4 27 8F CB 4E DA
    (≈ 1D+27 − 3 ulp) gives mantissa 10^16, which `to_str` printed as `1D+26` -/
theorem digits_bound_old_counterexample :
    ¬ (∀ x : F, x.Valid double → ∀ m e, toDecimalOld double x 16 = some (m, e) → m.natAbs < 10 ^ 16) := by
  intro hall
  have := hall ⟨0x4ECB8F27F4200C, 0xDA⟩ (by decide) 10000000000000000 11 (by decide +kernel)
  revert this
  decide

/-- the same pattern through `to_str`: old `1D+26`, repaired `1D+27` -/
theorem to_str_old_counterexample :
    floatToStrOld dbl ⟨0x4ECB8F27F4200C, 0xDA⟩ false false = some [49, 68, 43, 50, 54] ∧
    floatToStr dbl ⟨0x4ECB8F27F4200C, 0xDA⟩ false false = some [49, 68, 43, 50, 55] := by
  constructor <;> decide +kernel

/-- **Notation**: a non-zero value is laid out from its digit string `ds` (mantissa without trailing
    zeros) and `E = exp10 + digits − 1` (the exponent if the point follows the first digit):
    scientific iff `E > digits − 1` or `len ds − E > digits + 1`; scientific is
    `d[.ddd]` + exponent letter + sign + at least two exponent digits; otherwise fixed notation. -/
theorem notation_spec (nf : NumFmt) (x : F) (hx : x.isZero = false) (ls ts : Bool) (s : Bytes)
    (h : floatToStr nf x ls ts = some s) :
    ∃ m e10, toDecimal nf.fmt x nf.fmt.digits = some (m, e10) ∧
      let ds := rstrip0 (getDigits m nf.fmt.digits)
      let E : Int := e10 + nf.fmt.digits - 1
      let sign : Bytes := if isNeg nf.fmt x then [45] else if ls then [32] else []
      let sci := E > (nf.fmt.digits : Int) - 1 ∨ (ds.length : Int) - E > nf.fmt.digits + 1
      (sci → s = sign ++ (ds.take 1 ++ (if ds.length > 1 then 46 :: ds.drop 1 else []) ++
                [nf.expSign] ++ [if E < 0 then 45 else 43] ++ getDigits E 2)) ∧
      (¬ sci → s = sign ++ decimalNotation nf ds E ts false false) := by
  unfold floatToStr floatToStrWith at h
  simp only [hx, Bool.false_eq_true, if_false] at h
  cases hd : toDecimal nf.fmt x nf.fmt.digits with
  | none => rw [hd] at h; simp at h
  | some r =>
    obtain ⟨m, e10⟩ := r
    rw [hd] at h
    refine ⟨m, e10, rfl, ?_⟩
    simp only at h ⊢
    constructor
    · intro hs
      rw [if_pos hs] at h
      simp only [Option.some.injEq] at h
      rw [← h]
      by_cases hl : 1 < (rstrip0 (getDigits m nf.fmt.digits)).length <;> simp [scientificNotation, hl]
    · intro hs
      rw [if_neg hs] at h
      simp only [Option.some.injEq] at h
      exact h.symm

/-- the exponent field: at least two characters, all digits, reading back as `|E|` -/
theorem exponent_field (E : Int) :
    2 ≤ (getDigits E 2).length ∧ (∀ c ∈ getDigits E 2, IsDig c) ∧ digitsVal 10 (getDigits E 2) = E.natAbs := by
  obtain ⟨a, b, c, _⟩ := getDigits_ok E 2
  exact ⟨b, c, a⟩

/-- fixed notation of a digit string, spelled out: `ds` followed by zeros up to the units place; or
    `ds` split by the point; or `.`, zeros, `ds`.  The type sign follows when asked for, except after
    a fraction of a Single (`1.5` but `1.5#`). -/
theorem fixed_notation_spec (nf : NumFmt) (ds : Bytes) (hds : ∀ c ∈ ds, IsDig c) (E : Int) (ts : Bool) :
    let sig : Bytes := if ts then [nf.sigil] else []
    (E + 1 ≥ ds.length → decimalNotation nf ds E ts false false =
        ds ++ List.replicate ((E + 1).toNat - ds.length) 48 ++ sig) ∧
    (E + 1 < ds.length → E + 1 > 0 → decimalNotation nf ds E ts false false =
        ds.take (E + 1).toNat ++ [46] ++ ds.drop (E + 1).toNat ++ (if sig = [35] then sig else [])) ∧
    (E + 1 ≤ 0 → E + 1 < ds.length → decimalNotation nf ds E ts false false =
        [46] ++ List.replicate (-(E + 1)).toNat 48 ++ ds ++ (if sig = [35] then sig else [])) := by
  have hno : ∀ l : Bytes, (∀ c ∈ l, IsDig c) → l.contains 46 = false := by
    intro l hl
    cases hc : l.contains 46 with
    | false => rfl
    | true =>
      have := hl 46 (by simpa using hc)
      unfold IsDig at this; omega
  unfold decimalNotation
  refine ⟨?_, ?_, ?_⟩
  · intro h1
    have hz : (ds ++ List.replicate ((E + 1).toNat - ds.length) 48).contains 46 = false := by
      apply hno
      intro c hc
      rcases List.mem_append.1 hc with hc | hc
      · exact hds c hc
      · have := List.eq_of_mem_replicate hc; unfold IsDig; omega
    simp only [h1, if_true, Bool.false_eq_true, if_false, hz, Bool.not_false, Bool.true_or]
  · intro h1 h2
    have : ¬ (E + 1 ≥ ds.length) := by omega
    simp only [this, if_false, h2, if_true, Bool.false_eq_true]
    have hc : (ds.take (E + 1).toNat ++ [46] ++ ds.drop (E + 1).toNat).contains 46 = true := by simp
    simp only [hc, Bool.not_true, Bool.false_or, beq_iff_eq]
    by_cases hsg : (if ts = true then [nf.sigil] else []) = [35] <;> simp [hsg]
  · intro h1 h2
    have h3 : ¬ (E + 1 ≥ ds.length) := by omega
    have h4 : ¬ (E + 1 > 0) := by omega
    simp only [h3, h4, if_false]
    have hc : ([46] ++ List.replicate (-(E + 1)).toNat 48 ++ ds).contains 46 = true := by simp
    simp only [hc, Bool.not_true, Bool.false_or, beq_iff_eq]
    by_cases hsg : (if ts = true then [nf.sigil] else []) = [35] <;> simp [hsg]


/-! ## 4. exact integers -/

/-- **Integers print as their exact digits**: the text of a 16-bit integer is a sign (`-`, or the
    leading space when asked for) and the decimal digits of its magnitude: digit characters, no
    leading zero, value equal to the magnitude, `k` digits iff the magnitude is below `10^k` -/
theorem int_exact_print (w : Nat) (ls : Bool) :
    integerToStr w ls =
      (if s16 w < 0 then [45] else if ls then [32] else []) ++ decStr (s16 w).natAbs ∧
    TextOK (s16 w).natAbs (decStr (s16 w).natAbs) := by
  refine ⟨?_, decStr_ok _⟩
  unfold integerToStr intStr
  by_cases hn : s16 w < 0
  · simp [hn]
  · have r := decStr_ok (s16 w).natAbs
    have hh : (decStr (s16 w).natAbs).head? ≠ some 45 := by
      cases hs : decStr (s16 w).natAbs with
      | nil => simp
      | cons c t =>
        have := r.digits c (by rw [hs]; simp)
        simp; omega
    by_cases hl : ls = true <;> simp [hn, hl, hh]

/-- … **and parse back to the same Integer** (non-negative values; `from_repr` sees the sign of a
    negative number as a non-digit and builds the Single of the same value, see below) -/
theorem int_exact_parse (w : Nat) (hw : w < 32768) (ls a : Bool) :
    fromRepr (integerToStr w ls) a = .val (.int w) := by
  have hs : s16 w = (w : Int) := by unfold s16; have : w % 65536 = w := by omega
                                    simp [this]; omega
  have r := decStr_ok w
  have hd : ∀ c ∈ decStr w, IsDig c := r.digits
  obtain ⟨htext, _⟩ := int_exact_print w ls
  rw [hs] at htext
  simp only [Int.natAbs_natCast] at htext
  have hneg : ¬ ((w : Int) < 0) := by omega
  simp only [hneg, if_false] at htext
  have hprep : prep (integerToStr w ls) = decStr w := by
    rw [htext]
    unfold prep lstrip
    have hp : ∀ c, IsDig c → (c == 32 || c == 10) = false := by
      intro c hc; unfold IsDig at hc; simp; omega
    by_cases hl : ls = true
    · simp only [hl, if_true, List.singleton_append, List.dropWhile_cons]
      simp only [beq_self_eq_true, Bool.true_or, if_true]
      rw [dropWhile_digits _ hp _ hd, map_upper_digits _ hd]
    · simp only [hl, Bool.false_eq_true, if_false, List.nil_append]
      rw [dropWhile_digits _ hp _ hd, map_upper_digits _ hd]
  have hint : integerFromStr (decStr w) = .ok w := by
    unfold integerFromStr
    rw [strip_digits _ hd]
    have hall : (decStr w).all isDigit = true := by
      rw [List.all_eq_true]; intro c hc; exact (isDigit_iff c).2 (hd c hc)
    have hne : (decStr w).isEmpty = false := by
      cases h : decStr w with
      | nil => exact absurd h r.nonempty
      | cons c t => rfl
    simp [hall, hne, r.val]; omega
  have hamp : (prep (integerToStr w ls)).take 1 ≠ [38] := by
    rw [hprep]
    cases h : decStr w with
    | nil => simp
    | cons c t =>
      have := hd c (by rw [h]; simp)
      unfold IsDig at this
      simp; omega
  exact (from_repr_integer_first _ a w hamp (by rw [hprep]; exact hint)).1


/-- **Exact integers in the float types** (statement; checked by the oracle and the correspondence
    only): an integer below `10^digits` stored in a Single/Double prints as its exact digits.  (From
    `10^digits` up to the exact range 2^24 / 2^56 the `digits` significant digits are shown in
    scientific notation; exactness of `from_int` itself is `PcbV.Mbf.fromInt_exact`.)  The proof would
    need `_mul10_den` to be exact on every mantissa whose product still fits; not done. -/
def FloatIntPrintExact (nf : NumFmt) : Prop :=
  ∀ n : Nat, 0 < n → n < 10 ^ nf.fmt.digits →
    ∀ x, fromInt nf.fmt n = .ok x → floatToStr nf x false false = some (decStr n)

example : floatToStr sng (unFR (fromInt single 9999999)) false false = some (decStr 9999999) := by decide +kernel
example : floatToStr sng (unFR (fromInt single 1000000)) false false = some (decStr 1000000) := by decide +kernel
example : floatToStr sng (unFR (fromInt single 32768)) false false = some (decStr 32768) := by decide +kernel
example : floatToStr dbl (unFR (fromInt double 9999999999999999)) false false = some (decStr 9999999999999999) := by
  decide +kernel
example : floatToStr dbl (unFR (fromInt double 65536)) false false = some (decStr 65536) := by decide +kernel

/-! ## 5. the zero mantissa (defect repaired), and the error bounds -/

/-- a literal whose digits are all zero is zero whatever its exponent … -/
theorem zero_mantissa (f : Fmt) (e : Int) : fromDecimal f 0 e = .ok zero := by simp [fromDecimal]

/-- … which the unrepaired `from_decimal` got wrong: `0E1` became the Single 00 00 20 03
    (1.469368E-38), because multiplying the denormalised zero `(exp 0, man 0x80000000)` by ten
    adds `(1, man)` and `(3, man)`, neither of which `_add_den` takes for zero -/
theorem zero_mantissa_old_counterexample :
    ¬ (∀ e : Int, fromDecimalOld single 0 e = .ok zero) := by
  intro hall
  have := hall 1
  revert this
  decide +kernel

theorem zero_mantissa_old_value : fromDecimalOld single 0 1 = .ok ⟨0x200000, 3⟩ := by decide +kernel


/-- 10^k for an integer exponent, as a rational -/
def pow10 (k : Int) : Rat := if k ≥ 0 then (10 : Rat) ^ k.toNat else 1 / (10 : Rat) ^ (-k).toNat

/-- **Printing error bound** (statement; correspondence-only over the whole exponent range): the
    decimal `m·10^e` that `to_decimal` returns is less than one unit of its last digit away from the
    stored value.  The error of the up to 39 chained `_div10_den` / 55 chained `_mul10_den` steps on a
    mantissa with one extra byte is what accumulates; proved are the digit bound and the error of the
    two scaling loops (`print_scaling_partial`), not yet the two carries and the final rounding.
    Worst case seen by the check: 0.76 (Single) / 0.625 (Double) units over 10^6 patterns. -/
def PrintErrorBound (f : Fmt) : Prop :=
  ∀ x : F, x.Valid f → x.e ≠ 0 → ∀ m e, toDecimal f x f.digits = some (m, e) →
    -(pow10 e) < val f x - (m : Rat) * pow10 e ∧ val f x - (m : Rat) * pow10 e < pow10 e

/-- **Parsing error bound** (statement): for a digit string that fits the mantissa (`|m| < 2^w`;
    longer ones are truncated by `from_int`, known finding) the stored value is less than one unit in
    the last place away from `m·10^e`.  Proved for `−28 ≤ e ≤ 57` (`parse_error_bound_partial`) and
    in the weak form `(1/2 + |e|/116 resp. |e|/58)·ulp` for `|e| ≤ 100` (`parse_error_bound_weak`);
    for `e` from −29 down it is checked by the oracle only.  Worst case seen: 0.70 ulp. -/
def ParseErrorBound (f : Fmt) : Prop :=
  ∀ (m e : Int) (x : F), m.natAbs < 2 ^ f.w → fromDecimal f m e = .ok x → x.e ≠ 0 →
    -(pow2 ((x.e : Int) - f.bias)) < val f x - (m : Rat) * pow10 e ∧
      val f x - (m : Rat) * pow10 e < pow2 ((x.e : Int) - f.bias)

/-- fragment of `ParseErrorBound` for `exp10 = 0` (no `E` part, no fraction digits): `from_decimal`
    returns exactly what `from_int` returns — which is exact for `|m| < 2^w`
    (`PcbV.Decimal.fromInt_exact_val`) — so integer literals up to 2^24 / 2^56 are stored exactly.
    (Kept from the first round; `parse_error_bound_partial` now covers `−28 ≤ exp10 ≤ 57`.) -/
theorem parse_exact_exp0_partial (f : Fmt) (hf : f.WF) (m : Int) (x : F) (hx : x.Valid f) (he : x.e ≠ 0)
    (h : fromInt f m = .ok x) : fromDecimal f m 0 = .ok x := by
  have hm : m ≠ 0 := by
    intro h0; subst h0
    simp [fromInt] at h
    rw [← h] at he; simp [zero] at he
  unfold fromDecimal
  rw [if_neg hm, h]
  simp only [Int.lt_irrefl, if_false, Int.toNat_zero, iter]
  exact normD_denorm f hf x hx he


/-! ## 6. error bounds of the ×10 / ÷10 steps and of `from_decimal` (deepening) -/

/-- **One `_mul10_den` step**, for any format with the mask shapes of the source: on a normalised
    extended mantissa (`den_mask ≤ man < den_upper`, exponent ≥ 0) the result is normalised, has the
    same sign, and its value differs from ten times the input by at most one unit of the result's
    extended mantissa — a relative error of at most `17/(16·den_mask)` (≈ 2^-(w+7)) measured against
    either value. -/
theorem mul10_step_error (f : Fmt) (hf : f.WF) (d : Den) (he : 0 ≤ d.exp) (hn : Norm f d) :
    Norm f (mul10Den f d) ∧ (mul10Den f d).neg = d.neg ∧ 0 ≤ (mul10Den f d).exp ∧
      |mag f (mul10Den f d) - 10 * mag f d| ≤ 17 / (16 * f.denMask) * mag f (mul10Den f d) ∧
      |mag f (mul10Den f d) - 10 * mag f d| ≤ 17 / (16 * f.denMask) * (10 * mag f d) := by
  obtain ⟨a, b, c, d1, d2⟩ := mul10_near f hf d he hn
  exact ⟨a, b, c, d1, d2⟩

/-- **One `_div10_den` step**: on a normalised extended mantissa the result is normalised, has the same
    sign, and differs from a tenth of the input by at most a fifth of a unit of the input's extended
    mantissa (the long division by `0xA0…0` with its strict comparison and the three inexact last
    halvings 5→2→1 of the divisor gives `4·man − 8 ≤ 5·q ≤ 4·man + 3`) — a relative error of at most
    `17/(8·den_mask)` (≈ 2^-(w+6)). -/
theorem div10_step_error (f : Fmt) (hf : f.WF) (ht : TenOK f) (d : Den) (hn : Norm f d) :
    Norm f (div10Den f d) ∧ (div10Den f d).neg = d.neg ∧
      |mag f (div10Den f d) - mag f d / 10| ≤ 17 / (8 * f.denMask) * mag f (div10Den f d) ∧
      |mag f (div10Den f d) - mag f d / 10| ≤ 17 / (8 * f.denMask) * (mag f d / 10) := by
  obtain ⟨a, b, d1, d2⟩ := div10_near f hf ht d hn
  exact ⟨a, b, d1, d2⟩

/-- the constant ten of both formats has the shape the division lemma needs -/
theorem ten_facts : TenOK single ∧ TenOK double := ⟨single_ten, double_ten⟩

theorem pow10_nonneg_eq (e : Int) (h : 0 ≤ e) : pow10 e = (10 : Rat) ^ e.toNat := by
  unfold pow10; rw [if_pos h]

theorem pow10_neg_eq (e : Int) (h : e < 0) : pow10 e = (1 / 10 : Rat) ^ (-e).toNat := by
  unfold pow10; rw [if_neg (by omega), one_div_pow]

/-- **Parsing error bound, weak form** (all of `from_decimal` for a digit string that fits the
    mantissa): for `|m| < 2^w`, `|exp10| ≤ 100`, whenever `from_decimal(m, exp10)` stores a non-zero
    value `x` (no Overflow, no underflow to zero),
    `|val x − m·10^exp10| ≤ (1/2 + |exp10|/116)·ulp` for `exp10 ≥ 0` and
    `≤ (1/2 + |exp10|/58)·ulp` for `exp10 < 0`, where `ulp = 2^(x.e − bias)`.
    (1/2 from the closing round-to-nearest of `_normalise`; the rest is `|exp10|` times the one-step
    relative errors above — exactly (65/64)²·(17/16)/128 resp. (65/64)²·(17/8)/128 per step —
    converted to units of the last place at the worst mantissa.)  This is below one ulp for
    `−28 ≤ exp10 ≤ 57` and reaches 1.16 ulp at `exp10 = −38`; the check's worst observed case is
    0.70 ulp.  A per-step worst-case analysis cannot do better than 1/2 + 38·(2/den_mask)·2S = 1.09 ulp
    at −38: the long division really can be 1.6 units low in every step. -/
theorem parse_error_bound_weak (f : Fmt) (hf : f.WF) (ht : TenOK f) (hb : f.bias ≤ 255)
    (m e : Int) (x : F) (hm : m.natAbs < 2 ^ f.w) (hE : e.natAbs ≤ 100)
    (h : fromDecimal f m e = .ok x) (hxe : x.e ≠ 0) :
    |val f x - (m : Rat) * pow10 e| ≤
      (1 / 2 + (e.natAbs : Rat) * (if e ≥ 0 then 1 / 116 else 1 / 58)) * pow2 ((x.e : Int) - f.bias) := by
  have hm0 : m ≠ 0 := by
    intro h0; subst h0
    rw [zero_mantissa] at h
    injection h with h; rw [← h] at hxe; exact hxe rfl
  obtain ⟨x0, h0, hx0, hv0⟩ := fromInt_exact_val f hf hb m hm0 hm
  obtain ⟨hpos, hneg⟩ := fromDecimal_err f hf ht m e x0 x h0 hx0 hv0 hm0 hE h hxe
  rw [C04.pow2_eq_p2]
  have hu := C04.p2_pos ((x.e : Int) - f.bias)
  by_cases he : 0 ≤ e
  · rw [pow10_nonneg_eq e he, if_pos he]
    refine le_trans (hpos he) (mul_le_mul_of_nonneg_right ?_ hu.le)
    have hn : (e.toNat : Rat) = (e.natAbs : Rat) := by
      have : e.toNat = e.natAbs := by omega
      rw [this]
    rw [hn]
    have : (0 : Rat) ≤ e.natAbs := Nat.cast_nonneg _
    nlinarith
  · have he' : e < 0 := by omega
    rw [pow10_neg_eq e he', if_neg he]
    refine le_trans (hneg he') (mul_le_mul_of_nonneg_right ?_ hu.le)
    have hn : ((-e).toNat : Rat) = (e.natAbs : Rat) := by
      have : (-e).toNat = e.natAbs := by omega
      rw [this]
    rw [hn]
    have : (0 : Rat) ≤ e.natAbs := Nat.cast_nonneg _
    nlinarith

/-- **`ParseErrorBound` for `−28 ≤ exp10 ≤ 57`** (so for every non-negative exponent of the range):
    the stored value is strictly less than one unit in the last place away from `m·10^exp10`.
    Gap to the full `ParseErrorBound`: exponents −29 … −38 (and below), where the proved constant of
    the division step (relative 17/(8·den_mask) per step) only gives up to 1.16 ulp. -/
theorem parse_error_bound_partial (f : Fmt) (hf : f.WF) (ht : TenOK f) (hb : f.bias ≤ 255)
    (m e : Int) (x : F) (hm : m.natAbs < 2 ^ f.w) (he1 : -28 ≤ e) (he2 : e ≤ 57)
    (h : fromDecimal f m e = .ok x) (hxe : x.e ≠ 0) :
    -(pow2 ((x.e : Int) - f.bias)) < val f x - (m : Rat) * pow10 e ∧
      val f x - (m : Rat) * pow10 e < pow2 ((x.e : Int) - f.bias) := by
  have hw := parse_error_bound_weak f hf ht hb m e x hm (by omega) h hxe
  have hu : 0 < pow2 ((x.e : Int) - f.bias) := by rw [C04.pow2_eq_p2]; exact C04.p2_pos _
  have hlt : (1 / 2 + (e.natAbs : Rat) * (if e ≥ 0 then 1 / 116 else 1 / 58)) < 1 := by
    by_cases he : e ≥ 0
    · rw [if_pos he]
      have : (e.natAbs : Rat) ≤ 57 := by exact_mod_cast (by omega : e.natAbs ≤ 57)
      linarith
    · rw [if_neg he]
      have : (e.natAbs : Rat) ≤ 28 := by exact_mod_cast (by omega : e.natAbs ≤ 28)
      linarith
  have hstrict : |val f x - (m : Rat) * pow10 e| < pow2 ((x.e : Int) - f.bias) := by
    refine lt_of_le_of_lt hw ?_
    calc _ < 1 * pow2 ((x.e : Int) - f.bias) := mul_lt_mul_of_pos_right hlt hu
      _ = _ := one_mul _
  exact abs_lt.mp hstrict


/-- fragment of `PrintErrorBound`: **the scaling loops of `to_decimal`**.  The dividing loop performs
    some number `k` of `_div10_den` steps and reports `exp10 = k`; the value it leaves is the stored
    value divided by `10^k` up to the factor `(1 + 17/(8·den_mask))^k` either way (`|k| ≤ 39` in
    range, so about 2·10^-8 for Singles).  Likewise the multiplying loop performs `k` `_mul10_den`
    steps (factor `(1 + 17/(16·den_mask))^k`) from any normalised value with non-negative exponent.
    Gap to `PrintErrorBound`: the two `_apply_carry_den` roundings and the final half-up rounding to an
    integer, which together with this scaling error must stay below one unit of the last digit. -/
theorem print_scaling_partial (f : Fmt) (hf : f.WF) (ht : TenOK f) :
    (∀ (x : F) (t : Den) (fuel : Nat) (r : Den × Int), x.Valid f → x.e ≠ 0 →
      divLoop10 f t fuel (denorm f x) 0 = some r →
      ∃ k : Nat, r.2 = k ∧ Norm f r.1 ∧ r.1.neg = isNeg f x ∧
        mag f r.1 ≤ (1 + 17 / 8 / f.denMask) ^ k * ((1 / 10) ^ k * |val f x|) ∧
        (1 / 10) ^ k * |val f x| ≤ (1 + 17 / 8 / f.denMask) ^ k * mag f r.1) ∧
    (∀ (d b : Den) (e : Int) (fuel : Nat) (r : Den × Int), Norm f d → 0 ≤ d.exp →
      mulLoop10 f b fuel d e = some r →
      ∃ k : Nat, r.2 = e - k ∧ Norm f r.1 ∧ r.1.neg = d.neg ∧
        mag f r.1 ≤ (1 + 17 / 16 / f.denMask) ^ k * (10 ^ k * mag f d) ∧
        10 ^ k * mag f d ≤ (1 + 17 / 16 / f.denMask) ^ k * mag f r.1) := by
  have hMpos : (0 : Rat) < f.denMask := by
    obtain ⟨hS, _, _, hdm, _⟩ := wf_S f hf
    have : 0 < f.denMask := by omega
    exact_mod_cast this
  constructor
  · intro x t fuel r hx hxe h
    obtain ⟨k, h1, h2⟩ := divLoop10_iter f t fuel _ _ r h
    have hη : (17 : Rat) / (8 * f.denMask) = 17 / 8 / f.denMask := by rw [div_div]
    obtain ⟨c1, c2, c3, c4⟩ := near_chain f (div10Den f) (17 / 8 / f.denMask) (1 / 10)
      (fun d => Norm f d) (div_nonneg (by norm_num) hMpos.le) (by norm_num)
      (fun d hd => by
        obtain ⟨a, b, dd⟩ := div10_near f hf ht d hd
        rw [hη, show mag f d / 10 = 1 / 10 * mag f d from by ring] at dd
        exact ⟨a, b, dd⟩) k (denorm f x) (denorm_norm f hf x hx)
    have hmag : mag f (denorm f x) = |val f x| := by
      rw [← C04.dval_denorm f hf x hxe]
      unfold C04.dval mag
      rw [C04.abs_sgn_mul, abs_of_nonneg (C04.dmag_nonneg f _ _)]
    rw [hmag] at c3 c4
    rw [h1]
    exact ⟨k, by rw [h2]; simp, c1, by rw [c2, (denorm_man f hf x).2.2], c3, c4⟩
  · intro d b e fuel r hd he h
    obtain ⟨k, h1, h2⟩ := mulLoop10_iter f b fuel _ _ r h
    have hη : (17 : Rat) / (16 * f.denMask) = 17 / 16 / f.denMask := by rw [div_div]
    obtain ⟨c1, c2, c3, c4⟩ := near_chain f (mul10Den f) (17 / 16 / f.denMask) 10
      (fun d => Norm f d ∧ 0 ≤ d.exp) (div_nonneg (by norm_num) hMpos.le) (by norm_num)
      (fun d hd => by
        obtain ⟨a, b', c, dd⟩ := mul10_near f hf d hd.2 hd.1
        rw [hη] at dd
        exact ⟨⟨a, c⟩, b', dd⟩) k d ⟨hd, he⟩
    rw [h1]
    exact ⟨k, h2, c1.1, c2, c3, c4⟩

/-! ## non-vacuity -/

/-- the literal `-12.50` followed by `!`, by `E3`, by nothing -/
def exampleMant : Mant :=
  { sg := [45], ip := [49, 50], point := true, fp := [53, 48],
    hsg := by simp, hip := by intro c hc; simp at hc; rcases hc with rfl | rfl <;> simp [IsDig],
    hfp := by intro c hc; simp at hc; rcases hc with rfl | rfl <;> simp [IsDig],
    hpt := by simp }

example : strToDecimal (exampleMant.text ++ []) true = some (false, -1250, -2) := by decide
example : sigCount exampleMant.ip exampleMant.fp = 3 := by decide
example : strToDecimal (exampleMant.text ++ [68, 51]) false = some (true, -1250, 1) := by decide
example : fromRepr [49, 50, 51, 52, 53, 54, 55, 56] false = .val (.dbl ⟨0x3C614E00000000, 0x98⟩) := by
  decide +kernel
example : fromRepr [32, 49, 50] true = .val (.int 12) := by decide +kernel
example : toDecimal single ⟨0x400000, 0x81⟩ 7 = some (1500000, -6) := by decide +kernel
example : floatToStr sng ⟨0x400000, 0x81⟩ true false = some [32, 49, 46, 53] := by decide +kernel
example : floatToStr sng ⟨0x1502F9, 0xA2⟩ false true = some [49, 69, 43, 49, 48] := by decide +kernel
example : integerToStr 0xFFFE true = [45, 50] := by decide +kernel
example : F.Valid double ⟨0x4ECB8F27F4200C, 0xDA⟩ := by decide
-- hypotheses of `parse_error_bound_partial` are satisfiable: 1.5 (m = 15, e = −1) and 1E+38
example : fromDecimal single 15 (-1) = .ok ⟨0x400000, 0x81⟩ := by decide +kernel
example : (match fromDecimal single 1 38 with | .ok x => decide (x.e ≠ 0) | _ => false) = true := by
  decide +kernel
example : (match fromDecimal double 1234567890123456 (-28) with | .ok x => decide (x.e ≠ 0) | _ => false) = true := by
  decide +kernel

end PcbV.C07
