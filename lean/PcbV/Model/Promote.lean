import PcbV.Model.Mbf
import PcbV.Model.MbfMulFixed
import PcbV.Model.IntOps
/-
  Model of the type promotion in `pcbasic/basic/values/values.py`:
  `match_types`, `add`, `sub`, `mul`, `div`, `neg`, `abs_`, `sgn_` on numeric operands
  (Integer / Single / Double), with the conversions of numbers.py they call
  (`Integer.to_float/to_single/to_double`, `Single.to_double`, `Integer.sign`).
  A soft floating point error (Overflow, Division by zero) carries the value that the
  `FloatErrorHandler` substitutes (the signed maximum of the result type).
  The session option `double` (`Values.double_math`) is deliberately NOT a parameter of this model:
  none of these functions may depend on it (`Integer.to_float` always gives a Single; only the
  transcendental functions and `^` look at the option).  The correspondence run drives the real
  functions with `double_math` off and on against this one model.
-/
namespace PcbV.Promote
open PcbV PcbV.Mbf

inductive Ty where
  | int | sng | dbl
deriving DecidableEq, Repr

/-- a numeric value: Integer as its unsigned 16-bit pattern, floats as (mantissa, exponent) -/
inductive V where
  | int (w : Nat)
  | sng (x : F)
  | dbl (x : F)
deriving DecidableEq, Repr

def V.ty : V → Ty
  | .int _ => .int
  | .sng _ => .sng
  | .dbl _ => .dbl

/-- value, or (BASIC error number, substituted value) -/
abbrev VR := Except (Nat × V) V

def VR.ty : VR → Ty
  | .ok v => v.ty
  | .error (_, v) => v.ty

/-- the value delivered either way -/
def VR.value : VR → V
  | .ok v => v
  | .error (_, v) => v

/-- `Float.from_integer(i)` = `from_int(i.to_int())`; never fails for 16-bit input, the
    substituted value is kept for totality -/
def intToF (f : Fmt) (w : Nat) : F :=
  match fromInt f (IntOps.toInt w) with
  | .ok x => x
  | .error (_, x) => x

/-- `to_float()` : Integer → Single, floats unchanged -/
def toFloat : V → V
  | .int w => .sng (intToF single w)
  | v => v

/-- `to_single()` for the operands that reach it in add/sub/mul/div (never a Double) -/
def toSingleF : V → F
  | .int w => intToF single w
  | .sng x => x
  | .dbl x => x          -- unreachable in the modelled functions

/-- `to_double()` -/
def toDoubleF : V → F
  | .int w => intToF double w
  | .sng x => fromSingle x
  | .dbl x => x

def isDbl (v : V) : Bool := match v with | .dbl _ => true | _ => false

def wrap (t : Ty) (r : FR) : VR :=
  let mk : F → V := fun x => match t with | .dbl => .dbl x | _ => .sng x
  match r with
  | .ok x => .ok (mk x)
  | .error (c, x) => .error (c, mk x)

/-- `match_types(left, right)` followed by a same-format float operation -/
def matched (op : Fmt → F → F → FR) (l r : V) : VR :=
  if isDbl l || isDbl r then wrap .dbl (op double (toDoubleF l) (toDoubleF r))
  else wrap .sng (op single (toSingleF l) (toSingleF r))

/-- `values.add`: `left = left.to_float(); left, right = match_types(left, right); left.add(right)` -/
def add (l r : V) : VR := matched iadd (toFloat l) r
/-- `values.sub`: `match_types(left.to_float(), right)` then `isub` -/
def sub (l r : V) : VR := matched isub (toFloat l) r
/-- `values.mul`: Double iff an operand is a Double, else Single (repaired `imul`) -/
def mul (l r : V) : VR := matched imulFixed l r
/-- `values.mul` with `imul` as it was before the repair of D5 -/
def mulOld (l r : V) : VR := matched imul l r
/-- `values.div` -/
def div (l r : V) : VR := matched idiv l r

/-- `values.neg`: `inp.to_float().clone().ineg()` -/
def neg (v : V) : V :=
  match toFloat v with
  | .dbl x => .dbl (ineg double x)
  | .sng x => .sng (ineg single x)
  | .int w => .int w     -- unreachable
/-- `values.abs_` -/
def abs (v : V) : V :=
  match toFloat v with
  | .dbl x => .dbl (iabs double x)
  | .sng x => .sng (iabs single x)
  | .int w => .int w     -- unreachable

/-- `Integer.sign()` -/
def intSign (w : Nat) : Int := if w / 256 % 256 ≥ 128 then -1 else if w = 0 then 0 else 1

/-- the sign as a Python int -/
def sgnInt : V → Int
  | .int w => intSign w
  | .sng x => sign single x
  | .dbl x => sign double x

/-- `values.sgn_`: an Integer holding the sign -/
def sgn (v : V) : V := .int (IntOps.pack (sgnInt v))

end PcbV.Promote
