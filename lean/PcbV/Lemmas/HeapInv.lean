import PcbV.Lemmas.HeapOps
/-
  The statement-level invariant of the string heap (PcbV.Props.C10): well-formedness, no pointer into
  the program text, every variable-owned string above the temporaries boundary.
-/
namespace PcbV.Heap
open PcbV

/-- every non-empty pointer points into string space (no program-literal or FIELD pointers: the
    histories covered here do not contain `letCode`) -/
def NoCode (s : Heap) : Prop := ∀ l p, getLoc s l = some p → 0 < p.len → s.varStart ≤ p.addr

structure Core (s : Heap) : Prop where
  wf : WF s
  nocode : NoCode s
  perm : Perm s
  bnd : s.strs = [] ∨ s.current ≤ s.temp

structure Strong (s : Heap) : Prop where
  wf : WF s
  nocode : NoCode s
  perm : Perm s
  bnd : s.current ≤ s.temp

theorem Strong.core {s : Heap} (h : Strong s) : Core s := ⟨h.wf, h.nocode, h.perm, Or.inr h.bnd⟩

/-- all strings are permanent when the boundary sits at `current` -/
theorem strong_of_fixed {s : Heap} (hw : WF s) (hn : NoCode s) (ht : s.temp = s.current) : Strong s := by
  refine ⟨hw, hn, ?_, by omega⟩
  intro l p hp h0 hv
  obtain ⟨b, hb, _⟩ := hw.live _ p hp h0 hv
  have := (hw.blocks.key hb).1
  omega

/-- cells of `t` are cells of `s` or empty, string space untouched -/
theorem wf_of_subcells {s t : Heap} (hw : WF s) (hn : NoCode s)
    (h1 : t.varStart = s.varStart) (h2 : t.strs = s.strs) (h3 : t.current = s.current) (h4 : t.top = s.top)
    (hc : ∀ l p, getLoc t l = some p → (∃ l', getLoc s l' = some p) ∨ p.len = 0) : WF t ∧ NoCode t := by
  refine ⟨⟨by rw [h2, h3, h4]; exact hw.blocks, ?_⟩, ?_⟩
  · intro l p hp h0 hv
    rcases hc l p hp with ⟨l', hl'⟩ | hz
    · rw [h1] at hv
      obtain ⟨b, hb, hbl⟩ := hw.live l' p hl' h0 hv
      exact ⟨b, by rw [h2]; exact hb, hbl⟩
    · omega
  · intro l p hp h0
    rcases hc l p hp with ⟨l', hl'⟩ | hz
    · rw [h1]; exact hn l' p hl' h0
    · omega

theorem perm_of_subcells {s t : Heap} (hp : Perm s) (h1 : t.varStart = s.varStart) (h2 : t.temp = s.temp)
    (hc : ∀ l p, getLoc t (.v l) = some p → (∃ l', getLoc s (.v l') = some p) ∨ p.len = 0) : Perm t := by
  intro l p hpl h0 hv
  rcases hc l p hpl with ⟨l', hl'⟩ | hz
  · rw [h1] at hv; rw [h2]; exact hp l' p hl' h0 hv
  · omega

/-! ### reset / fix temporaries -/

theorem resetTemps_strong (s : Heap) (h : Core s) (hst : s.stack = []) :
    Strong (resetTemps s) ∧ (resetTemps s).stack = [] ∧ SameShape (resetTemps s) s ∧
    (∀ l, getLoc (resetTemps s) l = getLoc s l) ∧
    absScalars (resetTemps s) = absScalars s ∧ absArrays (resetTemps s) = absArrays s := by
  have hsafe : s.temp ≠ s.current → ∀ l p, getLoc s l = some p → 0 < p.len → p.addr ≠ s.current + 1 := by
    intro hne l p hp h0
    cases l with
    | s k => simp [getLoc, hst] at hp
    | v l =>
      have hv := h.nocode _ p hp h0
      have ht := h.perm l p hp h0 hv
      rcases h.bnd with he | hle
      · obtain ⟨b, hb, _⟩ := h.wf.live _ p hp h0 hv
        rw [he] at hb; simp [lookup] at hb
      · omega
  unfold resetTemps
  by_cases ht : s.temp ≠ s.current
  · rw [if_pos ht]
    obtain ⟨hw, hg, hd, hsh, _⟩ := deleteLast_sound s h.wf (hsafe ht)
    have hst' : (deleteLast s).stack = s.stack := by
      unfold deleteLast; split <;> rfl
    have hvs : (deleteLast s).varStart = s.varStart := by
      unfold deleteLast; split <;> rfl
    have hg' : ∀ l, getLoc { deleteLast s with temp := (deleteLast s).current } l = getLoc s l :=
      fun l => (getLoc_congr _ (deleteLast s) rfl rfl rfl l).trans (hg l)
    have hwf : WF { deleteLast s with temp := (deleteLast s).current } :=
      ⟨hw.blocks, fun l p hp => hw.live l p (by rw [hg]; rw [hg'] at hp; exact hp)⟩
    have hnc : NoCode { deleteLast s with temp := (deleteLast s).current } := by
      intro l p hp h0
      rw [hg'] at hp
      show (deleteLast s).varStart ≤ p.addr
      rw [hvs]; exact h.nocode l p hp h0
    have habs := abs_eq_of_cells (t := { deleteLast s with temp := (deleteLast s).current }) (s := s)
      ⟨hsh.sc, hsh.ar, hsh.st⟩ (by
        intro l
        rw [hg']
        cases hp : getLoc s l with
        | none => rfl
        | some p =>
          simp only [Option.map]
          congr 1
          exact (deref_congr (deleteLast s) _ p rfl rfl rfl rfl).trans (hd l p hp))
    exact ⟨strong_of_fixed hwf hnc rfl, by rw [← hst]; exact hst', ⟨hsh.sc, hsh.ar, hsh.st⟩, hg', habs.1, habs.2.1⟩
  · rw [if_neg ht]
    have hg' : ∀ l, getLoc { s with temp := s.current } l = getLoc s l := fun l => getLoc_congr _ s rfl rfl rfl l
    refine ⟨strong_of_fixed ⟨h.wf.blocks, fun l p hp => h.wf.live l p hp⟩ (fun l p hp h0 => h.nocode l p hp h0) rfl,
      hst, ⟨rfl, rfl, rfl⟩, hg', rfl, rfl⟩

theorem fixTemps_strong (s : Heap) (hw : WF s) (hn : NoCode s) : Strong (fixTemps s) :=
  strong_of_fixed ⟨hw.blocks, fun l p hp => hw.live l p hp⟩ (fun l p hp h0 => hn l p hp h0) rfl

/-! ### collection, check_free -/

theorem collect_strong (s s' : Heap) (hw : WF s) (hn : NoCode s) (hp : Perm s) (h : collect s = .ok s') :
    Strong s' ∧ SameShape s' s := by
  obtain ⟨hw', _⟩ := gc_preserves_lem s s' hw h
  obtain ⟨hp', hb⟩ := collect_perm s s' hw hp h
  obtain ⟨t, last, hr, hsh, e1, e2, e3, e4, e5, e6, e7, e8, e9, e10, _, _⟩ := collect_facts s s' hw h
  have hg : ∀ l, getLoc s' l = getLoc t l := getLoc_congr s' t e8 e9 e10
  refine ⟨⟨hw', ?_, hp', hb⟩, ⟨by rw [e8]; exact hsh.sc, by rw [e9]; exact hsh.ar, by rw [e10]; exact hsh.st⟩⟩
  intro l p hpl h0
  rw [hg] at hpl
  rw [e5, hr.vs]
  rcases hr.cells l p hpl with ⟨_, _, _, _, hl⟩ | ⟨hu, _⟩
  · exact (hl h0).1
  · exact hn l p hu h0

end PcbV.Heap
