import PcbV.Drv.MbfCommon
import PcbV.Model.Using
namespace PcbV.Drv.C08
open PcbV PcbV.Mbf PcbV.Decimal PcbV.Using

/-- one argument: `i:<4 hex>` (16-bit integer, little endian), `s:<8 hex>`, `d:<16 hex>` (MBF bytes),
    `t:<hex>` (string) -/
def parseArg (w : String) : Option Arg :=
  match w.splitOn ":" with
  | ["i", h] =>
    match ofHex h with
    | some b => if b.length = 2 then some (.num (.int (b.foldr (fun x acc => x + 256 * acc) 0))) else none
    | none => none
  | ["s", h] => (MbfCommon.parse single h).map (fun x => .num (.sgl x))
  | ["d", h] => (MbfCommon.parse double h).map (fun x => .num (.dbl x))
  | ["t", h] => (ofHex h).map .str
  | _ => none

def parseArgs (w : String) : Option (List Arg) :=
  if w == "-" then some [] else (w.splitOn ",").mapM parseArg

def flag : String → Option Bool
  | "1" => some true
  | "0" => some false
  | _ => none

def showPrinted : Option Printed → String
  | none => "nofuel"
  | some ⟨out, .ok nl⟩ => "ok " ++ toHex out ++ " " ++ showBool nl
  | some ⟨out, .error e⟩ => "err " ++ toString e ++ " " ++ toHex out

def showFmt : Option (R Bytes) → String
  | none => "nofuel"
  | some (.ok b) => "ok " ++ toHex b
  | some (.error e) => "err " ++ toString e

/-- requests:
    `pu <format hex> <trailing 0|1> <args | ->`   → `ok <out hex> <newline>` / `err <n> <out hex>`
    `field <input hex>`                            → what `StringField`/`NumberField` parse at the start
    `fmt <field hex> <arg>` / `fmtold …`           → `NumberField(field).format(arg)` (current / unrepaired producers) -/
def handle : List String → String
  | ["pu", f, t, a] =>
    match ofHex f, flag t, parseArgs a with
    | some f, some t, some a => showPrinted (printUsing f a t)
    | _, _, _ => "bad-op"
  | ["field", f] =>
    match ofHex f with
    | some f =>
      match parseField f with
      | none => "none"
      | some (.str w, rest) => "str " ++ toHex w ++ " " ++ toHex rest
      | some (.num n, rest) =>
        "num " ++ toHex n.tokens ++ " " ++ toString n.digitsBefore ++ " " ++ toString n.decimals ++ " " ++
          showBool n.comma ++ " " ++ toHex rest
    | none => "bad-op"
  | [op, f, a] =>
    match ofHex f, parseArg a with
    | some f, some (.num v) =>
      match parseNumber f with
      | some (fld, _) =>
        if op == "fmt" then showFmt (formatNumber fld v)
        else if op == "fmtold" then showFmt (formatNumberOld fld v)
        else "bad-op"
      | none => "none"
    | _, _ => "bad-op"
  | _ => "bad-op"

end PcbV.Drv.C08
