import PcbV.Basic
import PcbV.Gen.Translated
namespace PcbV.Drv.Translated
open PcbV

/-
  Driver for the mechanically translated definitions (`PcbV.Gen.Translated`, regenerated from the
  current Python AST by gen/py2lean.py) and for the `PcbV.PyInt` operators they are built from.
  Prefix `TR` (not a property: used by vlib/translated.py from the checks of C02, C15, C39).
  Requests (signed decimal Python ints), reply `ok <int>`:
    cycle s | prot c i | unprot c i | pnext i | unext i | idiv a b | imod a b | xor a b | and a b | or a b
    pstream <hex> / ustream <hex>   the step iterated over a byte string from index 0 with
                                    protNextIndex / unprotNextIndex; reply `ok <decimal,decimal,…>`
                                    (decimal, not hex: a wrong step may leave the byte range)
    supported                       the `_supported` flags, in the order cycle, unext, pnext, unprot, prot, idiv, imod
-/

def showI (n : Int) : String := "ok " ++ toString n

def stream (step : Int → Int → Int) (next : Int → Int) : Int → Bytes → List Int
  | _, [] => []
  | i, b :: bs => step (b : Int) i :: stream step next (next i) bs

def showInts (l : List Int) : String := if l.isEmpty then "-" else ",".intercalate (l.map toString)

def handle : List String → String
  | [op, a] =>
    match op with
    | "pstream" | "ustream" =>
      (match (if a == "-" then some [] else ofHex a) with
      | some bs =>
        "ok " ++ showInts (if op == "pstream"
          then stream Gen.Translated.protStep Gen.Translated.protNextIndex 0 bs
          else stream Gen.Translated.unprotStep Gen.Translated.unprotNextIndex 0 bs)
      | none => "bad-op")
    | _ =>
      match a.toInt? with
      | some a =>
        (match op with
        | "cycle" => showI (Gen.Translated.cycle a)
        | "pnext" => showI (Gen.Translated.protNextIndex a)
        | "unext" => showI (Gen.Translated.unprotNextIndex a)
        | _ => "bad-op")
      | none => "bad-op"
  | [op, a, b] =>
    match a.toInt?, b.toInt? with
    | some a, some b =>
      (match op with
      | "prot" => showI (Gen.Translated.protStep a b)
      | "unprot" => showI (Gen.Translated.unprotStep a b)
      | "idiv" => showI (Gen.Translated.idivCore a b)
      | "imod" => showI (Gen.Translated.imodCore a b)
      | "xor" => showI (PyInt.xor a b)
      | "and" => showI (PyInt.land a b)
      | "or" => showI (PyInt.lor a b)
      | _ => "bad-op")
    | _, _ => "bad-op"
  | ["supported"] =>
    "ok " ++ String.ofList ([Gen.Translated.cycle_supported, Gen.Translated.unprotNextIndex_supported,
      Gen.Translated.protNextIndex_supported, Gen.Translated.unprotStep_supported,
      Gen.Translated.protStep_supported, Gen.Translated.idivCore_supported,
      Gen.Translated.imodCore_supported].map fun b => if b then '1' else '0')
  | _ => "bad-op"

end PcbV.Drv.Translated
