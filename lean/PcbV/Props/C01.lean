import PcbV.Model.Funnel
import PcbV.Model.IntOps
import PcbV.Lemmas.MbfBasic
import PcbV.Props.C44
/-
  C01 — no BASIC input produces an internal interpreter error (PARTIAL: site theorems).
  The global claim over all programs is not a theorem; what is proved is, for each modelled host
  call site, that the value handed to the host satisfies the host's precondition for EVERY input
  (so that no host exception can arise there), plus the funnel decision logic.  Everything else is
  covered only by the exploration in props/c01.py (named gap).
-/
namespace PcbV.C01
open PcbV PcbV.Funnel

/-- the funnel lets a host exception escape exactly when it is not one of the converted kinds -/
theorem funnel_escapes_iff (fs io : Bool) (r : Option Raised) :
    (∃ t, funnel fs io r = .escaped t) ↔
      ((∃ t, r = some (.host t)) ∨ (r = some .valueOrArith ∧ fs = false) ∨ (r = some .osError ∧ io = false)) := by
  cases r with
  | none => simp [funnel]
  | some x => cases x <;> cases fs <;> cases io <;> simp [funnel]

/-- RENUM with an active trap: the repaired lookup is total -/
theorem renumTrap_total (m : List (Nat × Nat)) (line : Nat) : ∃ n, renumTrap m line = .ok n :=
  ⟨_, rfl⟩

/-- a trap on a renumbered line follows it, a trap on any other line keeps its number -/
theorem renumTrap_spec (m : List (Nat × Nat)) (line : Nat) :
    renumTrap m line = .ok (match lookup m line with | some n => n | none => line) := by
  unfold renumTrap; cases lookup m line <;> rfl

/-- defect D1 (repaired): trap line 10 below the renumbered range [(20,100),(30,110)] → KeyError -/
theorem renumTrapOld_counterexample : renumTrapOld [(20, 100), (30, 110)] 10 = .error (.host 0) := by decide

/-- PEEK with the documented default configuration: total -/
theorem peekPreset_total (t : Option (List (Nat × Nat))) (a : Nat) : ∃ v, peekPreset t a = .ok v := ⟨_, rfl⟩

/-- defect D4 (repaired): `Session()` then PEEK → TypeError -/
theorem peekPresetOld_counterexample : peekPresetOld none 0 = .error (.host 1) := by decide

/-- `Integer.from_int`: whatever is given to struct.pack_into('<h'/'<H') fits in 16 bits -/
theorem fromInt_pack_ok (n : Int) (u : Bool) (r : Nat) (h : IntOps.fromInt n u = .ok r) : r < 65536 := by
  unfold IntOps.fromInt at h
  cases u <;> simp only [Bool.false_eq_true, if_false, if_true] at h <;> split at h
  · injection h with h; subst h; unfold IntOps.pack; split <;> omega
  · cases h
  · injection h with h; subst h; unfold IntOps.pack; split <;> omega
  · cases h

/-- `_check_limits`: the exponent handed to `int2byte` is a byte -/
theorem checkLimits_byte (f : Mbf.Fmt) (m : Nat) (e : Int) (neg : Bool) (x : Mbf.F)
    (h : Mbf.checkLimits f m e neg = .ok x) : x.e < 256 := by
  unfold Mbf.checkLimits at h
  split at h
  · cases h
  · split at h
    · injection h with h; subst h; simp
    · injection h with h; subst h; simp only; omega

/-- TIME$: every accepted string gives `datetime.datetime` fields in range (C44.parseTime_ok) -/
theorem time_site_ok (s : Bytes) (t : Int × Int × Int) (h : Clock.parseTime s = .ok t) : Clock.TimeOk t :=
  C44.parseTime_ok s t h

/-- DATE$: every accepted string gives a date the host constructor accepts -/
theorem date_site_ok (s : Bytes) (y mo d : Int) (h : Clock.parseDate s = .ok (y, mo, d)) : Clock.DateOk y mo d :=
  (C44.parseDate_ok s y mo d h).1

/-- ENVIRON: every accepted argument gives the host a NUL-free ASCII key and NUL-free value -/
theorem environ_site_ok (env env' : Clock.Env) (s : Bytes) (h : Clock.environSet env s = .ok env') :
    ∃ eqs, Clock.indexOf 61 s = some eqs ∧ Clock.EnvOk (s.take eqs) (s.drop (eqs + 1)) :=
  C44.environSet_ok_envOk env env' s h

example : renumTrap [(20, 100), (30, 110)] 10 = .ok 10 ∧ renumTrap [(20, 100), (30, 110)] 30 = .ok 110 := by decide
example : peekPreset none 5 = .ok none ∧ peekPreset (some [(5, 7)]) 5 = .ok (some 7) := by decide

end PcbV.C01
