/-
  PcbV.Model.Protected — decision model of the protected-program guards (property C16).

  Transcribed from
    program.py      Program.erase / load / store_line / list_lines / save / edit / merge
    machine.py      Memory.peek_ / poke_ / bload_ / bsave_   (`protected and not run_mode`)
    memory.py       DataSegment._set_basic_memory            (POKE to DS:1450, only if allow_protect)
    implementation.py  list_ / edit_ + _show_prompt / save_ / merge_ / chain_ / load_ / run_ / new_ / _store_line
    interpreter.py  llist_, get_codestream (a direct line is only ever executed with run_mode = False)

  State is the pair of flags the guards read plus two ghost fields; every callback of the generated
  dispatch table (PcbV.Gen.Stmts) gets a classification: what it could disclose *if it got through*,
  the guard the code puts in front of it, and its effect on the flags.
-/
import PcbV.Basic
import PcbV.Gen.Stmts

namespace PcbV.Protected
open PcbV.Gen.Stmts

/-- What a callback does with the stored program when nothing stops it. -/
inductive Danger where
  | none          -- neither outputs program bytes nor adds code to the program
  | emit          -- writes listed text / raw bytes of the program to a stream, file or value (LIST, LLIST, EDIT, PEEK, BSAVE)
  | emitUnlessP   -- SAVE: plain (A) or tokenised (B) output unless the mode is P
  | injectIfLine  -- MERGE: stores the numbered lines of a file into the program (code that then runs in run mode)
  | injectIfMergeLine -- CHAIN MERGE: same, only with the MERGE option
  | emitData      -- READ: copies DATA items of the stored program into variables
  deriving DecidableEq, Repr

/-- The test the code applies before the callback touches the program. -/
inductive Guard where
  | none        -- the flag is not consulted
  | directOnly  -- machine.py: `protected and not run_mode` -> Illegal function call
  | always      -- program.py list_lines / edit: `protected` -> Illegal function call (also in run mode)
  | unlessP     -- Program.save: `protected and g.filetype != 'P'` (the type of the OPENED file)
  | ifMerge     -- Implementation.chain_: `protected and merge`
  | storeLine   -- Program.store_line, reached once per numbered line of the merged file
  deriving DecidableEq, Repr

/-- Effect on the flags when the callback gets through. -/
inductive Effect where
  | none
  | erase      -- Program.erase(): NEW
  | loadFile   -- Program.load(): LOAD, RUN "file", CHAIN without MERGE, TERM
  | pokeFlag   -- POKE / BLOAD may hit DS:1450
  deriving DecidableEq, Repr

structure Class where
  danger : Danger
  guard : Guard
  effect : Effect
  deriving DecidableEq, Repr

def harmless : Class := ⟨.none, .none, .none⟩

/-- The classification of every callback.  Anything not listed here is *unclassified*
    (`classify` returns `none`), which `PcbV.C16.classification_total` forbids for every entry of the
    generated tables.  `harmless` = unguarded and assumed not to read the stored program text
    (assumption validated by the enumeration in props/c16.py). -/
def classTable : List (Cb × Class) := [
  -- guarded in machine.py
  (.all_memory_peek_,  ⟨.emit, .directOnly, .none⟩),
  (.all_memory_bsave_, ⟨.emit, .directOnly, .none⟩),
  (.all_memory_poke_,  ⟨.none, .directOnly, .pokeFlag⟩),
  (.all_memory_bload_, ⟨.none, .directOnly, .pokeFlag⟩),
  -- guarded in program.py
  (.list_,             ⟨.emit, .always, .none⟩),
  (.interpreter_llist_, ⟨.emit, .always, .none⟩),
  (.edit_,             ⟨.emit, .always, .none⟩),
  (.save_,             ⟨.emitUnlessP, .unlessP, .none⟩),
  (.merge_,            ⟨.injectIfLine, .storeLine, .none⟩),
  (.chain_,            ⟨.injectIfMergeLine, .ifMerge, .loadFile⟩),
  -- replace the program
  (.new_,              ⟨.none, .none, .erase⟩),
  (.load_,             ⟨.none, .none, .loadFile⟩),
  (.run_,              ⟨.none, .none, .loadFile⟩),
  (.term_,             ⟨.none, .none, .loadFile⟩),
  -- reads DATA of the stored program, no guard (known finding C16-READ)
  (.interpreter_read_, ⟨.emitData, .none, .none⟩),
  -- modify / inspect the program structure without emitting its bytes; no guard
  (.delete_, harmless), (.interpreter_renum_, harmless), (.auto_, harmless),
  (.interpreter_restore_, harmless), (.interpreter_tron_, harmless), (.interpreter_troff_, harmless),
  (.interpreter_erl_, harmless), (.interpreter_err_, harmless),
  -- control flow (transfers into the program = run mode, or loops on the direct line)
  (.interpreter_cont_, harmless), (.interpreter_goto_, harmless), (.interpreter_gosub_, harmless),
  (.interpreter_return_, harmless), (.interpreter_if_, harmless), (.interpreter_on_jump_, harmless),
  (.interpreter_for_, harmless), (.interpreter_next_, harmless), (.interpreter_while_, harmless),
  (.interpreter_wend_, harmless), (.interpreter_error_, harmless), (.interpreter_resume_, harmless),
  (.interpreter_on_error_goto_, harmless), (.interpreter_stop_, harmless), (.end_, harmless),
  (.interpreter_def_fn_, harmless), (.builtin_none, harmless), (.builtin_list, harmless),
  (.system_, harmless), (.shell_, harmless), (.clear_, harmless),
  -- memory model (no program access)
  (.all_memory_call_, harmless), (.all_memory_def_seg_, harmless), (.all_memory_def_usr_, harmless),
  (.machine_inp_, harmless), (.machine_out_, harmless), (.machine_usr_, harmless), (.machine_wait_, harmless),
  (.memory_arrays_dim_, harmless), (.memory_arrays_erase_, harmless), (.memory_arrays_option_base_, harmless),
  (.memory_defdbl_, harmless), (.memory_defint_, harmless), (.memory_defsng_, harmless), (.memory_defstr_, harmless),
  (.memory_fre_, harmless), (.memory_let_, harmless), (.memory_lset_, harmless), (.memory_mid_, harmless),
  (.memory_rset_, harmless), (.memory_swap_, harmless), (.memory_varptr_, harmless), (.memory_varptr_str_, harmless),
  -- events
  (.basic_events_com_, harmless), (.basic_events_key_, harmless), (.basic_events_on_event_gosub_, harmless),
  (.basic_events_pen_, harmless), (.basic_events_play_, harmless), (.basic_events_strig_, harmless),
  (.basic_events_timer_, harmless), (.pen_fn_, harmless), (.key_, harmless), (.console_key_, harmless),
  -- clock, console, display, sound, sticks
  (.clock_date_, harmless), (.clock_date_fn_, harmless), (.clock_time_, harmless), (.clock_time_fn_, harmless),
  (.clock_timer_, harmless), (.display_cls_, harmless), (.display_color_, harmless), (.display_palette_, harmless),
  (.display_palette_using_, harmless), (.display_pcopy_, harmless), (.display_screen_, harmless),
  (.text_screen_csrlin_, harmless), (.text_screen_locate_, harmless), (.text_screen_pos_, harmless),
  (.text_screen_screen_fn_, harmless), (.text_screen_view_print_, harmless),
  (.sound_beep_, harmless), (.sound_noise_, harmless), (.sound_play_, harmless), (.sound_play_fn_, harmless),
  (.sound_sound_, harmless), (.stick_stick_, harmless), (.stick_strig_, harmless), (.stick_strig_statement_, harmless),
  (.keyboard_inkey_, harmless), (.input_, harmless), (.line_input_, harmless), (.randomize_, harmless),
  (.randomiser_rnd_, harmless), (.environment_environ_, harmless), (.environment_environ_statement_, harmless),
  (.extensions_call_as_function, harmless), (.extensions_call_as_statement, harmless),
  -- files and devices
  (.files_chdir_, harmless), (.files_close_, harmless), (.files_eof_, harmless), (.files_erdev_, harmless),
  (.files_erdev_str_, harmless), (.files_exterr_, harmless), (.files_field_, harmless), (.files_files_, harmless),
  (.files_get_, harmless), (.files_input_, harmless), (.files_ioctl_, harmless), (.files_ioctl_statement_, harmless),
  (.files_kill_, harmless), (.files_lcopy_, harmless), (.files_loc_, harmless), (.files_lock_, harmless),
  (.files_lof_, harmless), (.files_lpos_, harmless), (.files_lprint_, harmless), (.files_mkdir_, harmless),
  (.files_motor_, harmless), (.files_name_, harmless), (.files_open_, harmless), (.files_print_, harmless),
  (.files_put_, harmless), (.files_reset_, harmless), (.files_rmdir_, harmless), (.files_unlock_, harmless),
  (.files_width_, harmless), (.files_write_, harmless),
  -- graphics
  (.graphics_circle_, harmless), (.graphics_draw_, harmless), (.graphics_get_, harmless), (.graphics_line_, harmless),
  (.graphics_paint_, harmless), (.graphics_pmap_, harmless), (.graphics_point_, harmless), (.graphics_preset_, harmless),
  (.graphics_pset_, harmless), (.graphics_put_, harmless), (.graphics_view_, harmless), (.graphics_window_, harmless),
  -- pure value functions
  (.string_functions_instr_, harmless), (.string_functions_left_, harmless), (.string_functions_mid_, harmless),
  (.string_functions_right_, harmless), (.string_functions_string_, harmless),
  (.values_abs_, harmless), (.values_asc_, harmless), (.values_atn_, harmless), (.values_cdbl_, harmless),
  (.values_chr_, harmless), (.values_cint_, harmless), (.values_cos_, harmless), (.values_csng_, harmless),
  (.values_cvd_, harmless), (.values_cvi_, harmless), (.values_cvs_, harmless), (.values_exp_, harmless),
  (.values_fix_, harmless), (.values_hex_, harmless), (.values_int_, harmless), (.values_len_, harmless),
  (.values_log_, harmless), (.values_mkd_, harmless), (.values_mki_, harmless), (.values_mks_, harmless),
  (.values_oct_, harmless), (.values_sgn_, harmless), (.values_sin_, harmless), (.values_space_, harmless),
  (.values_sqr_, harmless), (.values_str_, harmless), (.values_tan_, harmless), (.values_val_, harmless)
]

def classify (c : Cb) : Option Class := classTable.lookup c

/-- The two flags the guards read, plus ghost state:
    `allow`  = Program.allow_protect (Session keyword hide_protected),
    `secret` = the bytes in program memory came from a ,P file (so they are what must not be disclosed). -/
structure St where
  prot : Bool
  allow : Bool
  secret : Bool
  deriving DecidableEq, Repr

/-- Abstract arguments: exactly the features of the concrete arguments that the guard logic and the
    flag updates depend on. -/
structure Args where
  mode : Nat := 0          -- SAVE mode requested / type of the file that is loaded: 0 = B (tokenised), 1 = A, 2 = P
  devD : Bool := false     -- SAVE: the opened file ignores the requested type and reports filetype 'D'
                           --   (LPTn:, PRN); Program.save tests and formats by g.filetype, not by the mode letter
  merge : Bool := false    -- CHAIN: MERGE option
  hasLine : Bool := false  -- MERGE / CHAIN MERGE: the file contains at least one numbered line
  found : Bool := true     -- LOAD / RUN / CHAIN / MERGE: the file exists;  RUN: a file name was given
  preErr : Option Nat := none  -- POKE: error raised by the address conversion, which precedes the guard
  flag : Bool := false     -- POKE / BLOAD: the write covers DS:1450 (the protection flag)
  zero : Bool := false     -- ... with the value 0
  deriving DecidableEq, Repr

/-- One operation: a statement/function callback, or entering a numbered line at the prompt
    (Implementation._store_line -> Program.store_line). -/
inductive Op where
  | stmt (c : Cb) (a : Args)
  | enterLine
  deriving DecidableEq, Repr

inductive Out where
  | ifc                    -- Illegal function call raised by the guard, nothing else happened
  | err (n : Nat)          -- another error before the guard was reached
  | pass (d : Danger)      -- got through; `d` = what it does to the program (materialised for the arguments)
  | unclassified
  deriving DecidableEq, Repr

/-- the type Program.save sees on the opened file (`g.filetype`): 3 = 'D' for devices without file types -/
def effMode (a : Args) : Nat := if a.devD then 3 else a.mode

def blocked (g : Guard) (s : St) (run : Bool) (a : Args) : Bool :=
  match g with
  | .none => false
  | .directOnly => s.prot && !run
  | .always => s.prot
  | .unlessP => s.prot && effMode a != 2
  | .ifMerge => s.prot && a.merge
  | .storeLine => s.prot && a.hasLine

/-- the danger that materialises for these arguments -/
def materialise (d : Danger) (a : Args) : Danger :=
  match d with
  | .emitUnlessP => if effMode a != 2 then .emit else .none
  | .injectIfLine => if a.hasLine then .injectIfLine else .none
  | .injectIfMergeLine => if a.merge && a.hasLine then .injectIfLine else .none
  | d => d

/-- Program.load on a file of type `mode`: erase() clears the flag, a P file sets it to allow_protect. -/
def loadInto (s : St) (mode : Nat) : St :=
  { s with prot := (mode == 2) && s.allow, secret := mode == 2 }

def applyEffect (e : Effect) (s : St) (a : Args) : St :=
  match e with
  | .none => s
  | .erase => { s with prot := false, secret := false }
  | .loadFile => if a.found && !a.merge then loadInto s a.mode else s
  | .pokeFlag => if a.flag && s.allow then { s with prot := !a.zero } else s

/-- One statement in direct mode (`run = false`) or from the stored program (`run = true`). -/
def step (run : Bool) (s : St) : Op → Out × St
  | .enterLine => if s.prot then (.ifc, s) else (.pass .injectIfLine, s)
  | .stmt c a =>
    match classify c with
    | none => (.unclassified, s)
    | some k =>
      match a.preErr with
      | some n => (.err n, s)
      | none =>
        if blocked k.guard s run a then (.ifc, s)
        else (.pass (materialise k.danger a), applyEffect k.effect s a)

/-- A danger is neutralised by a guard when the guard fires for every argument that materialises it. -/
def wellGuarded (k : Class) : Bool :=
  match k.danger, k.guard with
  | .none, _ => true
  | .emit, .directOnly => true
  | .emit, .always => true
  | .emitUnlessP, .unlessP => true
  | .injectIfLine, .storeLine => true
  | .injectIfMergeLine, .ifMerge => true
  | _, _ => false

/-- A direct-mode history: the trace of outcomes and the final state. -/
def runDirect : St → List Op → List Out × St
  | s, [] => ([], s)
  | s, op :: ops =>
    let (o, s') := step false s op
    let (os, s'') := runDirect s' ops
    (o :: os, s'')

/-- A mixed history: `(true, op)` is executed by the program (run mode), `(false, op)` from the prompt. -/
def runMixed : St → List (Bool × Op) → List (Bool × Out × Bool) × St
  | s, [] => ([], s)
  | s, (r, op) :: ops =>
    let (o, s') := step r s op
    let (os, s'') := runMixed s' ops
    ((r, o, s.secret) :: os, s'')

/-- the unrepaired-code question for READ: a model of the classification in which READ were harmless
    is what the source has; the disclosure is exhibited in PcbV.C16 as a counterexample. -/
def discloses (o : Out) : Bool :=
  match o with
  | .pass .none => false
  | .pass _ => true
  | _ => false

/-- the invariant: whenever the bytes of a ,P file are in program memory, the flag is set -/
def Inv (s : St) : Prop := s.allow = true ∧ (s.secret = true → s.prot = true)


/-- an operation by which the *program itself* drops its protection (POKE 1450,0 / BLOAD over the flag) -/
def clearsFlag : Op → Bool
  | .stmt c a => (match classify c with
                  | some k => k.effect == Effect.pokeFlag
                  | none => false) && a.flag && a.zero
  | .enterLine => false


end PcbV.Protected
