import PcbV.Basic
import PcbV.Gen.Errors
/-
  PcbV.Model.RandFile — random-access files (property C25).

  Transcription of
    pcbasic/basic/devices/diskfiles.py : RandomFile.get / put / _set_record_pos / eof / loc / lof,
                                          FieldFile.set_buffer / get_buffer
    pcbasic/basic/devices/files.py     : Files._check_pos, open_, close, field_, get_, put_, loc_, lof_, eof_
    pcbasic/basic/memory/memory.py     : Field (buffer of max_reclen bytes per file number), attach_var,
                                          lset_/rset_ on a FIELD variable (in-place write into the buffer)

  Host file = byte list; the file handle position `fpos` is kept as the code keeps it (it is *not*
  re-derived from the record pointer: GET at end-of-file does not move it), `writeAt` is a write at a
  position with the POSIX zero fill of a gap (stated OS assumption; the repaired `put` never writes behind
  a gap, the original one did).

  `put true` is the repaired padding rule (commit 86ee4641, defect D20), `put false` the original one.

  `roundSingle` is round-to-nearest-even to 24 significant bits (MBF single; `Float._normalise`) for
  n < 2^26.  For n ≥ 2^26 the identity is used instead of a transcription: only the comparison with 2^25
  is ever observed there, rounding is monotone and 2^26 is representable, so the result is ≥ 2^26 either way.
-/
namespace PcbV.RandFile
open PcbV PcbV.Gen

def zeros (n : Nat) : Bytes := List.replicate n 0

/-- `bytes.ljust(n, b'\0')` -/
def ljust (b : Bytes) (n : Nat) : Bytes := b ++ zeros (n - b.length)

/-- `bytes.rjust(n, pad)` / `ljust(n, pad)` with an arbitrary pad byte -/
def padTo (right : Bool) (pad : Nat) (b : Bytes) (n : Nat) : Bytes :=
  if right then List.replicate (n - b.length) pad ++ b else b ++ List.replicate (n - b.length) pad

/-- write `d` at offset `p` of a host file (a gap behind the end reads back as zeros) -/
def writeAt (f : Bytes) (p : Nat) (d : Bytes) : Bytes :=
  ljust (f.take p) p ++ d ++ f.drop (p + d.length)

/-- round `n` to a multiple of `m` (m = 2, 4), ties to the even multiple -/
def rhe (n m : Nat) : Nat :=
  let q := n / m
  let r := n % m
  if 2 * r > m ∨ (2 * r = m ∧ q % 2 = 1) then (q + 1) * m else q * m

/-- value of `Single.from_int(n)` / of a double integer literal after `to_single` (see header for n ≥ 2^26) -/
def roundSingle (n : Nat) : Nat :=
  if n < 16777216 then n
  else if n < 33554432 then rhe n 2
  else if n < 67108864 then rhe n 4
  else n

def maxRecord : Nat := 33554432   -- 2^25

/-- `Files._check_pos` on an integer-valued record number (None = no number given). -/
def checkPos : Option Int → R (Option Nat)
  | none => .ok none
  | some n =>
    if n < 1 then .error E.bad_record_number
    else
      let p := roundSingle n.toNat
      if p ≤ maxRecord then .ok (some p) else .error E.bad_record_number

/-- One open random file together with its host file and its FIELD buffer. -/
structure RF where
  reclen : Nat
  file : Bytes
  recpos : Nat
  fpos : Nat
  buf : Bytes
deriving DecidableEq, Repr

/-- `_set_record_pos` -/
def setRecordPos (s : RF) : Option Nat → RF
  | none => s
  | some p => { s with fpos := (p - 1) * s.reclen, recpos := p - 1 }

def lof (s : RF) : Nat := s.file.length
def loc (s : RF) : Nat := s.recpos
def eof (s : RF) : Bool := decide (s.recpos * s.reclen > lof s)

/-- `fhandle.read(n)` at `fpos` -/
def readAt (f : Bytes) (p n : Nat) : Bytes := (f.drop p).take n

/-- `FieldFile.set_buffer` (contents never longer than reclen) -/
def setBuffer (buf : Bytes) (reclen : Nat) (contents : Bytes) : Bytes :=
  ljust contents reclen ++ buf.drop reclen

/-- `FieldFile.get_buffer` -/
def getBuffer (s : RF) : Bytes := s.buf.take s.reclen

/-- `RandomFile.get` (record number already checked) -/
def get (s : RF) (pos : Option Nat) : RF :=
  let s := setRecordPos s pos
  if eof s then
    { s with buf := setBuffer s.buf s.reclen (zeros s.reclen), recpos := s.recpos + 1 }
  else
    let c := readAt s.file s.fpos s.reclen
    { s with buf := setBuffer s.buf s.reclen c, fpos := s.fpos + c.length, recpos := s.recpos + 1 }

/-- `RandomFile.put`; `fixed = false` is the padding rule before commit 86ee4641 (record pointer
compared with the length in bytes). -/
def put (fixed : Bool) (s : RF) (pos : Option Nat) : RF :=
  let s := setRecordPos s pos
  let cur := lof s
  let pad : Option Nat :=
    if fixed then
      (if s.recpos * s.reclen > cur then some (s.recpos * s.reclen - cur) else none)
    else
      (if s.recpos > cur then some ((s.recpos - cur) * s.reclen) else none)
  let (file1, fpos1) := match pad with
    | some n => (s.file ++ zeros n, cur + n)
    | none => (s.file, s.fpos)
  let d := getBuffer s
  { s with file := writeAt file1 fpos1 d, fpos := fpos1 + d.length, recpos := s.recpos + 1 }

/-- in-place write into the FIELD buffer (LSET/RSET through a FIELD variable at `off`) -/
def bufWrite (buf : Bytes) (off : Nat) (d : Bytes) : Bytes :=
  buf.take off ++ d ++ buf.drop (off + d.length)

/-- value of a FIELD variable (`off`, `width`) -/
def fieldVal (buf : Bytes) (off w : Nat) : Bytes := (buf.drop off).take w

/-- `String.lset`: first `w` bytes of `s`, padded with spaces to `w` -/
def justify (right : Bool) (s : Bytes) (w : Nat) : Bytes := padTo right 32 (s.take w) w

/-! ### operations of the property: histories on one open file -/

inductive Op
  | write (off : Nat) (d : Bytes)          -- LSET / RSET of a FIELD variable (already justified)
  | put (pos : Option Int)
  | get (pos : Option Int)
deriving DecidableEq, Repr

/-- one statement: new state and error number (0 = none).  A buffer write that would not fit is not
performed (FIELD refuses such a variable). -/
def step (fixed : Bool) (s : RF) : Op → RF × Nat
  | .write off d => if off + d.length ≤ s.buf.length then ({ s with buf := bufWrite s.buf off d }, 0) else (s, 0)
  | .put pos => match checkPos pos with
    | .ok p => (put fixed s p, 0)
    | .error e => (s, e)
  | .get pos => match checkPos pos with
    | .ok p => (get s p, 0)
    | .error e => (s, e)

def run (fixed : Bool) (s : RF) : List Op → RF
  | [] => s
  | o :: os => run fixed (step fixed s o).1 os

/-- record number (1-based) a GET/PUT with this argument addresses in state `s` -/
def recNo (s : RF) (pos : Option Int) : R Nat :=
  match checkPos pos with
  | .ok none => .ok (s.recpos + 1)
  | .ok (some p) => .ok p
  | .error e => .error e

/-- content of record `k` (1-based) of a host file for record length `r`: bytes behind the end are zero -/
def recOf (f : Bytes) (r k : Nat) : Bytes := (List.range r).map (fun i => f.getD ((k - 1) * r + i) 0)


/-! ### vocabulary of the property statements (specification side, not executed by the driver) -/

/-- record with 0-based index `m` (`recOf f r k = rec0 f r (k - 1)`) -/
def rec0 (f : Bytes) (r m : Nat) : Bytes := (List.range r).map (fun i => f.getD (m * r + i) 0)

/-- invariant of an open random file: the FIELD buffer holds a whole record, and whenever the record
pointer lies inside the file the host file position is the start of that record (behind the end the code
leaves the position stale and `put` re-seeks) -/
structure Inv (s : RF) : Prop where
  buf : s.reclen ≤ s.buf.length
  pos : s.recpos * s.reclen ≤ s.file.length → s.fpos = s.recpos * s.reclen

/-- state right after OPEN of host file `file` with record length `r` and FIELD buffer `buf` -/
def opened (r : Nat) (file buf : Bytes) : RF := { reclen := r, file, recpos := 0, fpos := 0, buf }

/-- the record a statement accesses in state `s` (none: buffer write, or refused record number) -/
def target (s : RF) : Op → Option Nat
  | .write _ _ => none
  | .put pos => (recNo s pos).toOption
  | .get pos => (recNo s pos).toOption

/-- the record a statement PUTs in state `s` -/
def putTarget (s : RF) : Op → Option Nat
  | .put pos => (recNo s pos).toOption
  | _ => none

/-- no statement of the history (run from `s`) PUTs record `k` -/
def NoPutTo (k : Nat) : RF → List Op → Prop
  | _, [] => True
  | s, o :: os => putTarget s o ≠ some k ∧ NoPutTo k (step true s o).1 os

/-- highest record number PUT by the history (0 if none) -/
def hiPut : RF → List Op → Nat
  | _, [] => 0
  | s, o :: os => max ((putTarget s o).getD 0) (hiPut (step true s o).1 os)

/-- the record accessed last by the history (none if no GET/PUT succeeded) -/
def lastAcc : RF → List Op → Option Nat
  | _, [] => none
  | s, o :: os => (lastAcc (step true s o).1 os).orElse fun _ => target s o

/-! ### session level (several file numbers, host files, FIELD variables) — used by the driver -/

structure OpenF where
  fid : Nat
  reclen : Nat
  recpos : Nat
  fpos : Nat
deriving DecidableEq, Repr

def lookup {α} (k : Nat) : List (Nat × α) → Option α
  | [] => none
  | (k', v) :: t => if k' = k then some v else lookup k t

def insert {α} (k : Nat) (v : α) : List (Nat × α) → List (Nat × α)
  | [] => [(k, v)]
  | (k', v') :: t => if k' = k then (k, v) :: t else (k', v') :: insert k v t

def erase {α} (k : Nat) : List (Nat × α) → List (Nat × α)
  | [] => []
  | (k', v') :: t => if k' = k then t else (k', v') :: erase k t

structure Sess where
  maxReclen : Nat
  maxFiles : Nat
  disk : List (Nat × Bytes)
  files : List (Nat × OpenF)
  bufs : List (Nat × Bytes)
  vars : List (Nat × (Nat × Nat × Nat))      -- variable ↦ (file number, offset, width)
deriving Repr

def Sess.init (maxReclen maxFiles : Nat) (disk : List (Nat × Bytes)) : Sess :=
  { maxReclen, maxFiles, disk, files := [], bufs := [], vars := [] }

def Sess.buf (s : Sess) (num : Nat) : Bytes := (lookup num s.bufs).getD (zeros s.maxReclen)
def Sess.host (s : Sess) (fid : Nat) : Bytes := (lookup fid s.disk).getD []

def Sess.rf (s : Sess) (num : Nat) (f : OpenF) : RF :=
  { reclen := f.reclen, file := s.host f.fid, recpos := f.recpos, fpos := f.fpos, buf := s.buf num }

def Sess.store (s : Sess) (num : Nat) (f : OpenF) (r : RF) : Sess :=
  { s with disk := insert f.fid r.file s.disk,
           files := insert num { f with recpos := r.recpos, fpos := r.fpos } s.files,
           bufs := insert num r.buf s.bufs }

inductive Cmd
  | open (num fid reclen : Nat)
  | close (num : Nat)
  | field (num : Nat) (parts : List (Nat × Nat))     -- (width, variable)
  | lset (var : Nat) (right : Bool) (s : Bytes)
  | put (num : Nat) (pos : Option Int)
  | get (num : Nat) (pos : Option Int)
deriving Repr

/-- `field_`: attach the variables one by one; an error keeps the attachments made so far -/
def fieldLoop (s : Sess) (num : Nat) : Nat → List (Nat × Nat) → Sess × Nat
  | _, [] => (s, 0)
  | off, (w, v) :: rest =>
    if w > 255 then (s, E.illegal_function_call)
    else if off + w > (s.buf num).length then (s, E.field_overflow)
    else fieldLoop { s with vars := insert v (num, off, w) s.vars } num (off + w) rest

/-- `get_` / `put_` file lookup: `Files.get(number, b'R', not_open=BAD_FILE_MODE)` -/
def findRandom (s : Sess) (num : Nat) : R OpenF :=
  if num < 1 then .error E.bad_file_number
  else match lookup num s.files with
    | some f => .ok f
    | none => .error E.bad_file_mode

def exec (fixed : Bool) (s : Sess) : Cmd → Sess × Nat
  | .open num fid reclen =>
    if reclen < 1 ∨ reclen > s.maxReclen then (s, E.illegal_function_call)
    else if num < 1 ∨ num > s.maxFiles then (s, E.bad_file_number)
    else if (lookup num s.files).isSome then (s, E.file_already_open)
    else
      ({ s with disk := insert fid (s.host fid) s.disk,
                files := insert num { fid, reclen, recpos := 0, fpos := 0 } s.files }, 0)
  | .close num => ({ s with files := erase num s.files }, 0)
  | .field num parts =>
    if num < 1 then (s, E.bad_file_number)
    else match lookup num s.files with
      | none => (s, E.bad_file_number)
      | some _ => fieldLoop s num 0 parts
  | .lset var right str =>
    match lookup var s.vars with
    | none => (s, 0)
    | some (num, off, w) =>
      ({ s with bufs := insert num (bufWrite (s.buf num) off (justify right str w)) s.bufs }, 0)
  | .put num pos =>
    match findRandom s num with
    | .error e => (s, e)
    | .ok f =>
      let (r, e) := step fixed (s.rf num f) (.put pos)
      if e = 0 then (s.store num f r, 0) else (s, e)
  | .get num pos =>
    match findRandom s num with
    | .error e => (s, e)
    | .ok f =>
      let (r, e) := step fixed (s.rf num f) (.get pos)
      if e = 0 then (s.store num f r, 0) else (s, e)

/-- value of a variable: a FIELD variable reads the buffer, any other is the empty string -/
def Sess.varVal (s : Sess) (v : Nat) : Bytes :=
  match lookup v s.vars with
  | none => []
  | some (num, off, w) => fieldVal (s.buf num) off w

end PcbV.RandFile
