import PcbV.Basic
import PcbV.Gen.Errors
import PcbV.Gen.Notes
import PcbV.Model.Mml
import PcbV.Model.Play
/-
  PcbV.Model.PlayVoices — the three-voice PLAY of the Tandy/PCjr syntaxes (`Sound.play_` with
  `self._multivoice` set and SOUND ON): up to three music strings, one `MLParser` and one `PlayState`
  per voice (`Sound._state = [PlayState(), PlayState(), PlayState()]`), commands taken round-robin,
  one command per voice per pass of `for voice in voices`.

  A voice is a `Play.Cfg` (its play state, the rest of its string, its X nesting bookkeeping).
  `Sound._foreground` is one flag for all voices: it is copied into the voice's state before its
  command runs and read back afterwards.
  `voices.remove(voice)` inside `for voice in voices` makes the loop skip the voice that follows a
  finished one for that pass (Python list iteration by index) — transcribed (`eraseIdx i`, then `i+1`).
  Not modelled: the synchronisation markers `emit_synch` puts on the three queues at the first tone
  of a statement (their durations are clock readings).
-/
namespace PcbV.PlayVoices
open PcbV PcbV.Gen PcbV.Mml PcbV.Play

instance : Inhabited Cfg := ⟨⟨initState, [], []⟩⟩

/-- copy `Sound._foreground` into a voice -/
def setFg (b : Bool) (c : Cfg) : Cfg := { c with ps := { c.ps with foreground := b } }

/-- `emit_tone(…, voice=v, …)` on Tandy/PCjr with SOUND ON: frequencies 0 < f < 110 Hz are played as
    110 Hz – as table indices, everything below the 110 Hz entry becomes that entry -/
def hwEv (v : Nat) (e : Ev) : Ev :=
  { e with voice := v,
           note := e.note.map (fun i => if i < Notes.a110Index then Notes.a110Index else i) }

/-- the voices (always three) and `Sound._foreground` -/
structure MCfg where
  vs : List Cfg
  fg : Bool
  deriving DecidableEq, Repr

structure MOutcome where
  vs : List Cfg
  fg : Bool
  evs : List Ev
  status : Status
  deriving DecidableEq, Repr

/-- `while True: if not voices: break; for voice in voices: …` — `active` is the list `voices`,
    `i` the position of the `for` iterator in it.  One unit of fuel per command (and per pass). -/
def mrun (lim : Limits) (env : Env) : Nat → MCfg → List Nat → Nat → MOutcome
  | 0, M, _, _ => ⟨M.vs, M.fg, [], .outOfFuel⟩
  | f + 1, M, active, i =>
    if active.isEmpty then ⟨M.vs, M.fg, [], .ok⟩
    else if i ≥ active.length then mrun lim env f M active 0
    else
      let v := active.getD i 0
      match step lim env (setFg M.fg (M.vs.getD v default)) with
      | .done => mrun lim env f M (active.eraseIdx i) (i + 1)
      | .fail e => ⟨M.vs, M.fg, [], .err e⟩
      | .cont c' evs =>
        let o := mrun lim env f ⟨M.vs.set v c', c'.ps.foreground⟩ active (i + 1)
        { o with evs := evs.map (hwEv v) ++ o.evs }

/-- `PLAY s0, s1, s2` from the voice states `pss`: at least one string must be non-empty
    (`if not any(mml_list): raise Missing operand`) -/
def mplay (lim : Limits) (env : Env) (fuel : Nat) (pss : List PlayState) (fg : Bool)
    (strs : List Bytes) : MOutcome :=
  let vs : List Cfg := (List.range 3).map (fun v => ⟨pss.getD v initState, strs.getD v [], []⟩)
  if strs.all (·.isEmpty) then ⟨vs, fg, [], .err E.missing_operand⟩
  else mrun lim env fuel ⟨vs, fg⟩ [0, 1, 2] 0

end PcbV.PlayVoices
