import PcbV.Model.Heap
/-
  Lemmas about `PcbV.Heap` (the string heap model) used by `PcbV.Props.C10`.
-/
namespace PcbV.Heap
open PcbV

/-! ### lists -/

theorem length_setAt (l : List α) (i : Nat) (x : α) : (setAt l i x).length = l.length := by
  induction l generalizing i with
  | nil => rfl
  | cons y r ih => cases i <;> simp [setAt, ih]

theorem getElem?_setAt_self (l : List α) (i : Nat) (x y : α) (h : l[i]? = some y) :
    (setAt l i x)[i]? = some x := by
  induction l generalizing i with
  | nil => simp at h
  | cons z r ih =>
    cases i with
    | zero => simp [setAt]
    | succ n => simp [setAt] at h ⊢; exact ih n h

theorem getElem?_setAt_ne (l : List α) (i j : Nat) (x : α) (h : i ≠ j) :
    (setAt l i x)[j]? = l[j]? := by
  induction l generalizing i j with
  | nil => rfl
  | cons z r ih =>
    cases i with
    | zero =>
      cases j with
      | zero => exact absurd rfl h
      | succ m => simp [setAt]
    | succ n =>
      cases j with
      | zero => simp [setAt]
      | succ m => simp [setAt]; exact ih n m (fun e => h (by rw [e]))

/-! ### lookup -/

theorem lookup_cons_ne (k a : Nat) (v : Bytes) (m : List (Nat × Bytes)) (h : k ≠ a) :
    lookup ((k, v) :: m) a = lookup m a := by simp [lookup, h]

theorem lookup_cons_self (k : Nat) (v : Bytes) (m : List (Nat × Bytes)) :
    lookup ((k, v) :: m) k = some v := by simp [lookup]

/-! ### the block structure of string space -/

/-- keys strictly increasing along the list (newest = lowest first), every block non-empty, all
    blocks inside `(c, top]` and pairwise disjoint -/
def Blocks (c top : Nat) : List (Nat × Bytes) → Prop
  | [] => c ≤ top
  | (a, b) :: r => c < a ∧ 0 < b.length ∧ Blocks (a + b.length - 1) top r

theorem Blocks.mono {c c' top : Nat} {m : List (Nat × Bytes)} (h : Blocks c top m) (hc : c' ≤ c) :
    Blocks c' top m := by
  cases m with
  | nil => exact Nat.le_trans hc h
  | cons x r => obtain ⟨a, b⟩ := x; exact ⟨Nat.lt_of_le_of_lt hc h.1, h.2.1, h.2.2⟩

theorem Blocks.le_top {c top : Nat} {m : List (Nat × Bytes)} (h : Blocks c top m) : c ≤ top := by
  induction m generalizing c with
  | nil => exact h
  | cons x r ih =>
    obtain ⟨a, b⟩ := x
    have := ih h.2.2
    have h1 := h.1; have h2 := h.2.1
    omega

theorem Blocks.key {c top : Nat} {m : List (Nat × Bytes)} (h : Blocks c top m) {a : Nat} {b : Bytes}
    (hl : lookup m a = some b) : c < a ∧ 0 < b.length ∧ a + b.length - 1 ≤ top := by
  induction m generalizing c with
  | nil => simp [lookup] at hl
  | cons x r ih =>
    obtain ⟨k, v⟩ := x
    by_cases hk : k = a
    · subst hk
      simp [lookup] at hl; subst hl
      exact ⟨h.1, h.2.1, h.2.2.le_top⟩
    · rw [lookup_cons_ne _ _ _ _ hk] at hl
      have := ih h.2.2 hl
      have h1 := h.1; have h2 := h.2.1
      exact ⟨by omega, this.2.1, this.2.2⟩

/-- two different blocks do not overlap -/
theorem Blocks.sep {c top : Nat} {m : List (Nat × Bytes)} (h : Blocks c top m) {a a' : Nat} {b b' : Bytes}
    (hl' : lookup m a' = some b') (hl : lookup m a = some b) (hlt : a' < a) : a' + b'.length ≤ a := by
  induction m generalizing c with
  | nil => simp [lookup] at hl
  | cons x r ih =>
    obtain ⟨k, v⟩ := x
    by_cases hk' : k = a'
    · subst hk'
      simp [lookup] at hl'; subst hl'
      have hne : k ≠ a := by omega
      rw [lookup_cons_ne _ _ _ _ hne] at hl
      have := (h.2.2.key hl).1
      have h2 := h.2.1
      omega
    · rw [lookup_cons_ne _ _ _ _ hk'] at hl'
      by_cases hk : k = a
      · subst hk
        have := (h.2.2.key hl').1
        have h2 := h.2.1
        omega
      · rw [lookup_cons_ne _ _ _ _ hk] at hl
        exact ih h.2.2 hl' hl

/-! ### cells: get/set laws -/

theorem getV_setV_same (t : Heap) (l : VLoc) (p p0 : Ptr) (h : getV t l = some p0) :
    getV (setV t l p) l = some p := by
  cases l with
  | sc i =>
    simp only [getV] at h
    cases hx : t.scalars[i]? with
    | none => simp [hx] at h
    | some x =>
      simp only [setV, hx, getV]
      rw [getElem?_setAt_self _ _ _ _ hx]; rfl
  | el a i =>
    simp only [getV] at h
    cases hx : t.arrays[a]? with
    | none => simp [hx] at h
    | some x =>
      simp [hx] at h
      simp only [setV, hx, getV]
      rw [getElem?_setAt_self _ _ _ _ hx]
      simp only [Option.bind]
      exact getElem?_setAt_self _ _ _ _ h

theorem getV_setV_ne (t : Heap) (l l' : VLoc) (p : Ptr) (h : l ≠ l') :
    getV (setV t l p) l' = getV t l' := by
  cases l with
  | sc i =>
    cases hx : t.scalars[i]? with
    | none => simp [setV, hx]
    | some x =>
      cases l' with
      | sc j =>
        have hij : i ≠ j := fun e => h (by rw [e])
        simp only [setV, hx, getV]
        rw [getElem?_setAt_ne _ _ _ _ hij]
      | el b j => simp [setV, hx, getV]
  | el a i =>
    cases hx : t.arrays[a]? with
    | none => simp [setV, hx]
    | some x =>
      cases l' with
      | sc j => simp [setV, hx, getV]
      | el b j =>
        simp only [setV, hx, getV]
        by_cases hab : a = b
        · subst hab
          have hij : i ≠ j := fun e => h (by rw [e])
          rw [getElem?_setAt_self _ _ _ _ hx, hx]
          simp only [Option.bind]
          exact getElem?_setAt_ne _ _ _ _ hij
        · rw [getElem?_setAt_ne _ _ _ _ hab]

theorem getLoc_setLoc_same (t : Heap) (l : Loc) (p p0 : Ptr) (h : getLoc t l = some p0) :
    getLoc (setLoc t l p) l = some p := by
  cases l with
  | v l => exact getV_setV_same t l p p0 h
  | s k =>
    simp only [getLoc] at h
    cases hx : t.stack[k]? with
    | none => simp [hx] at h
    | some it =>
      cases it with
      | ref l => simp [hx] at h
      | own q =>
        simp only [setLoc, hx, getLoc]
        rw [getElem?_setAt_self _ _ _ _ hx]

theorem getLoc_setLoc_ne (t : Heap) (l l' : Loc) (p : Ptr) (h : l ≠ l') :
    getLoc (setLoc t l p) l' = getLoc t l' := by
  cases l with
  | v l =>
    cases l' with
    | v m => exact getV_setV_ne t l m p (fun e => h (by rw [e]))
    | s k =>
      cases l with
      | sc i => cases hx : t.scalars[i]? <;> simp [setLoc, setV, hx, getLoc]
      | el a i => cases hx : t.arrays[a]? <;> simp [setLoc, setV, hx, getLoc]
  | s k =>
    cases hx : t.stack[k]? with
    | none => simp [setLoc, hx]
    | some it =>
      cases it with
      | ref l => simp [setLoc, hx]
      | own q =>
        cases l' with
        | v m => cases m <;> simp [setLoc, hx, getLoc, getV]
        | s j =>
          have hkj : k ≠ j := fun e => h (by rw [e])
          simp only [setLoc, hx, getLoc]
          rw [getElem?_setAt_ne _ _ _ _ hkj]

/-- the fields a pointer write does not touch -/
theorem setLoc_frame (t : Heap) (l : Loc) (p : Ptr) :
    (setLoc t l p).strs = t.strs ∧ (setLoc t l p).current = t.current ∧ (setLoc t l p).temp = t.temp ∧
    (setLoc t l p).varStart = t.varStart ∧ (setLoc t l p).codeStart = t.codeStart ∧
    (setLoc t l p).code = t.code ∧ (setLoc t l p).total = t.total ∧
    (setLoc t l p).stackSize = t.stackSize ∧ (setLoc t l p).scalBytes = t.scalBytes ∧
    (setLoc t l p).arrBytes = t.arrBytes := by
  cases l with
  | v l =>
    cases l with
    | sc i => cases hx : t.scalars[i]? <;> simp [setLoc, setV, hx]
    | el a i => cases hx : t.arrays[a]? <;> simp [setLoc, setV, hx]
  | s k =>
    cases hx : t.stack[k]? with
    | none => simp [setLoc, hx]
    | some it => cases it <;> simp [setLoc, hx]

theorem getLoc_storeRaw (t : Heap) (b : Bytes) (l : Loc) : getLoc (storeRaw t b).1 l = getLoc t l := by
  cases l with
  | v l => cases l <;> rfl
  | s k => rfl

/-! ### deref -/

theorem deref_zero (t : Heap) (p : Ptr) (h : p.len = 0) : deref t p = [] := by simp [deref, h]

theorem deref_live (t : Heap) (p : Ptr) (b : Bytes) (h0 : p.len ≠ 0) (h1 : t.varStart ≤ p.addr)
    (h2 : lookup t.strs p.addr = some b) : deref t p = b := by simp [deref, h0, h1, h2]

theorem deref_congr (t t' : Heap) (p : Ptr) (h1 : t'.varStart = t.varStart) (h2 : t'.codeStart = t.codeStart)
    (h3 : t'.code = t.code) (h4 : t'.strs = t.strs) : deref t' p = deref t p := by
  simp [deref, h1, h2, h3, h4]

/-- outside string space the value does not depend on string space -/
theorem deref_code (t t' : Heap) (p : Ptr) (h1 : t'.varStart = t.varStart) (h2 : t'.codeStart = t.codeStart)
    (h3 : t'.code = t.code) (h : p.len = 0 ∨ p.addr < t.varStart) : deref t' p = deref t p := by
  cases h with
  | inl h => simp [deref, h]
  | inr h =>
    have : ¬ t.varStart ≤ p.addr := by omega
    simp [deref, h1, h2, h3, this]

/-! ### well-formedness -/

def Live (t : Heap) (p : Ptr) : Prop :=
  0 < p.len → t.varStart ≤ p.addr → ∃ b, lookup t.strs p.addr = some b ∧ b.length = p.len

/-- every pointer cell (scalars, array elements, own pointers on the evaluation stacks) with a
    non-zero length that points into string space is a key of the map with that length; the blocks are
    disjoint, non-empty and lie above `current` and not above the top of string space -/
structure WF (s : Heap) : Prop where
  blocks : Blocks s.current s.top s.strs
  live : ∀ l p, getLoc s l = some p → Live s p

/-! ### roots -/

theorem mem_enumFrom (l : List α) (n i : Nat) (x : α) (h : l[i]? = some x) : (n + i, x) ∈ enumFrom n l := by
  induction l generalizing n i with
  | nil => simp at h
  | cons y r ih =>
    cases i with
    | zero => simp at h; subst h; simp [enumFrom]
    | succ k =>
      simp at h
      have := ih (n + 1) k h
      simp only [enumFrom, List.mem_cons]
      right
      have e : n + (k + 1) = n + 1 + k := by omega
      rw [e]; exact this

/-- every cell is a root of the collector -/
theorem mem_rootLocs (s : Heap) (l : Loc) (p : Ptr) (h : getLoc s l = some p) : l ∈ rootLocs s := by
  unfold rootLocs
  cases l with
  | v l =>
    cases l with
    | sc i =>
      simp only [getLoc, getV] at h
      cases hx : s.scalars[i]? with
      | none => simp [hx] at h
      | some x =>
        apply List.mem_append_left; apply List.mem_append_left
        have := mem_enumFrom s.scalars 0 i x hx
        simp only [Nat.zero_add] at this
        exact List.mem_map.mpr ⟨(i, x), this, rfl⟩
    | el a i =>
      simp only [getLoc, getV] at h
      cases hx : s.arrays[a]? with
      | none => simp [hx] at h
      | some x =>
        simp [hx] at h
        apply List.mem_append_left; apply List.mem_append_right
        have h1 := mem_enumFrom s.arrays 0 a x hx
        have h2 := mem_enumFrom x.2 0 i p h
        simp only [Nat.zero_add] at h1 h2
        apply List.mem_flatten.mpr
        refine ⟨_, List.mem_map.mpr ⟨(a, x), h1, rfl⟩, ?_⟩
        exact List.mem_map.mpr ⟨(i, p), h2, rfl⟩
  | s k =>
    simp only [getLoc] at h
    cases hx : s.stack[k]? with
    | none => simp [hx] at h
    | some it =>
      cases it with
      | ref l => simp [hx] at h
      | own q =>
        apply List.mem_append_right
        have := mem_enumFrom s.stack 0 k (.own q) hx
        simp only [Nat.zero_add] at this
        exact List.mem_map.mpr ⟨(k, .own q), this, rfl⟩

/-! ### entries -/

theorem entriesOf_spec (s : Heap) (ls : List Loc) (es : List Entry) (h : entriesOf s ls = some es) :
    ∀ e ∈ es, getLoc s e.loc = some ⟨e.plen, e.addr⟩ ∧ s.varStart ≤ e.addr ∧
      retrieve s ⟨e.plen, e.addr⟩ = some e.bytes := by
  induction ls generalizing es with
  | nil => simp [entriesOf] at h; subst h; simp
  | cons l r ih =>
    simp only [entriesOf] at h
    cases hg : getLoc s l with
    | none => rw [hg] at h; exact ih es h
    | some p =>
      rw [hg] at h
      simp only at h
      by_cases hv : s.varStart ≤ p.addr
      · rw [if_pos hv] at h
        cases hr : retrieve s p with
        | none => rw [hr] at h; simp at h
        | some b =>
          cases he : entriesOf s r with
          | none => rw [hr, he] at h; simp at h
          | some es' =>
            rw [hr, he] at h
            simp at h; subst h
            intro e hm
            cases hm with
            | head => exact ⟨hg, hv, hr⟩
            | tail _ hm => exact ih es' he e hm
      · rw [if_neg hv] at h; exact ih es h

theorem entriesOf_complete (s : Heap) (ls : List Loc) (es : List Entry) (h : entriesOf s ls = some es) :
    ∀ l ∈ ls, ∀ p, getLoc s l = some p → s.varStart ≤ p.addr → ∃ e ∈ es, e.loc = l := by
  induction ls generalizing es with
  | nil => intro l hl; cases hl
  | cons l0 r ih =>
    simp only [entriesOf] at h
    intro l hl p hp hv
    cases hg : getLoc s l0 with
    | none =>
      rw [hg] at h
      cases hl with
      | head => rw [hg] at hp; cases hp
      | tail _ hl => exact ih es h l hl p hp hv
    | some p0 =>
      rw [hg] at h
      simp only at h
      by_cases hv0 : s.varStart ≤ p0.addr
      · rw [if_pos hv0] at h
        cases hr : retrieve s p0 with
        | none => rw [hr] at h; simp at h
        | some b =>
          cases he : entriesOf s r with
          | none => rw [hr, he] at h; simp at h
          | some es' =>
            rw [hr, he] at h
            simp at h; subst h
            cases hl with
            | head => exact ⟨_, List.mem_cons_self, rfl⟩
            | tail _ hl =>
              obtain ⟨e, hm, hloc⟩ := ih es' he l hl p hp hv
              exact ⟨e, List.mem_cons_of_mem _ hm, hloc⟩
      · rw [if_neg hv0] at h
        cases hl with
        | head => rw [hg] at hp; cases hp; exact absurd hv hv0
        | tail _ hl => exact ih es h l hl p hp hv

theorem entriesOf_total (s : Heap) (hw : WF s) (ls : List Loc) : ∃ es, entriesOf s ls = some es := by
  induction ls with
  | nil => exact ⟨[], rfl⟩
  | cons l r ih =>
    obtain ⟨es, he⟩ := ih
    simp only [entriesOf]
    cases hg : getLoc s l with
    | none => exact ⟨es, he⟩
    | some p =>
      simp only
      by_cases hv : s.varStart ≤ p.addr
      · rw [if_pos hv]
        by_cases h0 : p.len = 0
        · simp [retrieve, h0, he]
        · obtain ⟨b, hb, _⟩ := hw.live l p hg (by omega) hv
          simp [retrieve, h0, hb, he]
      · rw [if_neg hv]; exact ⟨es, he⟩

/-! ### the sort -/

theorem mem_insertDesc (e x : Entry) (l : List Entry) : x ∈ insertDesc e l ↔ x = e ∨ x ∈ l := by
  induction l with
  | nil => simp [insertDesc]
  | cons y r ih =>
    simp only [insertDesc]
    split
    · simp only [List.mem_cons, ih]
      constructor
      · rintro (h | h | h)
        · exact Or.inr (Or.inl h)
        · exact Or.inl h
        · exact Or.inr (Or.inr h)
      · rintro (h | h | h)
        · exact Or.inr (Or.inl h)
        · exact Or.inl h
        · exact Or.inr (Or.inr h)
    · simp [List.mem_cons]

theorem mem_sortDesc (x : Entry) (l : List Entry) : x ∈ sortDesc l ↔ x ∈ l := by
  induction l with
  | nil => simp [sortDesc]
  | cons y r ih => simp [sortDesc, mem_insertDesc, ih]

def SortedDesc : List Entry → Prop
  | [] => True
  | e :: r => (∀ x ∈ r, x.addr ≤ e.addr) ∧ SortedDesc r

theorem sorted_insertDesc (e : Entry) (l : List Entry) (h : SortedDesc l) : SortedDesc (insertDesc e l) := by
  induction l with
  | nil => simp [insertDesc, SortedDesc]
  | cons y r ih =>
    simp only [insertDesc]
    split
    · next hgt =>
      refine ⟨?_, ih h.2⟩
      intro x hx
      rcases (mem_insertDesc e x r).mp hx with hx | hx
      · subst hx; omega
      · exact h.1 x hx
    · next hle =>
      refine ⟨?_, h⟩
      intro x hx
      cases hx with
      | head => omega
      | tail _ hx => have := h.1 x hx; omega

theorem sorted_sortDesc (l : List Entry) : SortedDesc (sortDesc l) := by
  induction l with
  | nil => trivial
  | cons y r ih => exact sorted_insertDesc y _ ih

/-! ### the second loop of the collector -/

theorem storeRaw_fields (t : Heap) (b : Bytes) :
    (storeRaw t b).1.current = t.current - b.length ∧
    (storeRaw t b).1.strs = (if b.length > 0 then (t.current - b.length + 1, b) :: t.strs else t.strs) ∧
    (storeRaw t b).2 = ⟨b.length, t.current - b.length + 1⟩ ∧
    (storeRaw t b).1.varStart = t.varStart ∧ (storeRaw t b).1.codeStart = t.codeStart ∧
    (storeRaw t b).1.code = t.code ∧ (storeRaw t b).1.total = t.total ∧
    (storeRaw t b).1.stackSize = t.stackSize ∧ (storeRaw t b).1.temp = t.temp ∧
    (storeRaw t b).1.scalBytes = t.scalBytes ∧ (storeRaw t b).1.arrBytes = t.arrBytes :=
  ⟨rfl, rfl, rfl, rfl, rfl, rfl, rfl, rfl, rfl, rfl, rfl⟩

def sumLen : List (Nat × Bytes) → Nat
  | [] => 0
  | (_, b) :: r => b.length + sumLen r

/-- the cell `l` has been relocated: it reads what it read in `s`, from a live block of `t` -/
def Done (s t : Heap) (l : Loc) (p : Ptr) : Prop :=
  ∃ p0, getLoc s l = some p0 ∧ p.len = (deref s p0).length ∧ deref t p = deref s p0 ∧
    (0 < p.len → s.varStart ≤ p.addr ∧ ∃ b, lookup t.strs p.addr = some b ∧ b.length = p.len)

structure RInv (s t : Heap) (last : Option (Nat × Ptr)) (R : List Entry) : Prop where
  vs : t.varStart = s.varStart
  cs : t.codeStart = s.codeStart
  cd : t.code = s.code
  tot : t.total = s.total
  stk : t.stackSize = s.stackSize
  fill : t.current + sumLen t.strs = s.top
  blocks : Blocks t.current s.top t.strs
  none_iff : ∀ l, getLoc t l = none ↔ getLoc s l = none
  cells : ∀ l p, getLoc t l = some p →
      Done s t l p ∨ (getLoc s l = some p ∧ (0 < p.len → s.varStart ≤ p.addr → ∃ e ∈ R, e.loc = l))
  lastOk : ∀ a q, last = some (a, q) → 0 < q.len ∧ a ≤ q.addr ∧ t.current + 1 = q.addr ∧
      ∃ b, lookup s.strs a = some b ∧ lookup t.strs q.addr = some b ∧ b.length = q.len
  lastNone : last = none → t.current = s.top
  sorted : SortedDesc R
  bound : ∀ a q, last = some (a, q) → ∀ e ∈ R, e.addr ≤ a
  ents : ∀ e ∈ R, getLoc s e.loc = some ⟨e.plen, e.addr⟩ ∧ s.varStart ≤ e.addr ∧
      retrieve s ⟨e.plen, e.addr⟩ = some e.bytes

/-- what an entry says about its string in the old heap -/
theorem entry_facts (s : Heap) (hs : WF s) (e : Entry)
    (he : getLoc s e.loc = some ⟨e.plen, e.addr⟩ ∧ s.varStart ≤ e.addr ∧ retrieve s ⟨e.plen, e.addr⟩ = some e.bytes) :
    deref s ⟨e.plen, e.addr⟩ = e.bytes ∧
    (e.bytes.length = 0 → e.plen = 0) ∧
    (0 < e.bytes.length → e.plen = e.bytes.length ∧ lookup s.strs e.addr = some e.bytes ∧
        s.current < e.addr ∧ e.addr + e.bytes.length - 1 ≤ s.top) := by
  obtain ⟨hg, hv, hr⟩ := he
  by_cases h0 : e.plen = 0
  · simp [retrieve, h0] at hr
    refine ⟨?_, fun _ => h0, ?_⟩
    · rw [deref_zero _ _ h0]; exact hr.symm
    · intro h; rw [hr] at h; simp at h
  · simp [retrieve, h0] at hr
    obtain ⟨b, hb, hbl⟩ := hs.live e.loc _ hg (by simp; omega) hv
    simp at hb hbl
    rw [hr] at hb; cases hb
    have hk := hs.blocks.key hr
    refine ⟨deref_live s _ _ h0 hv hr, fun h => by omega, fun _ => ⟨hbl.symm, hr, hk.1, hk.2.2⟩⟩

theorem Done.keep {s t t' : Heap} {l : Loc} {p : Ptr} (h : Done s t l p)
    (h1 : t'.varStart = t.varStart) (h2 : t'.codeStart = t.codeStart) (h3 : t'.code = t.code)
    (hv : t.varStart = s.varStart)
    (hk : ∀ a b, lookup t.strs a = some b → lookup t'.strs a = some b) : Done s t' l p := by
  obtain ⟨p0, hg, hl, hd, hlive⟩ := h
  refine ⟨p0, hg, hl, ?_, ?_⟩
  · by_cases h0 : p.len = 0
    · rw [deref_zero _ _ h0] at hd ⊢; exact hd
    · obtain ⟨hvp, b, hb, _⟩ := hlive (by omega)
      rw [← hd, deref_live t p b h0 (by omega) hb, deref_live t' p b h0 (by omega) (hk _ _ hb)]
  · intro hp
    obtain ⟨hvp, b, hb, hbl⟩ := hlive hp
    exact ⟨hvp, b, hk _ _ hb, hbl⟩

theorem RInv.fresh {s t : Heap} {last : Option (Nat × Ptr)} {e : Entry} {R : List Entry} (hs : WF s)
    (h : RInv s t last (e :: R))
    (hc : ∀ a q, last = some (a, q) → ¬ (e.bytes.length > 0 ∧ e.addr = a)) :
    RInv s (setLoc (storeRaw t e.bytes).1 e.loc (storeRaw t e.bytes).2)
      (if e.bytes.length > 0 then some (e.addr, (storeRaw t e.bytes).2) else last) R := by
  have he := h.ents e List.mem_cons_self
  obtain ⟨hde, hz, hpos⟩ := entry_facts s hs e he
  obtain ⟨hg, hv, hr⟩ := he
  obtain ⟨f1, f2, f3, f4, f5, f6, f7, f8, f9, f10, f11⟩ := storeRaw_fields t e.bytes
  obtain ⟨g1, g2, g3, g4, g5, g6, g7, g8, g9, g10⟩ := setLoc_frame (storeRaw t e.bytes).1 e.loc (storeRaw t e.bytes).2
  have hlen : (storeRaw t e.bytes).2.len = e.bytes.length := by rw [f3]
  have haddr : (storeRaw t e.bytes).2.addr = t.current - e.bytes.length + 1 := by rw [f3]
  -- the cell exists in t
  have hex : ∃ p1, getLoc t e.loc = some p1 := by
    cases hq : getLoc t e.loc with
    | none => rw [(h.none_iff e.loc).mp hq] at hg; cases hg
    | some p1 => exact ⟨p1, rfl⟩
  obtain ⟨p1, hp1⟩ := hex
  have hsame : getLoc (setLoc (storeRaw t e.bytes).1 e.loc (storeRaw t e.bytes).2) e.loc = some (storeRaw t e.bytes).2 :=
    getLoc_setLoc_same _ _ _ p1 (by rw [getLoc_storeRaw]; exact hp1)
  have hother : ∀ l, l ≠ e.loc →
      getLoc (setLoc (storeRaw t e.bytes).1 e.loc (storeRaw t e.bytes).2) l = getLoc t l := by
    intro l hl
    rw [getLoc_setLoc_ne _ _ _ _ (fun x => hl x.symm), getLoc_storeRaw]
  -- room: the string moves up, never down
  have hroom : 0 < e.bytes.length → e.bytes.length ≤ t.current ∧ e.addr ≤ t.current - e.bytes.length + 1 := by
    intro hn
    obtain ⟨_, hlk, hcur, htop⟩ := hpos hn
    cases hl : last with
    | none =>
      have := h.lastNone hl
      omega
    | some aq =>
      obtain ⟨a, q⟩ := aq
      obtain ⟨_, haq, hcq, b, hb, _, _⟩ := h.lastOk a q hl
      have hle := h.bound a q hl e List.mem_cons_self
      have hne : e.addr ≠ a := fun x => hc a q hl ⟨hn, x⟩
      have := hs.blocks.sep hlk hb (by omega)
      omega
  have hkeep : ∀ a b, lookup t.strs a = some b →
      lookup (setLoc (storeRaw t e.bytes).1 e.loc (storeRaw t e.bytes).2).strs a = some b := by
    intro a b hab
    rw [g1, f2]
    by_cases hn : e.bytes.length > 0
    · rw [if_pos hn]
      have := (h.blocks.key hab).1
      have hr' := hroom hn
      rw [lookup_cons_ne _ _ _ _ (by omega)]; exact hab
    · rw [if_neg hn]; exact hab
  refine ⟨by rw [g4, f4]; exact h.vs, by rw [g5, f5]; exact h.cs, by rw [g6, f6]; exact h.cd,
    by rw [g7, f7]; exact h.tot, by rw [g8, f8]; exact h.stk, ?_, ?_, ?_, ?_, ?_, ?_,
    h.sorted.2, ?_, fun x hx => h.ents x (List.mem_cons_of_mem _ hx)⟩
  · -- fill
    rw [g2, g1, f1, f2]
    have := h.fill
    by_cases hn : e.bytes.length > 0
    · rw [if_pos hn]
      have hr' := hroom hn
      simp only [sumLen]; omega
    · rw [if_neg hn]; omega
  · -- blocks
    rw [g2, g1, f1, f2]
    by_cases hn : e.bytes.length > 0
    · rw [if_pos hn]
      have hr' := hroom hn
      refine ⟨by omega, hn, ?_⟩
      have : t.current - e.bytes.length + 1 + e.bytes.length - 1 = t.current := by omega
      rw [this]; exact h.blocks
    · rw [if_neg hn]
      have : e.bytes.length = 0 := by omega
      rw [this]; exact h.blocks
  · -- none_iff
    intro l
    by_cases hl : l = e.loc
    · subst hl; rw [hsame, hg]; simp
    · rw [hother l hl]; exact h.none_iff l
  · -- cells
    intro l p hp
    by_cases hl : l = e.loc
    · subst hl
      rw [hsame] at hp; cases hp
      left
      refine ⟨_, hg, ?_, ?_, ?_⟩
      · rw [hde, hlen]
      · rw [hde]
        by_cases hn : e.bytes.length > 0
        · have hr' := hroom hn
          apply deref_live
          · rw [hlen]; omega
          · rw [g4, f4, h.vs, haddr]; omega
          · rw [g1, f2, if_pos hn, haddr]; exact lookup_cons_self _ _ _
        · have h0 : e.bytes.length = 0 := by omega
          rw [deref_zero _ _ (by rw [hlen]; exact h0)]
          exact (List.length_eq_zero_iff.mp h0).symm
      · intro hn
        rw [hlen] at hn
        have hr' := hroom hn
        refine ⟨by rw [haddr]; omega, e.bytes, ?_, by rw [hlen]⟩
        rw [g1, f2, if_pos hn, haddr]; exact lookup_cons_self _ _ _
    · rw [hother l hl] at hp
      rcases h.cells l p hp with hd | ⟨hu, hpend⟩
      · left
        exact hd.keep (by rw [g4, f4]) (by rw [g5, f5]) (by rw [g6, f6]) h.vs hkeep
      · right
        refine ⟨hu, fun h1 h2 => ?_⟩
        obtain ⟨e', hm, hloc⟩ := hpend h1 h2
        cases hm with
        | head => exact absurd hloc.symm hl
        | tail _ hm => exact ⟨e', hm, hloc⟩
  · -- lastOk
    intro a q hl
    by_cases hn : e.bytes.length > 0
    · rw [if_pos hn] at hl
      cases hl
      have hr' := hroom hn
      obtain ⟨_, hlk, _, _⟩ := hpos hn
      refine ⟨by rw [hlen]; exact hn, by rw [haddr]; omega, by rw [g2, f1, haddr], e.bytes, hlk, ?_, by rw [hlen]⟩
      rw [g1, f2, if_pos hn, haddr]; exact lookup_cons_self _ _ _
    · rw [if_neg hn] at hl
      obtain ⟨h1, h2, h3, b, h4, h5, h6⟩ := h.lastOk a q hl
      have h0 : e.bytes.length = 0 := by omega
      refine ⟨h1, h2, by rw [g2, f1, h0]; simpa using h3, b, h4, hkeep _ _ h5, h6⟩
  · -- lastNone
    intro hl
    by_cases hn : e.bytes.length > 0
    · rw [if_pos hn] at hl; cases hl
    · rw [if_neg hn] at hl
      have h0 : e.bytes.length = 0 := by omega
      rw [g2, f1, h0]; simpa using h.lastNone hl
  · -- bound
    intro a q hl x hx
    by_cases hn : e.bytes.length > 0
    · rw [if_pos hn] at hl; cases hl
      exact h.sorted.1 x hx
    · rw [if_neg hn] at hl
      exact h.bound a q hl x (List.mem_cons_of_mem _ hx)

theorem RInv.dedupe {s t : Heap} {a : Nat} {q : Ptr} {e : Entry} {R : List Entry} (hs : WF s)
    (h : RInv s t (some (a, q)) (e :: R)) (hn : e.bytes.length > 0) (ha : e.addr = a) :
    RInv s (setLoc t e.loc q) (some (a, q)) R := by
  have he := h.ents e List.mem_cons_self
  obtain ⟨hde, hz, hpos⟩ := entry_facts s hs e he
  obtain ⟨hg, hv, hr⟩ := he
  obtain ⟨g1, g2, g3, g4, g5, g6, g7, g8, g9, g10⟩ := setLoc_frame t e.loc q
  obtain ⟨q1, q2, q3, b, q4, q5, q6⟩ := h.lastOk a q rfl
  obtain ⟨_, hlk, _, _⟩ := hpos hn
  have hb : b = e.bytes := by rw [ha, q4] at hlk; cases hlk; rfl
  have hex : ∃ p1, getLoc t e.loc = some p1 := by
    cases hq : getLoc t e.loc with
    | none => rw [(h.none_iff e.loc).mp hq] at hg; cases hg
    | some p1 => exact ⟨p1, rfl⟩
  obtain ⟨p1, hp1⟩ := hex
  have hsame : getLoc (setLoc t e.loc q) e.loc = some q := getLoc_setLoc_same _ _ _ p1 hp1
  have hother : ∀ l, l ≠ e.loc → getLoc (setLoc t e.loc q) l = getLoc t l :=
    fun l hl => getLoc_setLoc_ne _ _ _ _ (fun x => hl x.symm)
  refine ⟨by rw [g4]; exact h.vs, by rw [g5]; exact h.cs, by rw [g6]; exact h.cd, by rw [g7]; exact h.tot,
    by rw [g8]; exact h.stk, by rw [g2, g1]; exact h.fill, by rw [g2, g1]; exact h.blocks,
    ?_, ?_, ?_, (fun x => by cases x), h.sorted.2, ?_, fun x hx => h.ents x (List.mem_cons_of_mem _ hx)⟩
  · intro l
    by_cases hl : l = e.loc
    · subst hl; rw [hsame, hg]; simp
    · rw [hother l hl]; exact h.none_iff l
  · intro l p hp
    by_cases hl : l = e.loc
    · subst hl
      rw [hsame] at hp; cases hp
      left
      refine ⟨_, hg, by rw [hde, ← hb, q6], ?_, fun _ => ⟨by omega, b, by rw [g1]; exact q5, q6⟩⟩
      rw [hde, ← hb]
      exact deref_live _ _ _ (by omega) (by rw [g4, h.vs]; omega) (by rw [g1]; exact q5)
    · rw [hother l hl] at hp
      rcases h.cells l p hp with hd | ⟨hu, hpend⟩
      · left
        exact hd.keep g4 g5 g6 h.vs (fun a b hab => by rw [g1]; exact hab)
      · right
        refine ⟨hu, fun h1 h2 => ?_⟩
        obtain ⟨e', hm, hloc⟩ := hpend h1 h2
        cases hm with
        | head => exact absurd hloc.symm hl
        | tail _ hm => exact ⟨e', hm, hloc⟩
  · intro a' q' hl
    cases hl
    exact ⟨q1, q2, by rw [g2]; exact q3, b, q4, by rw [g1]; exact q5, q6⟩
  · intro a' q' hl x hx
    exact h.bound a' q' hl x (List.mem_cons_of_mem _ hx)

theorem restore_inv {s : Heap} (hs : WF s) (R : List Entry) (t : Heap) (last : Option (Nat × Ptr))
    (h : RInv s t last R) : ∃ last', RInv s (restore t last R) last' [] := by
  induction R generalizing t last with
  | nil => exact ⟨last, h⟩
  | cons e R ih =>
    cases hl : last with
    | none =>
      subst hl
      simp only [restore]
      exact ih _ _ (h.fresh hs (fun a q x => by cases x))
    | some aq =>
      obtain ⟨a, q⟩ := aq
      subst hl
      simp only [restore]
      by_cases hc : e.bytes.length > 0 ∧ e.addr = a
      · rw [if_pos hc]
        exact ih _ _ (h.dedupe hs hc.1 hc.2)
      · rw [if_neg hc]
        exact ih _ _ (h.fresh hs (fun a' q' x => by cases x; exact hc))

/-! ### shape -/

def kindOf : Item → Option VLoc
  | .own _ => none
  | .ref l => some l

/-- same variables, same array sizes, same kinds of stack items -/
structure SameShape (t s : Heap) : Prop where
  sc : t.scalars.map (·.1) = s.scalars.map (·.1)
  ar : t.arrays.map (fun x => (x.1, x.2.length)) = s.arrays.map (fun x => (x.1, x.2.length))
  st : t.stack.map kindOf = s.stack.map kindOf

theorem map_setAt (f : α → β) (l : List α) (i : Nat) (x y : α) (h : l[i]? = some y) (hf : f x = f y) :
    (setAt l i x).map f = l.map f := by
  induction l generalizing i with
  | nil => rfl
  | cons z r ih =>
    cases i with
    | zero => simp at h; subst h; simp [setAt, hf]
    | succ n => simp at h; simp [setAt, ih n h]

theorem setLoc_shape (t : Heap) (l : Loc) (p : Ptr) : SameShape (setLoc t l p) t := by
  cases l with
  | v l =>
    cases l with
    | sc i =>
      cases hx : t.scalars[i]? with
      | none => simp only [setLoc, setV, hx]; exact ⟨rfl, rfl, rfl⟩
      | some x =>
        simp only [setLoc, setV, hx]
        exact ⟨map_setAt _ _ _ _ _ hx rfl, rfl, rfl⟩
    | el a i =>
      cases hx : t.arrays[a]? with
      | none => simp only [setLoc, setV, hx]; exact ⟨rfl, rfl, rfl⟩
      | some x =>
        simp only [setLoc, setV, hx]
        exact ⟨rfl, map_setAt _ _ _ _ _ hx (by simp [length_setAt]), rfl⟩
  | s k =>
    cases hx : t.stack[k]? with
    | none => simp only [setLoc, hx]; exact ⟨rfl, rfl, rfl⟩
    | some it =>
      cases it with
      | ref l => simp only [setLoc, hx]; exact ⟨rfl, rfl, rfl⟩
      | own q =>
        simp only [setLoc, hx]
        exact ⟨rfl, rfl, map_setAt _ _ _ _ _ hx rfl⟩

theorem SameShape.trans {a b c : Heap} (h1 : SameShape a b) (h2 : SameShape b c) : SameShape a c :=
  ⟨h1.sc.trans h2.sc, h1.ar.trans h2.ar, h1.st.trans h2.st⟩

theorem storeRaw_shape (t : Heap) (b : Bytes) : SameShape (storeRaw t b).1 t := ⟨rfl, rfl, rfl⟩

theorem restore_shape (R : List Entry) (t : Heap) (last : Option (Nat × Ptr)) :
    SameShape (restore t last R) t := by
  induction R generalizing t last with
  | nil => exact ⟨rfl, rfl, rfl⟩
  | cons e R ih =>
    cases last with
    | none =>
      simp only [restore]
      exact (ih _ _).trans ((setLoc_shape _ _ _).trans (storeRaw_shape _ _))
    | some aq =>
      obtain ⟨a, q⟩ := aq
      simp only [restore]
      split
      · exact (ih _ _).trans (setLoc_shape _ _ _)
      · exact (ih _ _).trans ((setLoc_shape _ _ _).trans (storeRaw_shape _ _))

/-- values read through every cell agree ⇒ the abstract states agree -/
theorem abs_eq_of_cells {t s : Heap} (hsh : SameShape t s)
    (h : ∀ l, (getLoc t l).map (deref t) = (getLoc s l).map (deref s)) :
    absScalars t = absScalars s ∧ absArrays t = absArrays s ∧ absStack t = absStack s := by
  refine ⟨?_, ?_, ?_⟩
  · apply List.ext_getElem?
    intro i
    have h1 := congrArg (fun l => l[i]?) hsh.sc
    have h2 := h (.v (.sc i))
    simp only [List.getElem?_map, getLoc, getV] at h1 h2
    simp only [absScalars, List.getElem?_map]
    cases hx : t.scalars[i]? <;> cases hy : s.scalars[i]? <;> simp [hx, hy] at h1 h2 ⊢
    exact ⟨h1, h2⟩
  · apply List.ext_getElem?
    intro a
    have h1 := congrArg (fun l => l[a]?) hsh.ar
    simp only [List.getElem?_map] at h1
    simp only [absArrays, List.getElem?_map]
    cases hx : t.arrays[a]? <;> cases hy : s.arrays[a]? <;> simp [hx, hy] at h1 ⊢
    refine ⟨h1.1, ?_⟩
    apply List.ext_getElem?
    intro i
    have h2 := h (.v (.el a i))
    simp only [getLoc, getV, hx, hy] at h2
    simp only [List.getElem?_map]
    exact h2
  · apply List.ext_getElem?
    intro k
    have h1 := congrArg (fun l => l[k]?) hsh.st
    simp only [List.getElem?_map] at h1
    simp only [absStack, List.getElem?_map]
    cases hx : t.stack[k]? with
    | none =>
      cases hy : s.stack[k]? with
      | none => rfl
      | some y => simp [hx, hy] at h1
    | some x =>
      cases hy : s.stack[k]? with
      | none => simp [hx, hy] at h1
      | some y =>
        simp [hx, hy] at h1
        simp only [Option.map]
        congr 1
        cases x with
        | own p =>
          cases y with
          | ref l => simp [kindOf] at h1
          | own q =>
            have h2 := h (.s k)
            simp only [getLoc, hx, hy, Option.map] at h2
            simp only [itemVal, itemPtr]
            exact Option.some.inj h2
        | ref l =>
          cases y with
          | own q => simp [kindOf] at h1
          | ref m =>
            simp [kindOf] at h1; subst h1
            have h2 := h (.v l)
            simp only [getLoc] at h2
            simp only [itemVal, itemPtr]
            cases hu : getV t l <;> cases hw : getV s l <;> simp [hu, hw] at h2 ⊢
            · rw [deref_zero _ _ rfl, deref_zero _ _ rfl]
            · exact h2

theorem getLoc_congr (t s : Heap) (h1 : t.scalars = s.scalars) (h2 : t.arrays = s.arrays) (h3 : t.stack = s.stack)
    (l : Loc) : getLoc t l = getLoc s l := by
  cases l with
  | v l => cases l <;> simp [getLoc, getV, h1, h2]
  | s k => simp [getLoc, h3]

theorem top_congr (t s : Heap) (h1 : t.total = s.total) (h2 : t.stackSize = s.stackSize) : t.top = s.top := by
  simp [Heap.top, h1, h2]

/-! ### the collector -/

/-- the result of the two loops of the collector, before `_temp` is re-addressed -/
theorem collect_core (s : Heap) (hs : WF s) (es : List Entry) (he : entriesOf s (rootLocs s) = some es) :
    ∃ last, RInv s (restore { s with strs := [], current := s.top } none (sortDesc es)) last [] := by
  apply restore_inv hs
  have hgl : ∀ l, getLoc { s with strs := [], current := s.top } l = getLoc s l :=
    fun l => getLoc_congr _ s rfl rfl rfl l
  refine ⟨rfl, rfl, rfl, rfl, rfl, by simp [sumLen], Nat.le_refl _, (fun l => by rw [hgl]),
    ?_, (fun a q x => by cases x), (fun _ => rfl), sorted_sortDesc es, (fun a q x => by cases x), ?_⟩
  · intro l p hp
    right
    rw [hgl] at hp
    refine ⟨hp, fun _ hv => ?_⟩
    obtain ⟨e, hm, hl⟩ := entriesOf_complete s _ es he l (mem_rootLocs s l p hp) p hp hv
    exact ⟨e, (mem_sortDesc e es).mpr hm, hl⟩
  · intro e hm
    exact entriesOf_spec s _ es he e ((mem_sortDesc e es).mp hm)

/-- after the loops: well-formed, same shape, every cell reads what it read before -/
theorem RInv.final {s t : Heap} {last : Option (Nat × Ptr)} (h : RInv s t last []) :
    Blocks t.current t.top t.strs ∧ (∀ l p, getLoc t l = some p → Live t p) ∧
    (∀ l, (getLoc t l).map (deref t) = (getLoc s l).map (deref s)) := by
  have htop := top_congr t s h.tot h.stk
  refine ⟨by rw [htop]; exact h.blocks, ?_, ?_⟩
  · intro l p hp hlen hv
    rcases h.cells l p hp with ⟨p0, _, _, _, hl⟩ | ⟨_, hpend⟩
    · exact (hl hlen).2
    · obtain ⟨e, hm, _⟩ := hpend hlen (by rw [← h.vs]; exact hv)
      cases hm
  · intro l
    cases hp : getLoc t l with
    | none => rw [(h.none_iff l).mp hp]; rfl
    | some p =>
      rcases h.cells l p hp with ⟨p0, hg, _, hd, _⟩ | ⟨hu, hpend⟩
      · rw [hg]; simp [hd]
      · rw [hu]
        simp only [Option.map]
        congr 1
        apply deref_code s t p h.vs h.cs h.cd
        by_cases h0 : p.len = 0
        · exact Or.inl h0
        · right
          by_cases hv : s.varStart ≤ p.addr
          · obtain ⟨e, hm, _⟩ := hpend (by omega) hv
            cases hm
          · omega

theorem RInv.current_ge {s t : Heap} {last : Option (Nat × Ptr)} {R : List Entry} (hs : WF s)
    (h : RInv s t last R) : s.current ≤ t.current := by
  cases hl : last with
  | none => rw [h.lastNone hl]; exact hs.blocks.le_top
  | some aq =>
    obtain ⟨a, q⟩ := aq
    obtain ⟨_, h2, h3, b, h4, _, _⟩ := h.lastOk a q hl
    have := (hs.blocks.key h4).1
    omega

/-! ### storing a new string -/

theorem getLoc_push_v (t : Heap) (it : Item) (l : VLoc) : getLoc (push t it) (.v l) = getLoc t (.v l) := by
  cases l <;> rfl

theorem getLoc_push_s (t : Heap) (it : Item) (k : Nat) :
    getLoc (push t it) (.s k) =
      if k < t.stack.length then getLoc t (.s k)
      else if k = t.stack.length then (match it with | .own p => some p | .ref _ => none) else none := by
  simp only [getLoc, push]
  by_cases h1 : k < t.stack.length
  · rw [if_pos h1, List.getElem?_append_left h1]
  · rw [if_neg h1, List.getElem?_append_right (by omega)]
    by_cases h2 : k = t.stack.length
    · subst h2; simp
      cases it <;> rfl
    · rw [if_neg h2]
      have : k - t.stack.length ≠ 0 := by omega
      cases hk : k - t.stack.length with
      | zero => exact absurd hk this
      | succ m => simp

/-- a live pointer reads the same after a new block has been stored below all others -/
theorem deref_storeRaw (t : Heap) (b : Bytes) (p : Ptr) (hb : Blocks t.current t.top t.strs)
    (hn : b.length ≤ t.current) (hl : Live t p) : deref (storeRaw t b).1 p = deref t p := by
  obtain ⟨f1, f2, f3, f4, f5, f6, _⟩ := storeRaw_fields t b
  by_cases h0 : p.len = 0
  · rw [deref_zero _ _ h0, deref_zero _ _ h0]
  · by_cases hv : t.varStart ≤ p.addr
    · obtain ⟨c, hc, _⟩ := hl (by omega) hv
      rw [deref_live t p c h0 hv hc]
      apply deref_live _ _ _ h0 (by rw [f4]; exact hv)
      rw [f2]
      split
      · have := (hb.key hc).1
        rw [lookup_cons_ne _ _ _ _ (by omega)]; exact hc
      · exact hc
    · exact deref_code t _ p f4 f5 f6 (Or.inr (by omega))

theorem WF.storeRaw_push {t : Heap} (h : WF t) (b : Bytes) (hn : b.length ≤ t.current)
    (hv : t.varStart ≤ t.current - b.length + 1) :
    WF (push (storeRaw t b).1 (.own (storeRaw t b).2)) := by
  obtain ⟨f1, f2, f3, f4, f5, f6, f7, f8, _⟩ := storeRaw_fields t b
  have hkeep : ∀ p, Live t p → Live (push (storeRaw t b).1 (.own (storeRaw t b).2)) p := by
    intro p hl h0 hvp
    obtain ⟨c, hc, hcl⟩ := hl h0 hvp
    refine ⟨c, ?_, hcl⟩
    show lookup (storeRaw t b).1.strs p.addr = some c
    rw [f2]
    split
    · have := (h.blocks.key hc).1
      rw [lookup_cons_ne _ _ _ _ (by omega)]; exact hc
    · exact hc
  constructor
  · show Blocks (storeRaw t b).1.current (storeRaw t b).1.top (storeRaw t b).1.strs
    rw [top_congr _ t f7 f8, f1, f2]
    by_cases hp : b.length > 0
    · rw [if_pos hp]
      refine ⟨by omega, hp, ?_⟩
      have : t.current - b.length + 1 + b.length - 1 = t.current := by omega
      rw [this]; exact h.blocks
    · rw [if_neg hp]
      have : b.length = 0 := by omega
      rw [this]; exact h.blocks
  · intro l p hp
    cases l with
    | v l =>
      rw [getLoc_push_v, getLoc_storeRaw] at hp
      exact hkeep p (h.live _ p hp)
    | s k =>
      rw [getLoc_push_s] at hp
      have hlen : (storeRaw t b).1.stack.length = t.stack.length := rfl
      rw [hlen] at hp
      by_cases h1 : k < t.stack.length
      · rw [if_pos h1, getLoc_storeRaw] at hp
        exact hkeep p (h.live _ p hp)
      · rw [if_neg h1] at hp
        by_cases h2 : k = t.stack.length
        · rw [if_pos h2] at hp
          cases hp
          intro h0 _
          rw [f3] at h0; simp at h0
          refine ⟨b, ?_, by rw [f3]⟩
          show lookup (storeRaw t b).1.strs _ = some b
          rw [f2, if_pos h0, f3]; exact lookup_cons_self _ _ _
        · rw [if_neg h2] at hp; cases hp

theorem absScalars_eq {t s : Heap} (hsc : t.scalars.map (·.1) = s.scalars.map (·.1))
    (h : ∀ i, (getLoc t (.v (.sc i))).map (deref t) = (getLoc s (.v (.sc i))).map (deref s)) :
    absScalars t = absScalars s := by
  apply List.ext_getElem?
  intro i
  have h1 := congrArg (fun l => l[i]?) hsc
  have h2 := h i
  simp only [List.getElem?_map, getLoc, getV] at h1 h2
  simp only [absScalars, List.getElem?_map]
  cases hx : t.scalars[i]? <;> cases hy : s.scalars[i]? <;> simp [hx, hy] at h1 h2 ⊢
  exact ⟨h1, h2⟩

theorem absArrays_eq {t s : Heap}
    (har : t.arrays.map (fun x => (x.1, x.2.length)) = s.arrays.map (fun x => (x.1, x.2.length)))
    (h : ∀ a i, (getLoc t (.v (.el a i))).map (deref t) = (getLoc s (.v (.el a i))).map (deref s)) :
    absArrays t = absArrays s := by
  apply List.ext_getElem?
  intro a
  have h1 := congrArg (fun l => l[a]?) har
  simp only [List.getElem?_map] at h1
  simp only [absArrays, List.getElem?_map]
  cases hx : t.arrays[a]? <;> cases hy : s.arrays[a]? <;> simp [hx, hy] at h1 ⊢
  refine ⟨h1.1, ?_⟩
  apply List.ext_getElem?
  intro i
  have h2 := h a i
  simp only [getLoc, getV, hx, hy] at h2
  simp only [List.getElem?_map]
  exact h2

theorem restore_frame (R : List Entry) (t : Heap) (last : Option (Nat × Ptr)) :
    (restore t last R).scalBytes = t.scalBytes ∧ (restore t last R).arrBytes = t.arrBytes := by
  induction R generalizing t last with
  | nil => exact ⟨rfl, rfl⟩
  | cons e R ih =>
    cases last with
    | none =>
      simp only [restore]
      obtain ⟨h1, h2⟩ := ih (setLoc (storeRaw t e.bytes).1 e.loc (storeRaw t e.bytes).2)
        (if e.bytes.length > 0 then some (e.addr, (storeRaw t e.bytes).2) else none)
      obtain ⟨_, _, _, _, _, _, _, _, g9, g10⟩ := setLoc_frame (storeRaw t e.bytes).1 e.loc (storeRaw t e.bytes).2
      exact ⟨by rw [h1, g9]; rfl, by rw [h2, g10]; rfl⟩
    | some aq =>
      obtain ⟨a, q⟩ := aq
      simp only [restore]
      split
      · obtain ⟨h1, h2⟩ := ih (setLoc t e.loc q) (some (a, q))
        obtain ⟨_, _, _, _, _, _, _, _, g9, g10⟩ := setLoc_frame t e.loc q
        exact ⟨by rw [h1, g9], by rw [h2, g10]⟩
      · obtain ⟨h1, h2⟩ := ih (setLoc (storeRaw t e.bytes).1 e.loc (storeRaw t e.bytes).2)
          (if e.bytes.length > 0 then some (e.addr, (storeRaw t e.bytes).2) else some (a, q))
        obtain ⟨_, _, _, _, _, _, _, _, g9, g10⟩ := setLoc_frame (storeRaw t e.bytes).1 e.loc (storeRaw t e.bytes).2
        exact ⟨by rw [h1, g9]; rfl, by rw [h2, g10]; rfl⟩

/-! ### deleting the last temporary -/

theorem lookup_remove_ne (m : List (Nat × Bytes)) (k a : Nat) (h : a ≠ k) :
    lookup (remove m k) a = lookup m a := by
  induction m with
  | nil => rfl
  | cons x r ih =>
    obtain ⟨k', v⟩ := x
    simp only [remove]
    by_cases hk : k' = k
    · rw [if_pos hk]; subst hk
      rw [lookup_cons_ne _ _ _ _ (fun e => h e.symm)]
    · rw [if_neg hk]
      by_cases ha : k' = a
      · subst ha; simp [lookup]
      · rw [lookup_cons_ne _ _ _ _ ha, lookup_cons_ne _ _ _ _ ha]; exact ih

/-- in a block chain the key `current + 1`, if present, is the first (newest) block -/
theorem Blocks.head_of_lookup {c top : Nat} {m : List (Nat × Bytes)} (h : Blocks c top m) {b : Bytes}
    (hl : lookup m (c + 1) = some b) : ∃ r, m = (c + 1, b) :: r := by
  cases m with
  | nil => simp [lookup] at hl
  | cons x r =>
    obtain ⟨k, v⟩ := x
    by_cases hk : k = c + 1
    · subst hk; simp [lookup] at hl; subst hl; exact ⟨r, rfl⟩
    · rw [lookup_cons_ne _ _ _ _ hk] at hl
      have := (h.2.2.key hl).1
      have h1 := h.1; have h2 := h.2.1
      omega

theorem deleteLast_sound (s : Heap) (hs : WF s)
    (hsafe : ∀ l p, getLoc s l = some p → 0 < p.len → p.addr ≠ s.current + 1) :
    WF (deleteLast s) ∧ (∀ l, getLoc (deleteLast s) l = getLoc s l) ∧
    (∀ l p, getLoc s l = some p → deref (deleteLast s) p = deref s p) ∧
    SameShape (deleteLast s) s ∧ (deleteLast s).temp = s.temp := by
  unfold deleteLast
  cases hl : lookup s.strs (s.current + 1) with
  | none => exact ⟨hs, fun _ => rfl, fun _ _ _ => rfl, ⟨rfl, rfl, rfl⟩, by first | rfl | trivial⟩
  | some b =>
    simp only
    obtain ⟨r, hr⟩ := hs.blocks.head_of_lookup hl
    have hrem : remove s.strs (s.current + 1) = r := by rw [hr]; simp [remove]
    have hb := hs.blocks
    rw [hr] at hb
    have hgl : ∀ l, getLoc { s with current := s.current + b.length, strs := remove s.strs (s.current + 1) } l
        = getLoc s l := fun l => getLoc_congr _ s rfl rfl rfl l
    refine ⟨⟨?_, ?_⟩, hgl, ?_, ⟨rfl, rfl, rfl⟩, by first | rfl | trivial⟩
    · show Blocks (s.current + b.length) s.top (remove s.strs (s.current + 1))
      rw [hrem]
      have : s.current + 1 + b.length - 1 = s.current + b.length := by omega
      rw [← this]; exact hb.2.2
    · intro l p hp h0 hv
      rw [hgl] at hp
      obtain ⟨c, hc, hcl⟩ := hs.live l p hp h0 hv
      refine ⟨c, ?_, hcl⟩
      show lookup (remove s.strs (s.current + 1)) p.addr = some c
      rw [lookup_remove_ne _ _ _ (hsafe l p hp h0)]; exact hc
    · intro l p hp
      by_cases h0 : p.len = 0
      · rw [deref_zero _ _ h0, deref_zero _ _ h0]
      · simp only [deref, h0, if_false]
        rw [lookup_remove_ne _ _ _ (hsafe l p hp (by omega))]

/-- result of `collect` in terms of the two loops -/
theorem collect_shape (s : Heap) (es : List Entry) (he : entriesOf s (rootLocs s) = some es) :
    ∃ tmp, collect s = .ok { restore { s with strs := [], current := s.top } none (sortDesc es) with temp := tmp } := by
  unfold collect
  rw [he]
  simp only
  split
  · exact ⟨_, rfl⟩
  · split
    · exact ⟨_, rfl⟩
    · exact ⟨_, rfl⟩


theorem collect_facts (s s' : Heap) (hs : WF s) (h : collect s = .ok s') :
    ∃ t last, RInv s t last [] ∧ SameShape t s ∧ s'.strs = t.strs ∧ s'.current = t.current ∧
      s'.total = t.total ∧ s'.stackSize = t.stackSize ∧ s'.varStart = t.varStart ∧
      s'.codeStart = t.codeStart ∧ s'.code = t.code ∧ s'.scalars = t.scalars ∧ s'.arrays = t.arrays ∧
      s'.stack = t.stack ∧ s'.scalBytes = s.scalBytes ∧ s'.arrBytes = s.arrBytes := by
  obtain ⟨es, he⟩ := entriesOf_total s hs (rootLocs s)
  obtain ⟨tmp, h'⟩ := collect_shape s es he
  rw [h] at h'
  cases h'
  obtain ⟨last, hr⟩ := collect_core s hs es he
  refine ⟨_, last, hr, (restore_shape _ _ _).trans ⟨rfl, rfl, rfl⟩, rfl, rfl, rfl, rfl, rfl, rfl, rfl, rfl, rfl, rfl, ?_, ?_⟩
  · have := restore_frame (sortDesc es) { s with strs := [], current := s.top } none
    exact this.1
  · have := restore_frame (sortDesc es) { s with strs := [], current := s.top } none
    exact this.2


end PcbV.Heap
