import PcbV.Basic
import PcbV.Gen.Errors
import PcbV.Gen.CasTypes
/-
  PcbV.Cassette — record-level model of pcbasic/basic/devices/cassette.py
  (CassetteStream, CASDevice.open/_search, CASTextFile.close).

  What is transcribed: `_write_record/_write_block` (256-byte blocks, short block filled with its
  last byte), `_read_record` (None / reclen), the header record of `open_write` and its parsing in
  `open_read`, `_flush_record_buffer`, `_close_record_buffer`, `_fill_record_buffer`,
  `CassetteStream.read`, `CASTextFile.close` (NUL terminator), `CASDevice._search`.

  What is abstracted (stated in props/c29.py ASSUMPTIONS): the bit level.  A tape is the list of
  records on it; a record is the list of its 256-byte blocks.  Leader / sync byte / trailer only
  delimit records, the CAS bit packing is the identity on bytes, and the CRC of a block written by
  `_write_block` always verifies (crc is a function of the 256 data bytes, so this is `crc d = crc d`);
  the WAV pulse channel is assumed to return the bits written.  A read that runs past the blocks of a
  record (bit-level garbage, CRCError/PulseError in the code) is modelled as Device I/O error.

  `fixed : Bool` selects the repaired `_flush_record_buffer` (`<= 255`, pending fix C29-last-record)
  or the original one (`< 255`, defect D10); `skipBody : Bool` selects the repaired `_search`
  (plays past the records of a skipped file, pending fix C29-skip-body) or the original one;
  `rel : Bool` selects the repaired end-of-tape handling of `_search` (closes the stream, pending fix
  C29-timeout-release) or the original one (stream stays open: every later OPEN is File already open);
  `drain : Bool` (closeStreamWith) selects the repaired `close` (a file open for reading is played to
  its end, pending fix C29-close-drain) or the original one.
-/
namespace PcbV.Cassette
open PcbV

abbrev Rec := List Bytes
abbrev Tape := List Rec

/-- internal signal EndOfTape (not a BASIC error number) -/
def endOfTape : Nat := 0
/-- the model does not describe overwriting the middle of a tape -/
def unmodelled : Nat := 999

def tA : Nat := 65
def tB : Nat := 66
def tD : Nat := 68
def tM : Nat := 77
def tP : Nat := 80

/-- `filetype in (b'M', b'B', b'P')` -/
def isBin (t : Nat) : Bool := t == tM || t == tB || t == tP
/-- `filetype in (b'A', b'D')` -/
def isText (t : Nat) : Bool := t == tA || t == tD

def typeToken (t : Nat) : Nat := (Gen.CasTypes.typeToToken.lookup t).getD 0
def tokenType (tok : Nat) : Option Nat := Gen.CasTypes.tokenToType.lookup tok

/-! ### blocks and records -/

/-- `data += data[-1:]*(256-len(data))` -/
def padBlock (d : Bytes) : Bytes := d ++ List.replicate (256 - d.length) (d.getLastD 0)

/-- `while len(data) > 0: _write_block(data[:256]); data = data[256:]` (fuel = len(data)) -/
def blocksAux : Nat → Bytes → List Bytes
  | 0, _ => []
  | f+1, d =>
    match d with
    | [] => []
    | _ :: _ => padBlock (d.take 256) :: blocksAux f (d.drop 256)

/-- `_write_record(data)`: the blocks put on tape between one leader and one trailer -/
def writeRecord (d : Bytes) : Rec := blocksAux d.length d

/-- `_read_record(reclen)` for an integer reclen: `_read_block` returns exactly 256 bytes, so the loop
    `while byte_count < reclen` delivers the first `reclen` bytes of the concatenated blocks;
    running out of blocks is bit-level garbage (CRCError/PulseError -> Device I/O error). -/
def readRecordLen (need : Nat) (r : Rec) : R Bytes :=
  if r.flatten.length < need then .error Gen.E.device_io_error else .ok (r.flatten.take need)

/-- `_read_record(None)`: one block -/
def readRecordOne (r : Rec) : R Bytes :=
  match r with
  | [] => .error Gen.E.device_io_error
  | b :: _ => .ok b

/-! ### header record -/

def le16 (n : Nat) : Bytes := [n % 256, n / 256 % 256]
def unle16 (lo hi : Nat) : Nat := lo + 256 * hi

/-- `name[:8] + b' ' * (8-len(name))` -/
def padName (name : Bytes) : Bytes := name.take 8 ++ List.replicate (8 - name.length) 32

/-- `struct.pack('<c8sBHHHBB', b'\xa5', name, token, length, seg, offs, 0, 1)` -/
def header (name : Bytes) (tok length seg offs : Nat) : Bytes :=
  0xa5 :: (padName name ++ (tok :: (le16 length ++ (le16 seg ++ (le16 offs ++ [0, 1])))))

structure Hdr where
  trunk : Bytes
  token : Nat
  length : Nat
  seg : Nat
  offs : Nat
deriving DecidableEq, Repr

def nth (b : Bytes) (i : Nat) : Nat := (b.drop i).headD 0

/-- `struct.unpack('<8sBHHH', record[1:16])` -/
def parseHeader (b : Bytes) : Hdr :=
  let r := b.drop 9
  { trunk := (b.drop 1).take 8, token := nth r 0,
    length := unle16 (nth r 1) (nth r 2), seg := unle16 (nth r 3) (nth r 4),
    offs := unle16 (nth r 5) (nth r 6) }

/-! ### the stream state -/

structure St where
  done : Tape          -- records the head has passed (read or written), oldest first
  ahead : Tape         -- records after the head
  buf : Bytes          -- record_stream: unread rest (reading) / pending bytes (writing)
  complete : Bool      -- buffer_complete
  ftype : Nat          -- self.filetype as byte value, 0 for b''
  length : Nat         -- self.length
  writing : Bool       -- rwmode == 'w'
  isOpen : Bool
  last : Nat × Nat × Nat   -- seg, offs, length of the last non-text file written
deriving DecidableEq, Repr

/-- a freshly attached image whose records are `t` (tape rewound) -/
def attach (t : Tape) : St :=
  { done := [], ahead := t, buf := [], complete := false, ftype := 0, length := 0,
    writing := false, isOpen := false, last := (0, 0, 0) }

def St.tape (s : St) : Tape := s.done ++ s.ahead

/-- put one record on the tape at the head (only appending at the end is modelled) -/
def putRecord (s : St) (d : Bytes) : St := { s with done := s.done ++ [writeRecord d] }

/-! ### writing -/

/-- the loop guard of `_flush_record_buffer`: original `len(data) < 255`, repaired `len(data) <= 255` -/
def keep (fixed : Bool) (n : Nat) : Bool := if fixed then n ≤ 255 else n < 255

/-- the `while True` loop of `_flush_record_buffer` (fuel = len(data)): records written, rest kept -/
def flushAux (fixed : Bool) : Nat → Bytes → List Rec × Bytes
  | 0, d => ([], d)
  | f+1, d =>
    if keep fixed d.length then ([], d)
    else
      let r := flushAux fixed f (d.drop 255)
      (writeRecord (0 :: d.take 255) :: r.1, r.2)

def flushBytes (fixed : Bool) (d : Bytes) : List Rec × Bytes := flushAux fixed d.length d

/-- `_flush_record_buffer` -/
def flush (fixed : Bool) (s : St) : St :=
  if !isBin s.ftype && s.writing then
    let r := flushBytes fixed s.buf
    { s with done := s.done ++ r.1, buf := r.2 }
  else s

/-- `CASDevice.open(mode 'O')` + `open_write` -/
def openWrite (s : St) (name : Bytes) (ftype seg offs length : Nat) : R St :=
  if s.isOpen then .error Gen.E.file_already_open
  else if name.any (· < 32) then .error Gen.E.bad_file_number
  else if !s.ahead.isEmpty then .error unmodelled
  else
    let (seg', offs', length') := if isText ftype then s.last else (seg, offs, length)
    let last' := if isText ftype then s.last else (seg, offs, length)
    let s1 : St := { s with buf := [], complete := false, writing := true, last := last', ftype := ftype }
    .ok { putRecord s1 (header name (typeToken ftype) length' seg' offs') with isOpen := true }

/-- `CassetteStream.write(c)` -/
def write (fixed : Bool) (s : St) (c : Bytes) : St := flush fixed { s with buf := s.buf ++ c }

/-! ### reading -/

/-- `_fill_record_buffer` applied to the next record: new buffer and buffer_complete -/
def fillFrom (bin : Bool) (len : Nat) (r : Rec) : R (Bytes × Bool) :=
  if bin then
    match readRecordLen len r with
    | .error e => .error e
    | .ok d => .ok (d, true)
  else
    match readRecordLen 256 r with
    | .error e => .error e
    | .ok d =>
      let n := d.headD 0
      let body := d.drop 1
      if n != 0 then .ok (body.take (n - 1), true) else .ok (body, false)

/-- the loop of `CassetteStream.read(nbytes)`; `n = none` is `nbytes = -1`.  Every turn of the loop
    that does not return consumes one record, hence structural recursion on the records ahead.
    Arguments: records ahead, bytes collected, record_stream rest, buffer_complete.
    Result: bytes, record_stream rest, buffer_complete, records left. -/
def readLoop (bin : Bool) (len : Nat) (n : Option Nat) :
    Tape → Bytes → Bytes → Bool → R (Bytes × Bytes × Bool × Tape)
  | ahead, c, buf, complete =>
    let want := match n with | some k => k - c.length | none => buf.length
    let c' := c ++ buf.take want
    let buf' := buf.drop want
    let enough := match n with | some k => decide (k ≤ c'.length) | none => false
    if enough || complete then .ok (c', buf', complete, ahead)
    else
      match ahead with
      | [] => .ok (c', [], complete, [])       -- EndOfTape is caught: return what there is
      | r :: rest =>
        match fillFrom bin len r with
        | .error e => .error e
        | .ok (nb, compl) => readLoop bin len n rest c' nb compl

/-- `CassetteStream.read(nbytes)`; the records passed move from `ahead` to `done` -/
def read (s : St) (n : Option Nat) : R (Bytes × St) :=
  match readLoop (isBin s.ftype) s.length n s.ahead [] s.buf s.complete with
  | .error e => .error e
  | .ok (x, b, k, left) =>
    .ok (x, { s with buf := b, complete := k,
                     done := s.done ++ s.ahead.take (s.ahead.length - left.length), ahead := left })

/-- `_close_record_buffer` + `close`.  `drain = true` is the repaired `close` (pending fix
    C29-close-drain): a file open for reading is first played to its end (`self.read()`), so that the
    unread records of a partly read file cannot be taken for file headers by the next search;
    `drain = false` is the original code, which leaves the head where the last read stopped. -/
def closeStreamWith (drain fixed : Bool) (s : St) : St :=
  if !s.isOpen then s
  else
    let s1 :=
      if s.writing then
        let s2 := { flush fixed s with complete := true }
        if isBin s2.ftype then putRecord s2 s2.buf
        else if s2.buf.isEmpty then s2
        else putRecord s2 (s2.buf.length :: s2.buf)
      else if drain then
        match read s none with
        | .ok (_, s2) => s2
        | .error _ => s      -- the I/O error is swallowed or reported by the caller; the head position is then undefined
      else s
    { s1 with buf := [], isOpen := false, writing := false }

def closeStream (fixed : Bool) (s : St) : St := closeStreamWith true fixed s

/-- closing the BASIC file: `CASTextFile.close` writes NUL first when open for output -/
def closeFileWith (drain fixed : Bool) (s : St) : St :=
  if s.isOpen && s.writing && isText s.ftype then closeStreamWith drain fixed (write fixed s [0])
  else closeStreamWith drain fixed s

def closeFile (fixed : Bool) (s : St) : St := closeFileWith true fixed s

/-- the scan of `open_read`: play until a record whose first block starts with 0xA5.
    Result: the header block, records passed (including the header), records left. -/
def scanHeader : Tape → R (Bytes × Tape × Tape)
  | [] => .error endOfTape
  | r :: rest =>
    match readRecordOne r with
    | .error e => .error e
    | .ok b =>
      if b.headD 0 == 0xa5 && !b.isEmpty then .ok (b, [r], rest)
      else
        match scanHeader rest with
        | .error e => .error e
        | .ok (h, used, left) => .ok (h, r :: used, left)

/-- `open_read` -/
def openRead (s : St) : R (St × Hdr) :=
  match scanHeader s.ahead with
  | .error e => .error e
  | .ok (b, used, left) =>
    let h := parseHeader b
    let ft := match tokenType h.token with | some t => t | none => s.ftype
    .ok ({ s with done := s.done ++ used, ahead := left, buf := [], complete := false,
                  writing := false, length := h.length, ftype := ft, isOpen := true }, h)

/-- Python `bytes.rstrip()` (ASCII whitespace) -/
def isSpace (c : Nat) : Bool := c == 32 || (9 ≤ c && c ≤ 13)
def rstrip (b : Bytes) : Bytes := (b.reverse.dropWhile isSpace).reverse

/-- one console message of `_search`: found?, trunk, file type -/
structure Msg where
  found : Bool
  trunk : Bytes
  ftype : Nat
deriving DecidableEq, Repr

def nameMatches (req : Bytes) (types : Bytes) (trunk : Bytes) (ft : Nat) : Bool :=
  (req.isEmpty || rstrip trunk == rstrip req) && (types.isEmpty || types.contains ft)

/-- `CASDevice._search`; fuel = number of records ahead + 1 (each turn passes at least one record).
    Always returns the state.  After Device Timeout the tape is rewound; `rel = true` is the repaired
    code, which also closes the stream (pending fix C29-timeout-release); with `rel = false` (original)
    `isOpen` keeps the value the last `open_read` left, i.e. true as soon as one header was passed. -/
def search (skipBody rel : Bool) : Nat → St → Bytes → Bytes → List Msg × St × R Hdr
  | 0, s, _, _ => ([], s, .error unmodelled)
  | f+1, s, req, types =>
    match openRead s with
    | .error e =>
      if e == endOfTape then
        ([], { s with ahead := s.done ++ s.ahead, done := [], buf := [], complete := false, writing := false,
                      isOpen := if rel then false else s.isOpen },
          .error Gen.E.device_timeout)
      else ([], s, .error e)
    | .ok (s1, h) =>
      if nameMatches req types h.trunk s1.ftype then
        ([⟨true, h.trunk, s1.ftype⟩], s1, .ok h)
      else
        let m : Msg := ⟨false, h.trunk, s1.ftype⟩
        if skipBody then
          match read s1 none with
          | .error e => ([m], s1, .error e)
          | .ok (_, s2) =>
            let r := search skipBody rel f s2 req types
            (m :: r.1, r.2.1, r.2.2)
        else
          let r := search skipBody rel f s1 req types
          (m :: r.1, r.2.1, r.2.2)

/-- `CASDevice.open(mode 'I')` -/
def openInput (skipBody rel : Bool) (s : St) (req types : Bytes) : List Msg × St × R Hdr :=
  if s.isOpen then ([], s, .error Gen.E.file_already_open)
  else if req.any (· < 32) then ([], s, .error Gen.E.bad_file_number)
  else search skipBody rel (s.ahead.length + 1) s req types

/-! ### whole files (used by the theorems and by the driver) -/

structure File where
  name : Bytes
  ftype : Nat
  content : Bytes
  seg : Nat
  offs : Nat
deriving DecidableEq, Repr

/-- OPEN/SAVE/BSAVE … write the content (in one `write`) … CLOSE -/
def writeFile (fixed : Bool) (s : St) (f : File) : R St :=
  match openWrite s f.name f.ftype f.seg f.offs f.content.length with
  | .error e => .error e
  | .ok s1 => .ok (closeFile fixed (write fixed s1 f.content))

def writeFiles (fixed : Bool) : St → List File → R St
  | s, [] => .ok s
  | s, f :: fs =>
    match writeFile fixed s f with
    | .error e => .error e
    | .ok s1 => writeFiles fixed s1 fs

end PcbV.Cassette
