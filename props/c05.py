"""C05 — Arithmetic identities hold for every value."""
import signal
import struct
import time
from fractions import Fraction

from vlib import basic, mbf

LEVEL = 'proof'
RULE = ('values of the three numeric types: integers from a boundary set (powers of two +-2, byte carries, sign '
        'boundaries) plus PRNG (thorough: all 65536), single/double byte patterns from vlib.mbf.gen_float/gen_pair '
        '(canonical and non-canonical zeros, extreme exponents, powers of two, all-ones mantissas, cancellation-prone '
        'and aligned pairs, widened singles); every (operator, typed operand tuple) is one case; all 9 type pairings '
        'are drawn for the binary identities in both operand orders; identity chains and PRINT/variable programs run '
        'in a real Session; the values-level and the Session-level parts are repeated with double-precision math '
        'enabled (Values(double_math=True), Session(double=True)), results read losslessly through MKD$')
EXPLANATION = ('theorems (PcbV.Props.C05): add_comm, mul_comm, add_zero, mul_one, div_one, sub_self, neg_neg, abs_spec, '
               'sgn_spec for ANY well-formed MBF format bit for bit, promotion_spec and the values-level corollaries; '
               'correspondence: result type+bytes (and substituted value on Overflow/Division by zero) of '
               'values.add/sub/mul/div/neg/abs_/sgn_ and of Float.iadd/isub/imul/idiv/ineg/iabs/sign against the '
               'compiled Lean model; oracle: the identities themselves evaluated on the implementation with exact '
               'Fraction values and an independent encoder, at values level and through BASIC variables')
TRUSTED_BASE = ['models PcbV.Model.Mbf / MbfMulFixed / Promote are hand transcriptions of numbers.py:Float and of '
                'values.py add/sub/mul/div/neg/abs_/sgn_/match_types',
                'vlib.mbf.val (exact value of a byte pattern) and the encoder in props/c05.py']
ASSUMPTIONS = ['struct.pack/unpack little-endian formats behave as documented',
               'a FloatErrorHandler with a console returns the substituted maximum after writing the message']

TYPES = 'isd'
WIDTH = {'i': 0, 's': 1, 'd': 2}
ERRNUM = {b'Overflow': 6, b'Division by zero': 11}


# ---------------------------------------------------------------------------------------------
# exact arithmetic on typed byte patterns (independent of the implementation and of the model)

def s16(w):
    return w - 65536 if w >= 32768 else w


def val(v):
    t, b = v
    if t == 'i':
        return Fraction(s16(struct.unpack('<H', b)[0]))
    return mbf.val(t, b)


def encode(fs, q):
    """Byte pattern of an exactly representable rational; None if it is not representable."""
    f = mbf.FMT[fs]
    w = f['w']
    if q == 0:
        return bytes(f['size'])
    neg = q < 0
    a = abs(q)
    # find e with 2^(w-1) <= a * 2^(bias-e) < 2^w
    e = f['bias']
    m = a
    while m >= 1 << w:
        m /= 2
        e += 1
    while m < 1 << (w - 1):
        m *= 2
        e -= 1
    if m.denominator != 1 or not 1 <= e <= 255:
        return None
    return mbf.make(fs, neg, int(m), e)


def res_type(ta, tb=None):
    """Widest operand type, an Integer counting as a Single."""
    k = max(WIDTH[ta], WIDTH[tb] if tb else 0, 1)
    return 'sd'[k - 1]


def widen(v, t):
    """The operand as the (not narrower) float type t, bit-exact (non-canonical zeros keep their bytes)."""
    tv, b = v
    if tv == t:
        return b
    if tv == 'i':
        return encode(t, val(v))
    assert tv == 's' and t == 'd'
    return b'\0\0\0\0' + b


def flip_sign(b):
    b = bytearray(b)
    b[-2] ^= 0x80
    return bytes(b)


def clear_sign(b):
    b = bytearray(b)
    b[-2] &= 0x7f
    return bytes(b)


def sgn_bytes(q):
    return struct.pack('<h', (q > 0) - (q < 0))


# ---------------------------------------------------------------------------------------------
# implementation adapter

class Hang(BaseException):
    """The implementation did not return within the watchdog limit."""


class TooManyHangs(Exception):
    """Stop the run: the failures are registered, further calls would only wait."""


class Watchdog(object):
    """Bounds a call into the implementation (a broken operand ordering makes `_normalise` loop for ever);
    shares the real-time timer with the harness' global limit and restores it."""

    def __init__(self):
        self.active = False
        self.prev = signal.getsignal(signal.SIGALRM)
        if getattr(self.prev, '__self__', None).__class__ is Watchdog:
            self.prev = self.prev.__self__.prev
        signal.signal(signal.SIGALRM, self._on_alarm)

    def _on_alarm(self, signum, frame):
        if self.active:
            self.active = False
            raise Hang()
        if callable(self.prev):
            self.prev(signum, frame)

    def run(self, fn, limit):
        t0 = time.time()
        old = signal.setitimer(signal.ITIMER_REAL, limit)[0]
        self.active = True
        try:
            return fn()
        finally:
            self.active = False
            signal.setitimer(signal.ITIMER_REAL, max(old - (time.time() - t0), 0.05) if old else 0)


class Console(object):
    def __init__(self):
        self.msgs = []

    def write_line(self, msg):
        self.msgs.append(bytes(msg))


class Impl(object):
    """values.add/sub/mul/div/neg/abs_/sgn_ of the real code on fresh value objects."""

    def __init__(self, double_math=False, dog=None):
        from pcbasic.basic.values import values, numbers
        from pcbasic.basic.base import error
        self.values, self.numbers, self.error = values, numbers, error
        self.console = Console()
        # double_math is the Values side of Session(double=True); + - * / unary - ABS SGN do not depend on it
        self.vs = values.Values(None, double_math)
        self.vs.set_handler(values.FloatErrorHandler(self.console))
        self.cls = {'i': numbers.Integer, 's': numbers.Single, 'd': numbers.Double}
        self.tchar = {numbers.Integer: 'i', numbers.Single: 's', numbers.Double: 'd'}
        self.fn = {'add': values.add, 'sub': values.sub, 'mul': values.mul, 'div': values.div}
        self.touched = 0
        self.hangs = 0
        self.dog = dog or Watchdog()

    def mk(self, v):
        return self.cls[v[0]](None, self.vs).from_bytes(v[1])

    def call(self, op, a, b=None):
        """-> 'ok t hex' | 'err n t hex' | 'exc Name' ; also checks the operands were not modified."""
        del self.console.msgs[:]
        x = self.mk(a)
        y = self.mk(b) if b is not None else None
        try:
            if op == 'neg':
                r = self.values.neg(x)
            elif op == 'abs':
                r = self.values.abs_([x])
            elif op == 'sgn':
                r = self.values.sgn_([x])
            else:
                r = self.dog.run(lambda: self.fn[op](x, y), 10)
        except Hang:
            self.hangs += 1
            return 'hang'
        except self.error.BASICError as e:
            return 'err %d' % e.err
        except Exception as e:
            return 'exc %s' % type(e).__name__
        if bytes(x.to_bytes()) != a[1] or (y is not None and bytes(y.to_bytes()) != b[1]):
            self.touched += 1
            return 'operand-modified'
        t = self.tchar.get(type(r))
        if t is None:
            return 'type %s' % type(r).__name__
        out = '%s %s' % (t, mbf.hx(r.to_bytes()))
        if self.console.msgs:
            return 'err %s %s' % (','.join(str(ERRNUM.get(m, m)) for m in self.console.msgs), out)
        return 'ok ' + out


def parse(out):
    """-> (status, type, bytes) ; status 'ok', 'err<n>' or the raw text"""
    p = out.split()
    if p[0] == 'ok' and len(p) == 3:
        return 'ok', p[1], mbf.unhx(p[2])
    if p[0] == 'err' and len(p) == 4:
        return 'err' + p[1], p[2], mbf.unhx(p[3])
    return out, None, None


def vline(op, a, b=None):
    if b is None:
        return 'v %s %s %s' % (op, a[0], mbf.hx(a[1]))
    return 'v %s %s %s %s %s' % (op, a[0], mbf.hx(a[1]), b[0], mbf.hx(b[1]))


# ---------------------------------------------------------------------------------------------
# generators

def int_boundary():
    vals = set()
    for k in range(17):
        for d in (-2, -1, 0, 1, 2):
            vals.add(((1 << k) + d) & 0xffff)
            vals.add((-(1 << k) + d) & 0xffff)
    vals.update((0, 1, 2, 3, 10, 100, 255, 256, 257, 0x7fff, 0x8000, 0x8001, 0xffff, 0xfffe, 30000, 35536, 0x5555,
                 0xaaaa, 0xff00, 0x00ff))
    return sorted(vals)


INT_B = int_boundary()


def gen_value(rng, t):
    if t == 'i':
        w = rng.choice(INT_B) if rng.random() < 0.5 else rng.randrange(65536)
        return ('i', struct.pack('<H', w))
    if t == 'd' and rng.random() < 0.25:
        # a double that is a widened single (exactly representable in both)
        return ('d', b'\0\0\0\0' + mbf.gen_float(rng, 's'))
    if t == 'd' and rng.random() < 0.15:
        # small exponents: the region of D5
        b = bytearray(mbf.gen_float(rng, 'd'))
        b[-1] = rng.randrange(0, 40)
        return ('d', bytes(b))
    return (t, mbf.gen_float(rng, t))


def gen_pairing(rng, ta, tb):
    if ta == tb and ta != 'i' and rng.random() < 0.7:
        a, b = mbf.gen_pair(rng, ta)
        return (ta, a), (tb, b)
    if {ta, tb} == {'s', 'd'} and rng.random() < 0.5:
        a, b = mbf.gen_pair(rng, 's')
        a, b = ('s', a), ('d', b'\0\0\0\0' + b)
        return (a, b) if ta == 's' else (b, a)
    a = gen_value(rng, ta)
    if 'i' in (ta, tb) and ta != tb and rng.random() < 0.4:
        # the float operand is (near) an integer value, possibly the negation of the integer operand
        other = tb if ta == 'i' else ta
        n = s16(struct.unpack('<H', gen_value(rng, 'i')[1])[0])
        if ta == 'i' and rng.random() < 0.5:
            n = -s16(struct.unpack('<H', a[1])[0])
        fb = bytearray(encode(other, Fraction(n)))
        if rng.random() < 0.3 and fb[-1]:
            fb[0] ^= rng.choice([1, 2, 0x80])
        if ta == 'i':
            return a, (tb, bytes(fb))
        return (ta, bytes(fb)), gen_value(rng, 'i')
    return a, gen_value(rng, tb)


def identity_consts():
    zeros = {'i': [('i', b'\0\0')], 's': [('s', b'\0\0\0\0'), ('s', b'\x12\x34\xd6\0')],
             'd': [('d', bytes(8)), ('d', b'\1\2\3\4\5\6\x87\0')]}
    ones = {'i': ('i', b'\1\0'), 's': ('s', b'\0\0\0\x81'), 'd': ('d', b'\0\0\0\0\0\0\0\x81')}
    return zeros, ones


ZEROS, ONES = identity_consts()


# ---------------------------------------------------------------------------------------------
# oracle

def expclass(v):
    if v[0] == 'i':
        return 'int'
    e = bytearray(v[1])[-1]
    if e == 0:
        return 'zero' if not any(bytearray(v[1])[:-1]) else 'zero-noncanonical'
    if v[0] == 'd' and e < 32:
        return 'exp<32'
    return 'exp<=8' if e <= 8 else ('exp>=250' if e >= 250 else 'normal')


class Checker(object):
    def __init__(self, ctx, impl, level='values'):
        self.ctx, self.impl, self.level = ctx, impl, level
        self.cases, self.outs, self.lines = [], [], []

    def run(self, op, a, b=None):
        out = self.impl.call(op, a, b)
        case = (op, a[0], mbf.hx(a[1])) + ((b[0], mbf.hx(b[1])) if b is not None else ())
        self.cases.append(list(case))
        self.outs.append(out)
        self.lines.append(vline(op, a, b))
        self.ctx.case(case)
        self.ctx.count('op:' + op)
        self.ctx.count('types:%s%s' % (a[0], b[0] if b is not None else ''))
        if out == 'hang':
            self.fail('hang:' + op, a, b, '%s did not return within 10 s' % op)
            if self.impl.hangs >= 3:
                self.flush()
                raise TooManyHangs()
        return out

    def flush(self):
        if self.cases:
            self.ctx.compare(self.cases, self.outs, self.lines, label=self.level)
        self.cases, self.outs, self.lines = [], [], []

    def fail(self, ident, a, b, what):
        key = '%s%s:%s%s:%s' % ('' if self.level == 'values' else self.level + ':', ident, a[0],
                                 b[0] if b is not None else '', expclass(a))
        case = {'level': self.level, 'ident': ident, 'a': [a[0], mbf.hx(a[1])],
                'b': [b[0], mbf.hx(b[1])] if b is not None else None}
        self.ctx.fail(key, case, what)

    # --- binary: commutativity, result type -------------------------------------------------
    def pair(self, a, b):
        t = res_type(a[0], b[0])
        for op in ('add', 'mul'):
            o1, o2 = self.run(op, a, b), self.run(op, b, a)
            s1 = parse(o1)
            self.ctx.count('status:' + s1[0][:5])
            if o1 != o2:
                self.fail(op + '_comm', a, b, '%s(a,b) -> %s but %s(b,a) -> %s' % (op, o1, op, o2))
            if s1[1] != t:
                self.fail('promotion:' + op, a, b, 'result %s, expected type %s' % (o1, t))
        for op in ('sub', 'div'):
            o = self.run(op, a, b)
            s = parse(o)
            if s[1] != t:
                # Division by zero / Overflow substitute a value of the result type as well
                self.fail('promotion:' + op, a, b, 'result %s, expected type %s' % (o, t))
            if op == 'div' and s[0] == 'err11' and val(b) != 0:
                self.fail('div_error', a, b, 'Division by zero although the divisor is %s' % val(b))

    # --- unary and identity elements --------------------------------------------------------
    def single(self, x):
        vx = val(x)
        tu = res_type(x[0])
        wx = widen(x, tu)
        # -(-x) = x
        o = self.run('neg', x)
        s = parse(o)
        if s[0] != 'ok' or s[1] != tu or s[2] != flip_sign(wx) or val((s[1], s[2])) != -vx:
            self.fail('neg', x, None, 'neg -> %s, expected %s %s' % (o, tu, mbf.hx(flip_sign(wx))))
        else:
            o2 = self.run('neg', (s[1], s[2]))
            s2 = parse(o2)
            if s2[0] != 'ok' or s2[1] != tu or s2[2] != wx:
                self.fail('neg_neg', x, None, '-(-x) -> %s, expected %s %s' % (o2, tu, mbf.hx(wx)))
        # ABS
        o = self.run('abs', x)
        s = parse(o)
        if s[0] != 'ok' or s[1] != tu:
            self.fail('abs', x, None, 'abs -> %s' % o)
        else:
            va = val((s[1], s[2]))
            if va < 0 or va != abs(vx) or s[2] not in (wx, flip_sign(wx)) or s[2] != clear_sign(wx):
                self.fail('abs', x, None, 'abs -> %s (value %s), x has value %s' % (o, va, vx))
        # SGN
        o = self.run('sgn', x)
        s = parse(o)
        if s[0] != 'ok' or s[1] != 'i' or s[2] != sgn_bytes(vx):
            self.fail('sgn', x, None, 'sgn -> %s, expected i %s' % (o, mbf.hx(sgn_bytes(vx))))
        # x - x = 0
        o = self.run('sub', x, x)
        if o != 'ok %s %s' % (tu, mbf.hx(bytes(mbf.FMT[tu]['size']))):
            self.fail('sub_self', x, None, 'x-x -> %s, expected the canonical %s zero' % (o, tu))
        # identity elements of every type
        for tz in TYPES:
            t = res_type(x[0], tz)
            want = encode(t, vx)
            for z in ZEROS[tz]:
                for o in (self.run('add', x, z), self.run('add', z, x)):
                    if o != 'ok %s %s' % (t, mbf.hx(want)):
                        self.fail('add_zero', x, z, 'x+0 -> %s, expected %s %s' % (o, t, mbf.hx(want)))
                o = self.run('sub', x, z)
                if o != 'ok %s %s' % (t, mbf.hx(want)):
                    self.fail('sub_zero', x, z, 'x-0 -> %s, expected %s %s' % (o, t, mbf.hx(want)))
            one = ONES[tz]
            for o in (self.run('mul', x, one), self.run('mul', one, x)):
                if o != 'ok %s %s' % (t, mbf.hx(want)):
                    self.fail('mul_one', x, one, 'x*1 -> %s, expected %s %s' % (o, t, mbf.hx(want)))
            o = self.run('div', x, one)
            s = parse(o)
            if s[0] != 'ok' or s[1] != t or (s[2] != want and not (vx == 0 and s[2] == widen(x, t))):
                self.fail('div_one', x, one, 'x/1 -> %s, expected %s %s' % (o, t, mbf.hx(want)))

    # --- a chain of identity operations must leave the value where it started ----------------
    def chain(self, x, n):
        rng = self.ctx.rng
        cur = x
        t = res_type(x[0])
        hist = []
        for _ in range(n):
            k = rng.randrange(6)
            tz = rng.choice(TYPES)
            if k == 0:
                z = rng.choice(ZEROS[tz])
                o = self.run('add', cur, z) if rng.random() < 0.5 else self.run('add', z, cur)
                hist.append('+0' + tz)
            elif k == 1:
                o = self.run('mul', cur, ONES[tz]) if rng.random() < 0.5 else self.run('mul', ONES[tz], cur)
                hist.append('*1' + tz)
            elif k == 2:
                o = self.run('div', cur, ONES[tz])
                hist.append('/1' + tz)
            elif k == 3:
                o = self.run('sub', cur, rng.choice(ZEROS[tz]))
                hist.append('-0' + tz)
            elif k == 4:
                s = parse(self.run('neg', cur))
                o = self.run('neg', (s[1], s[2])) if s[0] == 'ok' else 'neg failed'
                tz = 'i'
                hist.append('--')
            else:
                s = parse(self.run('abs', cur))
                o = 'neg failed'
                if s[0] == 'ok':
                    o = self.run('neg', (s[1], s[2])) if val(cur) < 0 else 'ok %s %s' % (s[1], mbf.hx(s[2]))
                tz = 'i'
                hist.append('abs')
            t = res_type(t, tz)
            want = encode(t, val(x))
            s = parse(o)
            if s[0] != 'ok' or s[1] != t or (s[2] != want and val(x) != 0) or val((s[1], s[2])) != val(x):
                self.fail('chain', x, None, 'after %s: %s, expected %s %s' % (' '.join(hist), o, t, mbf.hx(want)))
                return
            cur = (s[1], s[2])
        self.ctx.count('chains')


# ---------------------------------------------------------------------------------------------
# Float methods directly (shared MBF protocol of the driver)

def float_level(ctx, n, dog):
    real = mbf.Impl()
    rng = ctx.rng

    class impl(object):
        @staticmethod
        def call(*args):
            try:
                return dog.run(lambda: real.call(*args), 10)
            except Hang:
                ctx.fail('float:hang:%s:%s' % (args[0], args[1]),
                         {'level': 'float', 'op': args[0], 'fs': args[1], 'a': mbf.hx(args[2]),
                          'b': mbf.hx(args[3]) if len(args) > 3 else None}, 'no return within 10 s')
                raise TooManyHangs()
    cases, outs, lines = [], [], []
    for _ in range(n):
        fs = rng.choice('sd')
        a, b = mbf.gen_pair(rng, fs)
        if fs == 'd' and rng.random() < 0.2:
            a = a[:-1] + bytes([rng.randrange(1, 40)])
            if rng.random() < 0.5:
                b = b'\0\0\0\0\0\0\0\x81'
        for op in ('add', 'sub', 'mul', 'div'):
            cases.append([op, fs, mbf.hx(a), mbf.hx(b)])
            outs.append(impl.call(op, fs, a, b))
            lines.append(mbf.line(op, fs, a, b))
            ctx.case(('float', op, fs, a, b))
        for op in ('neg', 'abs', 'sign'):
            cases.append([op, fs, mbf.hx(a)])
            outs.append(impl.call(op, fs, a))
            lines.append(mbf.line(op, fs, a))
            ctx.case(('float', op, fs, a))
        ctx.count('float-level', 7)
        # oracle on the methods: commutativity of iadd/imul including the raised value
        for op in ('add', 'mul'):
            o1, o2 = impl.call(op, fs, a, b), impl.call(op, fs, b, a)
            if o1 != o2:
                ctx.fail('float:%s_comm:%s' % (op, fs), {'level': 'float', 'op': op, 'fs': fs, 'a': mbf.hx(a),
                                                          'b': mbf.hx(b)}, '%s vs %s' % (o1, o2))
    ctx.compare(cases, outs, lines, label='float')


# ---------------------------------------------------------------------------------------------
# BASIC level: the same identities through variables, expressions and PRINT in a Session

def lit(v):
    """BASIC expression producing exactly this value from its bytes."""
    t, b = v
    if t == 'i':
        return '%d' % s16(struct.unpack('<H', b)[0])
    fn = 'CVS' if t == 's' else 'CVD'
    return '%s(%s)' % (fn, '+'.join('CHR$(%d)' % c for c in bytearray(b)))


SIGIL = {'i': '%', 's': '!', 'd': '#'}


READ8 = 'Z$=MKD$(%s):PRINT ' + ';'.join('ASC(MID$(Z$,%d,1))' % i for i in range(1, 9))


def as_double(b):
    """Exact Double image of Single or Double bytes (what MKD$ shows for a result of that type)."""
    return b if len(b) == 8 else b'\0\0\0\0' + b


def read_bytes(s, expr, t):
    """The 8 bytes MKD$ gives for a numeric expression, or the error text.  Widening to Double is exact, so the
    bytes of a Single result appear behind four zero bytes and NOTHING is rounded away: a result that is wrongly a
    Double (it then carries bits a Single cannot hold) or wrongly a Single is seen, whatever type `t` was expected."""
    out = s.execute((READ8 % expr).encode())
    toks = out.split()
    try:
        vals = [int(x) for x in toks]
    except ValueError:
        return out
    return bytes(vals) if len(vals) == 8 else out


class GuardedSession(object):
    def __init__(self, ctx, dog, **kw):
        self.s, self.ctx, self.dog = basic.new_session(**kw), ctx, dog

    def __enter__(self):
        self.s.__enter__()
        return self

    def __exit__(self, *a):
        try:
            return self.dog.run(lambda: self.s.__exit__(*a), 30)
        except Hang:
            return False

    def execute(self, text):
        try:
            return self.dog.run(lambda: self.s.execute(text), 30)
        except Hang:
            self.ctx.fail('basic:hang', {'level': 'basic', 'program': text.decode('latin-1')},
                          'statement did not return within 30 s')
            raise TooManyHangs()


def basic_level(ctx, n_vals, n_chain, dog, double=False):
    """double=True: the same identities in a session with double-precision math enabled; the arithmetic
    operators and their result types are specified independently of that option."""
    rng = ctx.rng
    s = GuardedSession(ctx, dog, double=True) if double else GuardedSession(ctx, dog)
    tag = 'basic-double' if double else 'basic'

    def fail(key, prog, what):
        ctx.fail('%s:%s' % (tag, key), {'level': tag, 'program': prog}, what)

    with s:
        # result types, seen through the number of digits PRINT shows (7 vs 16)
        s.execute(b'I%=1:J%=3:S!=1:T!=3:D#=1:E#=3:K%=32767')
        probes = []
        for ta, va in (('i', 'I%'), ('s', 'S!'), ('d', 'D#')):
            for tb, vb in (('i', 'J%'), ('s', 'T!'), ('d', 'E#')):
                # 1/3 is not representable: a Single result prints 7 digits, a Double one 16
                probes.append((ta, tb, '%s/%s' % (va, vb), {'s': 7, 'd': 16}))
                probes.append((ta, tb, '(%s/3)+%s' % (va, vb), {'s': 7, 'd': 16}))
                probes.append((ta, tb, '(%s/7)*%s' % (va, vb), {'s': 7, 'd': 16}))
                probes.append((ta, tb, '(%s/3)-%s' % (va, vb), {'s': 7, 'd': 16}))
        # both operand orders of every pairing with the operands used directly (no intermediate result):
        # 5, 1/3 and 3/7 as typed variables; inexact results print <= 7 digits as Single, 14..16 as Double
        s.execute(b'N%=5:P!=1/3:Q!=3/7:P#=1#/3:Q#=3#/7')
        direct = {'i': ('N%', 'N%'), 's': ('P!', 'Q!'), 'd': ('P#', 'Q#')}
        for ta in TYPES:
            for tb in TYPES:
                if ta == tb == 'i':
                    continue
                for sym in '+-*/':
                    probes.append((ta, tb, '%s%s%s' % (direct[ta][0], sym, direct[tb][1]), {'s': -7, 'd': -14}))
        probes.append(('i', 'i', '-N%/3', {'s': 7}))
        probes.append(('i', 'i', 'ABS(N%)/3', {'s': 7}))
        probes.append(('i', 'i', '(N%+0%)/3', {'s': 7}))
        probes.append(('i', 'i', '(N%-0%)/3', {'s': 7}))
        probes.append(('i', 'i', 'K%*K%', {'s': b'1.073676E+09'}))
        probes.append(('i', 'i', 'K%+K%', {'s': b'65534'}))
        probes.append(('i', 'i', '-K%-K%-2', {'s': b'-65536'}))
        probes.append(('i', 'd', 'K%*(K%+0#)', {'d': b'1073676289'}))
        probes.append(('d', 'i', '(K%+0#)*K%', {'d': b'1073676289'}))
        probes.append(('i', 'i', '-(-32768)', {'s': b'32768'}))
        probes.append(('i', 'i', 'ABS(-32768)', {'s': b'32768'}))
        probes.append(('d', 'd', '1D-31*1#', {'d': b'1D-31'}))
        probes.append(('d', 'i', '1D-38*1', {'d': b'1D-38'}))
        probes.append(('d', 'd', '1D-20*1D-15', {'d': b'1D-35'}))
        for ta, tb, expr, want in probes:
            out = s.execute(('PRINT %s' % expr).encode()).strip()
            ctx.case(('probe', expr))
            ctx.count('basic:type-probe')
            exp = want[res_type(ta, tb)]
            if isinstance(exp, int):
                mant = out.replace(b'D', b'E').split(b'E')[0]     # digits of the mantissa, not of the exponent
                nd = len([c for c in bytearray(mant.lstrip(b'-0.')) if 48 <= c <= 57])
                ok = nd == exp if exp > 0 else (nd <= 7 if exp == -7 else nd >= 14)
            else:
                ok = out == exp
            if not ok:
                fail('print:%s' % expr, 'PRINT ' + expr, 'PRINT %s showed %r, expected %r (result type %s)'
                     % (expr, out, exp, res_type(ta, tb)))
        # identities on variables holding arbitrary bit patterns
        for _ in range(n_vals):
            ta, tb = rng.choice(TYPES), rng.choice(TYPES)
            a, b = gen_pairing(rng, ta, tb)
            t = res_type(ta, tb)
            prog = 'A%s=%s:B%s=%s' % (SIGIL[ta], lit(a), SIGIL[tb], lit(b))
            s.execute(prog.encode())
            A, B = 'A' + SIGIL[ta], 'B' + SIGIL[tb]
            ctx.case(('basic', a, b))
            ctx.count('basic:pair')
            for opn, sym in (('add', '+'), ('mul', '*')):
                r1 = read_bytes(s, '%s%s%s' % (A, sym, B), t)
                r2 = read_bytes(s, '%s%s%s' % (B, sym, A), t)
                if r1 != r2:
                    fail('%s_comm:%s%s' % (opn, ta, tb), prog, '%s%s%s -> %r, swapped -> %r' % (A, sym, B, r1, r2))
            if t == 's':
                # a Single result widened by MKD$ has four zero bytes below its own; both operand orders
                for sym in '+-*/':
                    for expr in ('%s%s%s' % (A, sym, B), '%s%s%s' % (B, sym, A)):
                        r = read_bytes(s, expr, t)
                        if len(r) == 8 and r[:4] != b'\0\0\0\0' and b'Overflow' not in r and b'Division' not in r:
                            fail('promotion:%s%s' % (ta, tb), prog,
                                 '%s is not a Single: MKD$ shows %r' % (expr, r))
            tu = res_type(ta)
            wa = widen(a, tu)
            va = val(a)
            want = encode(tu, va)
            checks = [('sub_self', '%s-%s' % (A, A), bytes(mbf.FMT[tu]['size'])),
                      ('neg_neg', '-(-%s)' % A, wa), ('neg_neg', '- - %s' % A, wa),
                      ('add_zero', '%s+0' % A, want), ('add_zero', '0+%s' % A, want),
                      ('mul_one', '%s*1' % A, want), ('mul_one', '1*%s' % A, want),
                      ('abs', 'ABS(%s)' % A, clear_sign(wa))]
            for key, expr, exp in checks:
                r = read_bytes(s, expr, tu)
                if r != as_double(exp):
                    fail('%s:%s:%s' % (key, ta, expclass(a)), prog,
                         '%s -> %r, expected %r' % (expr, r, as_double(exp)))
            r = read_bytes(s, '%s/1' % A, tu)
            if r != as_double(want) and not (va == 0 and r == as_double(wa)):
                fail('div_one:%s:%s' % (ta, expclass(a)), prog, '%s/1 -> %r, expected %r' % (A, r, want))
            out = s.execute(('PRINT SGN(%s)' % A).encode()).split()
            if out != [b'%d' % ((va > 0) - (va < 0))]:
                fail('sgn:%s:%s' % (ta, expclass(a)), prog, 'SGN(%s) printed %r for value %s' % (A, out, va))
            # wider identity constants promote the result
            for tz, z1 in (('s', '!'), ('d', '#')):
                tt = res_type(ta, tz)
                w2 = encode(tt, va)
                for key, expr in (('add_zero', '%s+0%s' % (A, z1)), ('mul_one', '%s*1%s' % (A, z1)),
                                  ('mul_one', '1%s*%s' % (z1, A))):
                    r = read_bytes(s, expr, tt)
                    if r != as_double(w2):
                        fail('%s:%s%s:%s' % (key, ta, tz, expclass(a)), prog,
                             '%s -> %r, expected %r' % (expr, r, as_double(w2)))
        # a variable pushed through a program of identity statements keeps its bytes
        stmts = ['@X=@X+0', '@X=0+@X', '@X=@X*1', '@X=1*@X', '@X=@X/1', '@X=-(-@X)', '@X=@X-0', '@X=@X+0#',
                 '@X=@X*1#', '@X=@X/1#', '@X=@X+@Z', '@X=@X*@U', '@X=@U*@X', '@X=@X/@U', '@X=@X+0!', '@X=1!*@X',
                 'IF @X<0 THEN @X=-ABS(@X) ELSE @X=ABS(@X)', '@X=@X+@Z-@Z*1', '@X=@X-@X+@X']
        for _ in range(n_chain):
            t = rng.choice('sd')
            x = gen_value(rng, t)
            if val(x) == 0:
                x = (t, ONES[t][1])
            var = 'X' + SIGIL[t]
            tz, tu = rng.choice(TYPES), rng.choice(TYPES)
            body = [rng.choice(stmts).replace('@X', var).replace('@Z', 'Z' + SIGIL[tz]).replace('@U', 'U' + SIGIL[tu])
                    for _ in range(rng.randrange(3, 12))]
            s.execute(b'NEW')
            lines = ['10 Z%s=0:U%s=1' % (SIGIL[tz], SIGIL[tu]), '20 %s=%s' % (var, lit(x))]
            lines += ['%d %s' % (30 + 10 * i, l) for i, l in enumerate(body)]
            for l in lines:
                s.execute(l.encode())
            s.execute(b'RUN')
            r = read_bytes(s, var, t)
            ctx.case(('basic-chain', x, tuple(body)))
            ctx.count('basic:chain')
            if r != as_double(x[1]):
                fail('chain:%s:%s' % (t, expclass(x)), '\n'.join(lines), '%s went from %s to %r'
                     % (var, mbf.hx(x[1]), r))


# ---------------------------------------------------------------------------------------------

def run(ctx):
    try:
        run_all(ctx)
    except TooManyHangs:
        ctx.log('stopped early: the implementation hangs (failures registered)')


def run_all(ctx):
    impl = Impl()
    rng = ctx.rng
    chk = Checker(ctx, impl)
    quick = ctx.quick
    # single-value identities
    ints = INT_B + [rng.randrange(65536) for _ in range(300)] if quick else list(range(65536))
    for w in ints:
        chk.single(('i', struct.pack('<H', w)))
    if not quick:
        ctx.notes['integers'] = 'all 65536 integers through every unary identity and identity element'
    chk.flush()
    nfl = 1200 if quick else 20000
    for t in 'sd':
        for z in ZEROS[t]:
            chk.single(z)
        chk.single(ONES[t])
        for i in range(nfl):
            chk.single(gen_value(rng, t))
            if i % 2000 == 1999:
                chk.flush()
        # every exponent byte with a power-of-two and an all-ones mantissa, both signs
        for e in range(256):
            for man in (0, (1 << (mbf.FMT[t]['w'] - 1)) - 1):
                for neg in (False, True):
                    top = 1 << (mbf.FMT[t]['w'] - 1)
                    chk.single((t, mbf.make(t, neg, top | man, e)))
        chk.flush()
    ctx.log('single-value identities done: %d evaluations' % ctx.evaluations)
    # pairs, all nine type pairings
    npair = 1500 if quick else 20000
    for ta in TYPES:
        for tb in TYPES:
            for _ in range(npair):
                a, b = gen_pairing(rng, ta, tb)
                chk.pair(a, b)
            chk.flush()
    if not quick:
        # Integer with Double, every integer: the two conversion routes of values.add agree
        for w in range(65536):
            a = ('i', struct.pack('<H', w))
            chk.pair(a, gen_value(rng, 'd'))
            if w % 4096 == 4095:
                chk.flush()
        chk.flush()
    ctx.log('pairs done: %d evaluations' % ctx.evaluations)
    for _ in range(300 if quick else 20000):
        chk.chain(gen_value(rng, rng.choice(TYPES)), rng.randrange(2, 10))
    chk.flush()
    if impl.touched:
        ctx.fail('operand-modified', {'level': 'values'}, 'an operator modified one of its operands in place')
    # the same operators on a Values object with double-precision math enabled (Session(double=True)):
    # same model, same identities, every type pairing in both operand orders
    dm = Checker(ctx, Impl(double_math=True, dog=impl.dog), level='values-double-math')
    for w in (INT_B if quick else range(0, 65536, 7)):
        dm.single(('i', struct.pack('<H', w)))
    dm.flush()
    for t in 'sd':
        for z in ZEROS[t] + [ONES[t]]:
            dm.single(z)
        for _ in range(150 if quick else 5000):
            dm.single(gen_value(rng, t))
    dm.flush()
    for ta in TYPES:
        for tb in TYPES:
            for _ in range(200 if quick else 8000):
                a, b = gen_pairing(rng, ta, tb)
                dm.pair(a, b)
        dm.flush()
    if dm.impl.touched:
        ctx.fail('values-double-math:operand-modified', {'level': 'values-double-math'},
                 'an operator modified one of its operands in place')
    ctx.log('values level with double_math done: %d evaluations' % ctx.evaluations)
    float_level(ctx, 1500 if quick else 60000, impl.dog)
    ctx.log('float level done')
    basic_level(ctx, 50 if quick else 1000, 40 if quick else 600, impl.dog)
    basic_level(ctx, 35 if quick else 1000, 20 if quick else 400, impl.dog, double=True)
    ctx.sample({'op': 'mul', 'a': 'd 0000000000000010 (2^-113)', 'b': 'd one',
                'impl': impl.call('mul', ('d', b'\0\0\0\0\0\0\0\x10'), ONES['d'])})
    ctx.sample({'op': 'add', 'a': 'i -1', 'b': 'd one', 'impl': impl.call('add', ('i', b'\xff\xff'), ONES['d'])})


def replay(ctx, payload):
    import random
    case = payload.get('case', {})
    sub = Ctx2(ctx)
    sub.rng = random.Random(payload.get('seed', 0))
    try:
        if case.get('level') in ('values', 'values-double-math') and case.get('a') and case.get('ident') != 'chain':
            chk = Checker(sub, Impl(double_math=case['level'] != 'values'), level=case['level'])
            a = (case['a'][0], mbf.unhx(case['a'][1]))
            chk.single(a)
            if case.get('b'):
                b = (case['b'][0], mbf.unhx(case['b'][1]))
                chk.pair(a, b)
                chk.pair(b, a)
                chk.single(b)
        else:
            # BASIC-level programs and chains: re-run deterministically with the recorded seed and tier
            run_all(sub)
    except TooManyHangs:
        pass
    hits = [f for f in sub.failures if f['key'] == payload.get('key')]
    return hits[0]['what'] if hits else None


class Ctx2(object):
    """thin proxy so replay can reuse run() without touching the outer evidence"""
    def __init__(self, ctx):
        self.__dict__.update(ctx.__dict__)
        self._ctx = ctx
        self.failures = []
        self.disagreements = []

    def __getattr__(self, name):
        return getattr(self._ctx.__class__, name).__get__(self)
