import PcbV.Basic
import PcbV.Gen.KeyBuf
/-
  PcbV.Model.KeyBuf — transcription of pcbasic/basic/inputs/keyboard.py:KeyboardBuffer (with the
  repaired `ring_set_boundaries`), of the part of Keyboard that feeds and drains it, and of
  pcbasic/basic/machine.py:Memory._get_low_memory/_set_low_memory for addresses 1050..1085.

  A keystroke is `(c, scan)`: `c` the e-ASCII/codepage bytes (1 or 2 bytes, possibly empty after a
  slot POKE), `scan` the scancode; Python `None` scancodes are 0 here (only `scan or 0` is observable).
  `_buffer` is a Python list that only grows at the end, `_start` a non-negative Python int.
  `len(_buffer) - _start` is written with truncated subtraction: `_start ≤ len(_buffer)` is an
  invariant (theorem `PcbV.C37.inv_run`).  The literals 16 / 30 are `Gen.KeyBuf.ringLength` /
  `keyBufferOffset` (theorem `PcbV.C37.constants_match` breaks if /repo changes them).
-/
namespace PcbV.KeyBuf
open PcbV

abbrev Key := Bytes × Nat

def zeroKey : Key := Gen.KeyBuf.zeroKey

structure KB where
  buf : List Key
  start : Nat
deriving Repr, DecidableEq

/-- `KeyboardBuffer.__init__(queues, 16, check_full)` -/
def init : KB := { buf := List.replicate 16 zeroKey, start := 16 }

/-- Python list index: negative indices count from the end; `none` = IndexError -/
def pyIdx (len : Nat) (i : Int) : Option Nat :=
  if 0 ≤ i then (if i < len then some i.toNat else none)
  else if -(len : Int) ≤ i then some (i + len).toNat else none

/-- `KeyboardBuffer.append(cp_c, scan)` with the current `_check_full` flag -/
def append (s : KB) (c : Bytes) (scan : Nat) (checkFull : Bool) : KB :=
  if c.isEmpty then s
  else if checkFull && decide (s.buf.length - s.start ≥ 16 - 1) then
    -- buffer full: a CR is put in the free slot before the start, the keystroke is dropped
    match pyIdx s.buf.length ((s.start : Int) - 1) with
    | some i => { s with buf := s.buf.set i ([13], Gen.KeyBuf.scanReturn) }
    | none => s
  else { s with buf := s.buf ++ [(c, scan)] }

/-- `KeyboardBuffer.getc()` -/
def getc (s : KB) : Bytes × KB :=
  match s.buf[s.start]? with
  | some k => (k.1, { s with start := s.start + 1 })
  | none => ([], s)

/-- `KeyboardBuffer.peek()` -/
def peekc (s : KB) : Bytes :=
  match s.buf[s.start]? with
  | some k => k.1
  | none => []

/-- `KeyboardBuffer._ring_index(index)` -/
def ringIndex (len : Nat) (index : Int) : Int :=
  let diff : Int := ((len % 16 : Nat) : Int) - index
  let offset : Int := (len : Int) - diff
  if diff ≤ 0 then offset - 16 else offset

/-- `KeyboardBuffer.length` -/
def length (s : KB) : Nat := min 16 (s.buf.length - s.start)
/-- `KeyboardBuffer.empty` -/
def empty (s : KB) : Bool := decide (s.start ≥ s.buf.length)
/-- `KeyboardBuffer.start` -/
def startP (s : KB) : Nat := s.start % 16
/-- `KeyboardBuffer.stop` -/
def stopP (s : KB) : Nat := (s.start + length s) % 16

/-- `KeyboardBuffer.ring_read(index)` (IndexError not modelled: returns the filler) -/
def ringRead (s : KB) (index : Int) : Key :=
  match pyIdx s.buf.length (ringIndex s.buf.length index) with
  | some i => s.buf.getD i zeroKey
  | none => zeroKey

/-- `KeyboardBuffer.ring_write(index, c, scan)` -/
def ringWrite (s : KB) (index : Int) (k : Key) : KB :=
  match pyIdx s.buf.length (ringIndex s.buf.length index) with
  | some i => { s with buf := s.buf.set i k }
  | none => s

/-- `KeyboardBuffer.ring_set_boundaries(newstart, newstop)` — the repaired version -/
def setBoundaries (s : KB) (newstart newstop : Int) : KB :=
  let ns : Nat := (newstart % 16).toNat
  let np : Nat := (newstop % 16).toNat
  -- (newstop - newstart) % 16, Python modulo
  let len : Nat := (np + 16 - ns) % 16
  let s1 : KB := { s with buf := s.buf.take (s.start + 16) }
  let ring : List Key := (List.range 16).map (fun i => ringRead s1 (i : Nat))
  let b : List Key := List.replicate np zeroKey ++ ring.drop np ++ ring.take np
  { buf := b, start := b.length - len }

/-! ### machine.py: low memory 1050..1085 -/

/-- first byte shown for a slot: `0 if c == b'' else ord(c[0:1])` -/
def firstByte (c : Bytes) : Nat :=
  match c with
  | [] => 0
  | x :: _ => x

/-- `max(0, Memory._get_low_memory(addr))` for 1050 ≤ addr ≤ 1085 (0 elsewhere: not modelled) -/
def peekMem (s : KB) (addr : Nat) : Nat :=
  if addr = 1050 then (startP s * 2 + 30) % 256
  else if addr = 1051 then (startP s * 2 + 30) / 256
  else if addr = 1052 then (stopP s * 2 + 30) % 256
  else if addr = 1053 then (stopP s * 2 + 30) / 256
  else if 1024 + 30 ≤ addr ∧ addr < 1024 + 30 + 32 then
    let index := (addr - 1024 - 30) / 2
    let odd := (addr - 1024 - 30) % 2
    let k := ringRead s (index : Nat)
    if odd ≠ 0 then k.2 else firstByte k.1
  else 0

/-- `Memory._set_low_memory(addr, value)` for 1050 ≤ addr ≤ 1085, 0 ≤ value ≤ 255 -/
def pokeMem (s : KB) (addr value : Nat) : KB :=
  if addr = 1050 then setBoundaries s (((value : Int) - 30) / 2) (stopP s)
  else if addr = 1052 then setBoundaries s (startP s) (((value : Int) - 30) / 2)
  else if 1024 + 30 ≤ addr ∧ addr < 1024 + 30 + 32 then
    let index := (addr - 1024 - 30) / 2
    let odd := (addr - 1024 - 30) % 2
    let k := ringRead s (index : Nat)
    let k' : Key :=
      if odd ≠ 0 then (k.1, value)
      else if value = 0 ∨ value = 224 then ([], k.2)
      else ([value], k.2)
    ringWrite s (index : Nat) k'
  else s

/-! ### histories -/

inductive Op where
  /-- a key-down event reaching `Keyboard._key_down` → `buf.append` under `check_full = True` -/
  | press (c : Bytes) (scan : Nat)
  /-- `Keyboard.inject_keystrokes` (Session.press_keys): `append(c, None)` with the limit ignored -/
  | inject (c : Bytes)
  /-- INKEY$ (no function-key macro involved, no input stream) -/
  | read
  /-- PEEK(addr) with DEF SEG=0 -/
  | peek (addr : Nat)
  /-- POKE addr, value with DEF SEG=0 -/
  | poke (addr value : Nat)
  /-- POKE 1050, PEEK(1052) -/
  | clear
deriving Repr, DecidableEq

inductive Out where
  | key (c : Bytes)
  | byte (n : Nat)
deriving Repr, DecidableEq

def step (s : KB) : Op → KB × Option Out
  | .press c scan => (append s c scan true, none)
  | .inject c => (append s c 0 false, none)
  | .read => let r := getc s; (r.2, some (.key r.1))
  | .peek a => (s, some (.byte (peekMem s a)))
  | .poke a v => (pokeMem s a v, none)
  | .clear => (pokeMem s 1050 (peekMem s 1052), none)

def run (s : KB) : List Op → List Out × KB
  | [] => ([], s)
  | op :: rest =>
    let r := step s op
    let t := run r.1 rest
    (match r.2 with | some o => o :: t.1 | none => t.1, t.2)

/-- the keystrokes waiting to be read, oldest first -/
def waiting (s : KB) : List Key := s.buf.drop s.start

/-! ### Keyboard.get_fullchar: the reader behind INPUT / LINE INPUT / the line editor (DBCS pairing) -/

/-- `c in codepage.lead` / `c in codepage.trail` for a keystroke `c`: the sets hold single bytes, so a
    two-byte keystroke (e-ASCII key, a double-byte character typed as one key) or `b''` is never a member -/
def inSet (set : Nat → Bool) (c : Bytes) : Bool :=
  match c with
  | [x] => set x
  | _ => false

/-- `Keyboard.get_fullchar()` with no function-key macro involved and no input stream: read one keystroke;
    if it is a lead byte and the NEXT waiting keystroke (peeked, not consumed) is a trail byte, read that too -/
def getFullchar (lead trail : Nat → Bool) (s : KB) : Bytes × KB :=
  let r := getc s
  if inSet lead r.1 && inSet trail (peekc r.2) then
    let r2 := getc r.2
    (r.1 ++ r2.1, r2.2)
  else r

/-- a reading path: `byte` = `read_byte` (INKEY$, INPUT$), `full` = `get_fullchar` (INPUT, LINE INPUT, editor) -/
inductive Rd where
  | byte
  | full
deriving Repr, DecidableEq

def readStep (lead trail : Nat → Bool) (s : KB) : Rd → Bytes × KB
  | .byte => getc s
  | .full => getFullchar lead trail s

def readAll (lead trail : Nat → Bool) (s : KB) : List Rd → List Bytes × KB
  | [] => ([], s)
  | r :: rest =>
    let x := readStep lead trail s r
    let t := readAll lead trail x.2 rest
    (x.1 :: t.1, t.2)

/-! ### the code before the repair (for the counterexample theorems only) -/
namespace Old

def sliceFrom (l : List α) (i : Int) : List α :=
  if 0 ≤ i then l.drop i.toNat else l.drop (l.length - (-i).toNat)
def sliceTo (l : List α) (i : Int) : List α :=
  if 0 ≤ i then l.take i.toNat else l.take (l.length - (-i).toNat)

/-- the `while start % ring_length != newstart` loop; `none` = fuel exhausted -/
def padLoop : Nat → Int → Int → List Key → Option (Int × List Key)
  | 0, _, _, _ => none
  | fuel + 1, start, newstart, buf =>
    if start % 16 ≠ newstart then padLoop fuel (start + 1) newstart (zeroKey :: buf)
    else some (start, buf)

/-- `ring_set_boundaries` as it was; `none` = the padding loop did not stop within `fuel` rounds -/
def setBoundaries (fuel : Nat) (s : KB) (newstart newstop : Int) : Option KB :=
  let length : Int := (newstop - newstart) % 16
  let start : Int := ringIndex s.buf.length s.start
  let b1 := sliceTo s.buf ((s.start : Int) + 16)
  let start := start - ((b1.length : Int) - 16)
  let b2 := sliceFrom b1 (-16)
  let shift : Int := (sliceFrom b2 (start + length)).length
  let b3 := sliceFrom b2 (start + length) ++ sliceTo b2 (start + length)
  let start := (start + shift) % 16
  match padLoop fuel start newstart b3 with
  | some (st, b) => some { buf := b, start := st.toNat }
  | none => none

def pokeMem (fuel : Nat) (s : KB) (addr value : Nat) : Option KB :=
  if addr = 1050 then setBoundaries fuel s (((value : Int) - 30) / 2) (stopP s)
  else if addr = 1052 then setBoundaries fuel s (startP s) (((value : Int) - 30) / 2)
  else some (KeyBuf.pokeMem s addr value)

end Old

end PcbV.KeyBuf
