import PcbV.Basic
import PcbV.Gen.Errors
import PcbV.Gen.ProgTokens
/-
  PcbV.Model.Program — the stored program of pcbasic/basic/program.py (class Program):

    bytecode   `00 <next-addr:2> <line:2> tokens…  00 <next-addr:2> <line:2> tokens…  00 00 00`
    line_numbers  dict  line → offset of the record's leading 00, plus the sentinel 65536 → offset
                  of the terminator

  Transcribed: erase, find_pos_line_dict, store_line (+ truncate), delete, update_line_dict (the walk
  along the next-address chain), rebuild_line_dict (token-aware rescan through
  TokenisedStream.skip_to), list_lines, Interpreter.jump's lookup, and the PEEK-visible link chain.

  Representation choices (stated, validated by the correspondence run):
  * `code` is bytecode[0:code_size] (the BytesIO is truncated there by store_line/delete/erase);
  * the dict is an association list kept sorted by line number (Python only ever uses it through
    membership, min(), filters and item assignment, none of which depends on insertion order);
    `min(beyond)` / `min(deleteable)` are therefore the heads of the filtered lists;
  * Python ints that may be negative in the code (`length -= afterpos - pos`) are kept as a pair
    (add, sub) of naturals and applied as `x + add - sub`; under the invariant `sub ≤ x` always;
  * `struct.pack('<H', v)` raising for v > 65535 is not modelled (bytes are v mod 65536); the
    invariant's memory clause keeps every address below 65536.
  * `old := true` selects the unrepaired code for the two defects found with this property
    (skip_to taking a REM byte inside a string literal for a REM token; store_line's memory check
    ignoring the lines behind the insertion point).  The main model is `old := false`.
-/
namespace PcbV.Program
open PcbV PcbV.Gen PcbV.Gen.ProgTokens

/-- a program line: (line number, body = the token bytes after the line-number field) -/
abbrev Rec := Nat × Bytes

def lo (v : Nat) : Nat := v % 256
def hi (v : Nat) : Nat := v / 256 % 256
def le16 (a b : Nat) : Nat := a + 256 * b

/-! ### TokenisedStream.skip_to (END_LINE) -/

/-- state of `skip_to`: inside a string literal, inside a REM, payload bytes still to be skipped -/
structure Scan where
  lit : Bool
  rem : Bool
  skip : Nat
deriving DecidableEq, Repr

def Scan.init : Scan := ⟨false, false, 0⟩

/-- one byte of `skip_to((b'\0', b''))`; `none` = this byte is the line-ending NUL -/
def scanStep (old : Bool) (st : Scan) (c : Nat) : Option Scan :=
  if st.skip > 0 then some { st with skip := st.skip - 1 }
  else if c = 0 then none
  else
    let lit := if c = 34 then !st.lit else st.lit
    let rem := if c ≠ 34 ∧ c = remTok ∧ (old ∨ st.lit = false) then true else st.rem
    if lit ∨ rem then some ⟨lit, rem, 0⟩ else some ⟨lit, rem, plusBytes c⟩

/-- number of bytes `skip_to` passes before it stops (on the NUL or at the end of the stream) -/
def scanEol (old : Bool) : Scan → Bytes → Nat
  | _, [] => 0
  | st, c :: rest =>
    match scanStep old st c with
    | none => 0
    | some st' => 1 + scanEol old st' rest

/-- scan a whole body; `none` if a line-ending NUL is met inside it -/
def scanAll (old : Bool) : Scan → Bytes → Option Scan
  | st, [] => some st
  | st, c :: rest =>
    match scanStep old st c with
    | none => none
    | some st' => scanAll old st' rest

/-- Well-formed body: `skip_to` sees no line end inside it (a 00 may only occur in the payload of a
    number / line-number / two-byte token outside string literals and REM), and the body does not
    end in the middle of such a payload. -/
def wfBody (b : Bytes) : Bool :=
  match scanAll false Scan.init b with
  | some st => st.skip == 0
  | none => false

/-! ### serialisation of a list of records (the specification of the byte layout) -/

def recSize (r : Rec) : Nat := 5 + r.2.length

def size : List Rec → Nat
  | [] => 0
  | r :: rs => recSize r + size rs

/-- the records, the first one living at memory address `addr - 1` (`addr = code_start + 1 + offset`) -/
def serRecs (addr : Nat) : List Rec → Bytes
  | [] => []
  | r :: rs =>
    let nx := addr + recSize r
    0 :: lo nx :: hi nx :: lo r.1 :: hi r.1 :: (r.2 ++ serRecs nx rs)

def ser (addr : Nat) (rs : List Rec) : Bytes := serRecs addr rs ++ [0, 0, 0]

/-- line → offset for the records starting at offset `p` (without the sentinel) -/
def offs (p : Nat) : List Rec → List (Nat × Nat)
  | [] => []
  | r :: rs => (r.1, p) :: offs (p + recSize r) rs

def dictOf (rs : List Rec) : List (Nat × Nat) := offs 0 rs ++ [(65536, size rs)]

/-! ### concrete state and operations -/

structure PState where
  code : Bytes
  dict : List (Nat × Nat)
  codeStart : Nat
  /-- memory.stack_start() -/
  limit : Nat
deriving DecidableEq, Repr

/-- Program.erase (NEW) -/
def new (s : PState) : PState := { s with code := [0, 0, 0], dict := [(65536, 0)] }

def init (cs limit : Nat) : PState := ⟨[0, 0, 0], [(65536, 0)], cs, limit⟩

/-- offset of the first entry (the entry with the least line number), `dflt` if there is none -/
def headPos (l : List (Nat × Nat)) (dflt : Nat) : Nat :=
  match l with
  | e :: _ => e.2
  | [] => dflt

/-- find_pos_line_dict: (startpos, afterpos, deleteable is empty) -/
def findPos (d : List (Nat × Nat)) (a b : Nat) : Nat × Nat × Bool :=
  let del := d.filter (fun e => decide (a ≤ e.1 ∧ e.1 ≤ b))
  let bey := d.filter (fun e => decide (b < e.1))
  -- `beyond` is never empty: the sentinel 65536 (Python would raise ValueError on min([]))
  let afterpos := headPos bey 0
  let startpos := headPos del afterpos
  (startpos, afterpos, del.isEmpty)

/-- the loop of update_line_dict; the list starts at a next-address field.
    `addr` = address the record had before the edit, new address field = old + add - sub. -/
def walk : Nat → Nat → Nat → Nat → Bytes → Bytes
  | fuel + 1, add, sub, addr, a :: b :: rest =>
    if a = 0 ∧ b = 0 then a :: b :: rest
    else
      let nx := le16 a b
      let nw := nx + add - sub
      if nx < addr + 2 then lo nw :: hi nw :: rest   -- read(negative) reads to the end: loop ends
      else lo nw :: hi nw :: (rest.take (nx - addr - 2) ++ walk fuel add sub nx (rest.drop (nx - addr - 2)))
  | _, _, _, _, bs => bs

/-- the dict part of update_line_dict -/
def updateDict (d : List (Nat × Nat)) (a b add sub : Nat) : List (Nat × Nat) :=
  (d.filter (fun e => !decide (a ≤ e.1 ∧ e.1 ≤ b))).map
    (fun e => if b < e.1 then (e.1, e.2 + add - sub) else e)

/-- common part of store_line and delete: cut [pos, afterpos), paste `newrec`, write back the rest
    (`truncate(rest)`), then update_line_dict -/
def splice (s : PState) (a b pos afterpos : Nat) (newrec : Bytes) : PState :=
  let rest := s.code.drop afterpos
  let rest' := if rest.isEmpty then [0, 0, 0] else rest
  let code1 := s.code.take pos ++ newrec ++ rest'
  let k := pos + newrec.length + 1
  let code2 := code1.take k ++
    walk code1.length newrec.length (afterpos - pos) (s.codeStart + 1 + afterpos) (code1.drop k)
  { s with code := code2, dict := updateDict s.dict a b newrec.length (afterpos - pos) }

def isBlank (c : Nat) : Bool := blanks.contains c

/-- `linebuf.skip_blank_read() in tk.END_LINE` after the line number -/
def bodyEmpty (body : Bytes) : Bool :=
  match body.dropWhile isBlank with
  | [] => true
  | c :: _ => c == 0

/-- `self.line_numbers[k] = v` on the sorted association list -/
def dictSet (d : List (Nat × Nat)) (k v : Nat) : List (Nat × Nat) :=
  d.filter (fun e => decide (e.1 < k)) ++ (k, v) :: d.filter (fun e => decide (k < e.1))

/-- Program.store_line for the line buffer `00 C0 DE <n:2> body` -/
def storeG (old : Bool) (s : PState) (n : Nat) (body : Bytes) : R PState :=
  let empty := bodyEmpty body
  let fp := findPos s.dict n n
  let pos := fp.1
  let afterpos := fp.2.1
  if empty && fp.2.2 then .error E.undefined_line_number
  else if empty then .ok (splice s n n pos afterpos [])
  else
    let len := 5 + body.length
    let behind := if old then 0 else s.code.length - afterpos - 3
    if s.codeStart + 1 + pos + len + behind > s.limit then .error E.out_of_memory
    else
      let link := s.codeStart + 1 + pos + len
      let s' := splice s n n pos afterpos (0 :: lo link :: hi link :: lo n :: hi n :: body)
      .ok { s' with dict := dictSet s'.dict n pos }

def store := storeG false

/-- Program.delete(fromline, toline) with explicit numbers -/
def delete (s : PState) (a b : Nat) : R PState :=
  let fp := findPos s.dict a b
  if fp.2.2 then .error E.ifc else .ok (splice s a b fp.1 fp.2.1 [])

/-- `DELETE [a][-[b]]`: missing `a` is min(line_numbers), missing `b` is 65535 -/
def deleteOpt (s : PState) (a b : Option Nat) : R PState :=
  let a' := match a with
    | some a => a
    | none => match s.dict with
      | e :: _ => e.1
      | [] => 0
  delete s a' (b.getD 65535)

/-! ### readers -/

/-- rebuild_line_dict: the dict a fresh scan of the bytes gives (in stream order) -/
def rescanAux (old : Bool) : Nat → Nat → Bytes → List (Nat × Nat)
  | fuel + 1, pos, _ :: a :: b :: l :: h :: rest =>
    if a = 0 ∧ b = 0 then [(65536, pos)]
    else
      let k := scanEol old Scan.init rest
      (le16 l h, pos) :: rescanAux old fuel (pos + 5 + k) (rest.drop k)
  | _, pos, _ => [(65536, pos)]

def rescanG (old : Bool) (code : Bytes) : List (Nat × Nat) := rescanAux old code.length 0 code
def rescan := rescanG false

/-- the records a scan of the bytes finds -/
def parseAux : Nat → Bytes → List Rec
  | fuel + 1, _ :: a :: b :: l :: h :: rest =>
    if a = 0 ∧ b = 0 then []
    else
      let k := scanEol false Scan.init rest
      (le16 l h, rest.take k) :: parseAux fuel (rest.drop k)
  | _, _ => []

def parse (code : Bytes) : List Rec := parseAux code.length code

/-- abstraction function: the program the bytes denote -/
def abs (s : PState) : List Rec := parse s.code

/-- the record at offset `p`: (line field, body up to the line end) -/
def recordAt (code : Bytes) (p : Nat) : Option Rec :=
  match code.drop p with
  | _ :: _ :: _ :: l :: h :: rest => some (le16 l h, rest.take (scanEol false Scan.init rest))
  | _ => none

def insertSorted (x : Nat) : List Nat → List Nat
  | [] => [x]
  | y :: ys => if x ≤ y then x :: y :: ys else y :: insertSorted x ys

def sortNat (l : List Nat) : List Nat := l.foldr insertSorted []

/-- list_lines(None, None): positions of all numbers ≤ max_list_line, sorted by position, each
    detokenised from its position (here: line field and raw body) -/
def listLines (s : PState) : List Rec :=
  (sortNat ((s.dict.filter (fun e => decide (e.1 ≤ maxListLine))).map (·.2))).filterMap (recordAt s.code)

/-- Interpreter.jump: position for a line number (KeyError → Undefined line number) -/
def jumpPos (s : PState) (n : Nat) : Option Nat := (s.dict.find? (fun e => e.1 == n)).map (·.2)

/-- what PEEK shows: follow next-address fields from code_start; (offset, line field) of every
    record visited, and the offset of the record whose next-address is 0 (the terminator) -/
def chainAux (cs : Nat) (code : Bytes) : Nat → Nat → List (Nat × Nat) × Option Nat
  | fuel + 1, p =>
    match code.drop p with
    | _ :: a :: b :: rest =>
      if a = 0 ∧ b = 0 then ([], some p)
      else match rest with
        | l :: h :: _ =>
          let r := chainAux cs code fuel (le16 a b - cs - 1)
          ((p, le16 l h) :: r.1, r.2)
        | _ => ([], none)
    | _ => ([], none)
  | 0, _ => ([], none)

def chain (s : PState) : List (Nat × Nat) × Option Nat := chainAux s.codeStart s.code s.code.length 0

/-! ### specification: a sorted map line → body -/

def specInsert (m : List Rec) (n : Nat) (body : Bytes) : List Rec :=
  m.filter (fun r => decide (r.1 < n)) ++ (n, body) :: m.filter (fun r => decide (n < r.1))

def specRemove (m : List Rec) (a b : Nat) : List Rec :=
  m.filter (fun r => !decide (a ≤ r.1 ∧ r.1 ≤ b))

def specHas (m : List Rec) (a b : Nat) : Bool := m.any (fun r => decide (a ≤ r.1 ∧ r.1 ≤ b))

/-- `cap` = bytes available to the program text (3 terminator bytes included) -/
def specStore (cap : Nat) (m : List Rec) (n : Nat) (body : Bytes) : R (List Rec) :=
  if bodyEmpty body then
    if specHas m n n then .ok (specRemove m n n) else .error E.undefined_line_number
  else
    let m' := specInsert m n body
    if size m' + 3 > cap then .error E.out_of_memory else .ok m'

def specDelete (m : List Rec) (a b : Nat) : R (List Rec) :=
  if specHas m a b then .ok (specRemove m a b) else .error E.ifc

def cap (s : PState) : Nat := s.limit + 2 - s.codeStart

/-! ### histories -/

inductive Op where
  | store (n : Nat) (body : Bytes)
  | delete (a b : Nat)
  | new
deriving DecidableEq, Repr

/-- one operation; on an error the state is unchanged and the error number is reported -/
def step (s : PState) : Op → PState × Option Nat
  | .store n body => match store s n body with
    | .ok s' => (s', none)
    | .error e => (s, some e)
  | .delete a b => match delete s a b with
    | .ok s' => (s', none)
    | .error e => (s, some e)
  | .new => (new s, none)

def specStep (cap : Nat) (m : List Rec) : Op → List Rec × Option Nat
  | .store n body => match specStore cap m n body with
    | .ok m' => (m', none)
    | .error e => (m, some e)
  | .delete a b => match specDelete m a b with
    | .ok m' => (m', none)
    | .error e => (m, some e)
  | .new => ([], none)

def run (s : PState) : List Op → PState × List (Option Nat)
  | [] => (s, [])
  | op :: ops =>
    let r := step s op
    let t := run r.1 ops
    (t.1, r.2 :: t.2)

def specRun (cap : Nat) (m : List Rec) : List Op → List Rec × List (Option Nat)
  | [] => (m, [])
  | op :: ops =>
    let r := specStep cap m op
    let t := specRun cap r.1 ops
    (t.1, r.2 :: t.2)

end PcbV.Program
