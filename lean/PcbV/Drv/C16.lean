import PcbV.Model.Protected
namespace PcbV.Drv.C16
open PcbV PcbV.Protected PcbV.Gen.Stmts

def cbOfName (n : String) : Option Cb := allCbs.find? (fun c => c.name == n)

def parseArgs (flags : String) (pre : String) : Args :=
  let has (c : Char) : Bool := flags.toList.contains c
  { mode := if has 'P' then 2 else if has 'A' then 1 else 0
    devD := has 'D'
    merge := has 'M'
    hasLine := has 'L'
    found := !has 'N'
    preErr := pre.toNat?
    flag := has 'F'
    zero := has 'Z' }

def showDanger : Danger → String
  | .none => "none" | .emit => "emit" | .emitUnlessP => "emitUnlessP" | .injectIfLine => "inject"
  | .injectIfMergeLine => "injectIfMerge" | .emitData => "emitData"

def showGuard : Guard → String
  | .none => "none" | .directOnly => "directOnly" | .always => "always" | .unlessP => "unlessP"
  | .ifMerge => "ifMerge" | .storeLine => "storeLine"

def showEffect : Effect → String
  | .none => "none" | .erase => "erase" | .loadFile => "loadFile" | .pokeFlag => "pokeFlag"

def showOut : Out → String
  | .ifc => "ifc" | .err n => "err" ++ toString n | .pass d => "pass-" ++ showDanger d
  | .unclassified => "unclassified"

def showSt (s : St) : String := showBool s.prot ++ showBool s.allow ++ showBool s.secret

def parseSt (w : String) : Option St :=
  match w.toList with
  | [a, b, c] => some ⟨a == '1', b == '1', c == '1'⟩
  | _ => none

/-- one op: `d:name:flags:pre` (direct) / `p:name:flags:pre` (program); name `LINE` = line entry -/
def parseOp (w : String) : Option (Bool × Op) :=
  match w.splitOn ":" with
  | [m, n, f, p] =>
    let run := m == "p"
    if n == "LINE" then some (run, .enterLine)
    else match cbOfName n with
      | some c => some (run, .stmt c (parseArgs f p))
      | none => none
  | _ => none

/-- what the harness can observe of an outcome: did the protection guard fire or not -/
def coarse : Out → String
  | .ifc => "ifc" | .unclassified => "unclassified" | _ => "pass"

def handle : List String → String
  | ["hist", st, ops] =>
    -- coarse reply: guard fired / not per operation, and the flag afterwards
    match parseSt st, (ops.splitOn ";").mapM parseOp with
    | some s, some h =>
      let (tr, s') := runMixed s h
      "ok " ++ ",".intercalate (tr.map (fun t => coarse t.2.1)) ++ " " ++ showBool s'.prot
    | _, _ => "bad-op"
  | ["histv", st, ops] =>
    match parseSt st, (ops.splitOn ";").mapM parseOp with
    | some s, some h =>
      let (tr, s') := runMixed s h
      "ok " ++ ",".intercalate (tr.map (fun t => showOut t.2.1)) ++ " " ++ showSt s'
    | _, _ => "bad-op"
  | ["cls", n] =>
    match cbOfName n with
    | some c =>
      match classify c with
      | some k => "ok " ++ showDanger k.danger ++ "/" ++ showGuard k.guard ++ "/" ++ showEffect k.effect
      | none => "ok unclassified"
    | none => "ok unknown-callback"
  | ["table", which] =>
    let t := if which == "statements" then statements else functions
    "ok " ++ ",".intercalate (t.map (fun e => e.1 ++ "=" ++ e.2.name))
  | _ => "bad-op"

end PcbV.Drv.C16
