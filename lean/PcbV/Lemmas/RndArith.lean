import PcbV.Model.Rnd
import Mathlib.Tactic.Ring
import Mathlib.Tactic.Linarith
/-
  Arithmetic lemmas for C39 (helpers of PcbV.Props.C39): the normalisation loop of the returned
  single, setting an already set hidden bit, and cancellation of `step` modulo the period.
-/
namespace PcbV.RndArith
open PcbV PcbV.Rnd

theorem normLoop_spec : ∀ (fuel m e : Nat), 0 < m → m < 2 ^ 24 → 2 ^ 23 ≤ m * 2 ^ fuel →
    fuel ≤ e → ∃ k, k ≤ fuel ∧ normLoop fuel m e = (m * 2 ^ k, e - k) ∧
      2 ^ 23 ≤ m * 2 ^ k ∧ m * 2 ^ k < 2 ^ 24 := by
  intro fuel
  induction fuel with
  | zero =>
    intro m e _ h2 h3 _
    exact ⟨0, Nat.le_refl _, by simp [normLoop], by simpa using h3, by simpa using h2⟩
  | succ fuel ih =>
    intro m e h1 h2 h3 h4
    by_cases hm : m ≥ 8388608
    · exact ⟨0, Nat.zero_le _, by simp [normLoop, hm], by simp; omega, by simpa using h2⟩
    · have e1 : ∀ j : Nat, m * 2 ^ (j + 1) = 2 * m * 2 ^ j := by intro j; rw [pow_succ]; ring
      obtain ⟨k, hk, hn, hlo, hhi⟩ := ih (2 * m) (e - 1) (by omega) (by omega)
        (by rw [← e1]; exact h3) (by omega)
      refine ⟨k + 1, by omega, ?_, ?_, ?_⟩
      · simp only [normLoop, hm, if_false, hn, e1]
        refine Prod.ext rfl ?_
        show e - 1 - k = e - (k + 1); omega
      · rw [e1]; exact hlo
      · rw [e1]; exact hhi

theorem or_hidden (n y : Nat) (hy : y < 2 ^ n) : (y + 2 ^ n) ||| 2 ^ n = y + 2 ^ n := by
  rw [← Nat.or_two_pow_eq_add_of_lt hy, Nat.or_assoc, Nat.or_self]

theorem key_lemma0 (k n n' : Int) (hn : -32768 ≤ n ∧ n ≤ 32767)
    (hn' : -32768 ≤ n' ∧ n' ≤ 32767) (h : n * 4455680 - n' * 4455680 = 16777216 * k) : n = n' := by
  have h1 : 17405 * (n - n') = 65536 * k := by omega
  -- 12629 is the inverse of 17405 = step / 256 modulo 2^16
  have h2 : n - n' = 65536 * (12629 * k - 3354 * (n - n')) := by omega
  omega

theorem key_lemma (c n n' : Int) (hn : -32768 ≤ n ∧ n ≤ 32767)
    (hn' : -32768 ≤ n' ∧ n' ≤ 32767)
    (h : ((c + n * 4455680) % 16777216).toNat = ((c + n' * 4455680) % 16777216).toNat) : n = n' := by
  have a1 := Int.emod_nonneg (c + n * 4455680) (b := 16777216) (by decide)
  have a2 := Int.emod_nonneg (c + n' * 4455680) (b := 16777216) (by decide)
  have h1 : (c + n * 4455680) % 16777216 = (c + n' * 4455680) % 16777216 := by
    rw [← Int.toNat_of_nonneg a1, ← Int.toNat_of_nonneg a2, h]
  rw [Int.emod_eq_emod_iff_emod_sub_eq_zero] at h1
  obtain ⟨k, hk⟩ := Int.dvd_of_emod_eq_zero h1
  exact key_lemma0 k n n' hn hn' (by rw [← hk]; omega)

end PcbV.RndArith
