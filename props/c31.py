"""C31 — Drawing primitives have their specified geometry."""
import logging
import random
import re
import struct

from vlib import basic

LEVEL = 'proof'
RULE = ('per (adapter, SCREEN mode) episodes on a real Session with an accumulating random screen (LINE BF blocks, '
        'PSETs, PUT of random byte arrays): one case = one executed statement group (PSET+POINT, LINE / LINE B / LINE BF '
        'drawn twice with two attributes so that the exact set of written cells is observable on any background, GET, PUT '
        'with PSET/PRESET/AND/OR/XOR, XOR twice, GET-draw-PUT restore); every episode also runs array-state histories on two '
        'small arrays dimensioned to fit (GET; then refused GETs - record too large for the array, rectangle off the '
        'screen -, element and header assignments, array copies, Session.set_variable, ERASE+DIM; then PUT with every '
        'action verb, at the place of the GET or elsewhere); every statement is written in every coordinate form it has '
        '(absolute, STEP on the first / second / both corners, omitted first corner) after a statement of a random kind '
        '(PSET, PRESET, LINE, LINE STEP, CIRCLE, PAINT, PUT, GET) that leaves the graphics cursor somewhere else, and '
        'POINT(0), POINT(1) must show the cursor where the statement is documented to leave it; endpoints, rectangles and sprite rectangles are '
        'boundary-dense (screen edges, degenerate, byte-alignment widths 1..17) plus PRNG; non-trivial = every case '
        '(each changes or must provably not change pixels)')
EXPLANATION = ('theorems (PcbV.Props.C31): pset_one_pixel, point_reads_it, line_count (Bresenham invariant by induction, with '
               'endpoint swap and steep transposition), box_outline_exact, box_filled_exact, sprite_roundtrip_* for the three '
               'sprite builders, get_put_pset_identity, xor_twice; correspondence: written-cell sets of LINE/B/BF, GET byte '
               'arrays (pack), PUT of arbitrary byte arrays (unpack) and the five PUT operations compared with the compiled '
               'model; oracle (from the statement, independent of the model): one pixel + POINT, count / endpoints / one cell '
               'per major step / 8-adjacency / less than one pixel from the ideal line, exact frame and rectangle sets, '
               'GET;PUT PSET identity, copy semantics of the PUT operations cell by cell, XOR twice identity, whole page compared; '
               'in the array-state histories PUT must paint exactly the picture that the bytes the array holds NOW encode '
               '(independent decoder of the documented record formats), also after refused statements '
               '(theorems get_refused_put_identity, put_after_store)')
TRUSTED_BASE = ['models PcbV.Model.Sprite (sprite builders, bytematrix pack_bytes/unpack_bytes, get_/put_/point_) and '
                'PcbV.Model.Draw/Viewport (C30) are hand transcriptions of graphics.py, framebuffer.py, bytematrix.py',
                'the harness reads pixels with Session.get_pixels() (fast path: the rows of display.vpage, cross-checked '
                'against get_pixels() in every episode) and arrays with Session.get_variable/set_variable',
                'table MODES below (size, bits per pixel, sprite layout of each SCREEN mode) is written from the GW-BASIC / '
                'PC-BASIC documentation, not read from the implementation']
ASSUMPTIONS = ['unclipped screen: no VIEW, no WINDOW, active page = visible page = 0',
               'pack/unpack use arithmetic (% * /) in the model where the code uses & << >> on non-negative ints',
               'PUT of an array shorter than its own header demands is outside the property (not modelled)']

logging.getLogger().setLevel(logging.ERROR)

# (label, Session kwargs, screen numbers)
ADAPTERS = [
    ('cga', {'video': 'cga'}, [1, 2]),
    ('ega', {'video': 'ega'}, [1, 2, 7, 8, 9]),
    ('ega_64k', {'video': 'ega', 'video_memory': 65536}, [9]),
    ('ega_mono', {'video': 'ega', 'monitor': 'mono'}, [10]),
    ('vga', {'video': 'vga'}, [1, 2, 7, 8, 9]),
    ('hercules', {'video': 'hercules'}, [3]),
    ('tandy', {'video': 'tandy'}, [1, 2, 3, 4, 5, 6]),
    ('pcjr', {'video': 'pcjr'}, [1, 2, 3, 4, 5, 6]),
    ('olivetti', {'video': 'olivetti'}, [1, 2, 3]),
]
ADAPTER_KW = {a: kw for a, kw, _ in ADAPTERS}

# independent table: (adapter label, screen) -> (width, height, bits per pixel, sprite layout)
#  packed: CGA-style, header (width*bpp, height), pixels packed bpp bits each, rows byte aligned
#  planed: EGA-style, header (width, height), per row one bit plane after the other, 8 pixels per byte
#  tandy6: planed with 2 planes; GET fetches (and records half of) twice the requested width
MODES = {}
for _a in ('cga', 'ega', 'vga', 'tandy', 'pcjr', 'olivetti'):
    MODES[_a, 1] = (320, 200, 2, 'packed')
    MODES[_a, 2] = (640, 200, 1, 'packed')
for _a in ('ega', 'vga'):
    MODES[_a, 7] = (320, 200, 4, 'planed')
    MODES[_a, 8] = (640, 200, 4, 'planed')
    MODES[_a, 9] = (640, 350, 4, 'planed')
MODES['ega_64k', 9] = (640, 350, 2, 'planed')
MODES['ega_mono', 10] = (640, 350, 2, 'planed')
MODES['hercules', 3] = (720, 348, 1, 'packed')
MODES['olivetti', 3] = (640, 400, 1, 'packed')
for _a in ('tandy', 'pcjr'):
    MODES[_a, 3] = (160, 200, 4, 'packed')
    MODES[_a, 4] = (320, 200, 2, 'packed')
    MODES[_a, 5] = (320, 200, 4, 'packed')
    MODES[_a, 6] = (640, 200, 2, 'tandy6')

# one configuration per distinct mode definition (quick tier)
QUICK = [('cga', 1), ('cga', 2), ('ega', 7), ('vga', 8), ('ega', 9), ('ega_64k', 9), ('ega_mono', 10), ('hercules', 3),
         ('pcjr', 3), ('tandy', 4), ('tandy', 5), ('tandy', 6), ('olivetti', 3)]
ALL = [(a, m) for a, _, ms in ADAPTERS for m in ms]

ARR_INTS = 3000          # DIM A%(3000): 6002 bytes
NONZERO = re.compile(b'[^\\x00]+')
OPS = ['PSET', 'PRESET', 'AND', 'OR', 'XOR']


# ---------------------------------------------------------------------------------------------------------
# pixel bookkeeping

def diff_runs(a, b):
    """Maximal horizontal runs (y, xa, xb) of cells that differ between two snapshots (lists of bytes rows)."""
    out = []
    for y, (r0, r1) in enumerate(zip(a, b)):
        if r0 != r1:
            n = len(r0)
            if len(r1) != n:
                out.append((y, 0, max(n, len(r1)) - 1))
                continue
            x = (int.from_bytes(r0, 'big') ^ int.from_bytes(r1, 'big')).to_bytes(n, 'big')
            for m in NONZERO.finditer(x):
                out.append((y, m.start(), m.end() - 1))
    return out


def runs_text(runs):
    return ','.join('%d:%d-%d' % r for r in runs) or '-'


def runs_cells(runs):
    return [(x, y) for (y, a, b) in runs for x in range(a, b + 1)]


def paint_runs(rows, runs, c):
    """Copy of rows with the cells of runs set to c."""
    rows = list(rows)
    touched = {}
    for (y, a, b) in runs:
        if y not in touched:
            touched[y] = bytearray(rows[y])
        touched[y][a:b + 1] = bytes([c]) * (b - a + 1)
    for y, r in touched.items():
        rows[y] = bytes(r)
    return rows


def paste(rows, x0, y0, block):
    rows = list(rows)
    for j, br in enumerate(block):
        r = bytearray(rows[y0 + j])
        r[x0:x0 + len(br)] = br
        rows[y0 + j] = bytes(r)
    return rows


def region(rows, x0, y0, w, h):
    return [rows[y][x0:x0 + w] for y in range(y0, y0 + h)]


def first_diff(a, b):
    for y, (r0, r1) in enumerate(zip(a, b)):
        if r0 != r1:
            for x, (p, q) in enumerate(zip(r0, r1)):
                if p != q:
                    return x, y, p, q
            return 0, y, len(r0), len(r1)
    return None


def hexrows(block):
    return b''.join(block).hex() or '-'


def frame_runs(x0, y0, x1, y1):
    xa, xb, ya, yb = min(x0, x1), max(x0, x1), min(y0, y1), max(y0, y1)
    out = []
    for y in range(ya, yb + 1):
        if y in (ya, yb) or xb - xa < 2:
            out.append((y, xa, xb))
        else:
            out.append((y, xa, xa))
            out.append((y, xb, xb))
    return out


def rect_runs(x0, y0, x1, y1):
    xa, xb, ya, yb = min(x0, x1), max(x0, x1), min(y0, y1), max(y0, y1)
    return [(y, xa, xb) for y in range(ya, yb + 1)]


def record_size(kind, bpp, w, h):
    """Bytes of the record GET stores for a picture of w x h pixels (w: pixels actually stored)."""
    if kind == 'packed':
        return 4 + (w * bpp + 7) // 8 * h
    return 4 + (w + 7) // 8 * h * bpp


def decode(kind, bpp, data):
    """The picture (rows of attributes) a sprite record encodes, written from the documented formats only:
    packed - header (width*bpp, height), rows byte aligned, pixels bpp bits each, leftmost in the high bits;
    planed - header (width, height), per row one byte-aligned bit row per colour plane, plane 0 first;
    tandy6 - planed, the header holds half the width.
    None: the array is shorter than its own header demands; []: zero width or height."""
    if len(data) < 4:
        return None
    a, h = struct.unpack('<HH', data[:4])
    w = a // bpp if kind == 'packed' else (2 * a if kind == 'tandy6' else a)
    if w == 0 or h == 0:
        return []
    if len(data) < record_size(kind, bpp, w, h):
        return None
    rows = []
    if kind == 'packed':
        rb, mask = (w * bpp + 7) // 8, (1 << bpp) - 1
        for j in range(h):
            row = data[4 + j * rb:4 + (j + 1) * rb]
            rows.append(bytes((row[i * bpp // 8] >> (8 - bpp - i * bpp % 8)) & mask for i in range(w)))
    else:
        rb = (w + 7) // 8
        for j in range(h):
            planes = [data[4 + (j * bpp + p) * rb:4 + (j * bpp + p + 1) * rb] for p in range(bpp)]
            rows.append(bytes(sum(((planes[p][i // 8] >> (7 - i % 8)) & 1) << p for p in range(bpp)) for i in range(w)))
    return rows


def slope_class(x0, y0, x1, y1):
    dx, dy = abs(x1 - x0), abs(y1 - y0)
    if dx == 0 and dy == 0:
        return 'point'
    if dy == 0:
        return 'horizontal'
    if dx == 0:
        return 'vertical'
    if dx == dy:
        return 'diagonal'
    return 'shallow' if dx > dy else 'steep'


# ---------------------------------------------------------------------------------------------------------

class Episode(object):
    """One real Session in one graphics mode; an accumulating history of statements, each judged by the oracle."""

    def __init__(self, ctx, adapter, mode, seed, steps, collect, hists=1):
        self.ctx, self.adapter, self.mode, self.seed, self.steps = ctx, adapter, mode, seed, steps
        self.hists = hists
        self.dimmed = {}                # small arrays of the array-state histories: name -> number of bytes
        self.rng = random.Random(seed)
        self.W, self.H, self.bpp, self.kind = MODES[adapter, mode]
        self.wf = 2 if self.kind == 'tandy6' else 1
        self.nattr = 1 << self.bpp
        self.collect = collect          # (cases, outs, lines) for the correspondence
        self.history = []
        self.session = basic.new_session(**ADAPTER_KW[adapter])
        self.display = self.session._impl.display
        self.sprites = {}               # array name -> rows of the sprite it holds (as the oracle expects)
        self.dead = False
        out = self.session.execute(b'SCREEN %d' % mode)
        if out.strip():
            raise RuntimeError('SCREEN %d on %s: %r' % (mode, adapter, out))
        out = self.session.execute(b'DIM A%%(%d): DIM B%%(%d): DIM J%%(%d): DIM G%%(200)' % (ARR_INTS, ARR_INTS, ARR_INTS))
        if out.strip():
            raise RuntimeError('DIM: %r' % out)
        self.cur = self.snap()
        if len(self.cur) != self.H or len(self.cur[0]) != self.W:
            ctx.fail('mode-size:%s/%d' % (adapter, mode), self.where(), 'pixel buffer is %dx%d, expected %dx%d'
                     % (len(self.cur[0]), len(self.cur), self.W, self.H))
            self.dead = True

    def close(self):
        self.session.close()

    # --- plumbing

    def where(self, **kw):
        d = {'adapter': self.adapter, 'mode': self.mode, 'seed': self.seed, 'steps': self.steps, 'hists': self.hists,
             'step': len(self.history), 'recent': self.history[-8:]}
        d.update(kw)
        return d

    def snap(self, public=False):
        if not public:
            try:
                return [bytes(r) for r in self.display.vpage._pixels._rows]
            except AttributeError:
                pass
        return [bytes(r) for r in self.session.get_pixels()]

    def ex(self, text):
        """Execute one direct-mode line; returns None if it ran silently, else a description of what went wrong."""
        self.history.append(text)
        try:
            out = self.session.execute(text.encode('latin-1'))
        except Exception as e:      # host exception escaping the interpreter
            return 'host exception %s: %s' % (type(e).__name__, e)
        if out.strip():
            return 'output %r' % out.strip()[:60]
        return None

    def fail(self, key, what, **kw):
        self.ctx.fail('%s' % key, self.where(**kw), '%s SCREEN %d: %s' % (self.adapter, self.mode, what))

    def expect_page(self, key, expected, what, **kw):
        """Compare the whole page with the expected one; resynchronise on failure."""
        now = self.snap()
        d = first_diff(expected, now)
        if d is not None:
            self.fail(key, '%s: cell (%d,%d) is %d, expected %d' % (what, d[0], d[1], d[3], d[2]), **kw)
        self.cur = now
        return d is None

    def problem(self, stmt, err):
        self.fail('statement-rejected:' + stmt.split()[0].split('(')[0], '%s -> %s' % (stmt, err), stmt=stmt)
        self.cur = self.snap()

    # --- generators

    def coord(self, size):
        rng = self.rng
        k = rng.random()
        if k < 0.35:
            return rng.choice([0, 0, 1, 2, size // 2, size - 3, size - 2, size - 1, size - 1])
        return rng.randrange(size)

    def point(self):
        return self.coord(self.W), self.coord(self.H)

    def attr(self):
        return self.rng.randrange(self.nattr)

    def two_attrs(self):
        a = self.attr()
        b = self.rng.choice([c for c in range(self.nattr) if c != a])
        return a, b

    def sprite_rect(self):
        """(x0, y0, w, h): w is the *requested* width (Tandy SCREEN 6 fetches wf*w)."""
        rng = self.rng
        k = rng.random()
        if k < 0.45:
            w = rng.choice([1, 2, 3, 4, 5, 7, 8, 9, 15, 16, 17])
        elif k < 0.9:
            w = rng.randint(1, 48)
        else:
            w = rng.choice([self.W // self.wf, self.W // self.wf - 1, 64, 100])
        w = min(w, self.W // self.wf)
        hmax = max(1, min(self.H, 2400 // (w * self.wf)))
        h = rng.choice([1, 2, 3, rng.randint(1, hmax), rng.randint(1, hmax)])
        x0 = self.place(self.W - w * self.wf)
        y0 = self.place(self.H - h)
        return x0, y0, w, h

    def place(self, top):
        rng = self.rng
        if top <= 0:
            return 0
        return rng.choice([0, top, rng.randint(0, top), rng.randint(0, top)])

    def junk_array(self):
        """A well-formed header with random data bytes (including bits beyond the width): (ints, w, h) with w the
        width of the unpacked sprite in pixels."""
        rng = self.rng
        w = rng.choice([1, 2, 3, 5, 7, 8, 9, 12, 16, 17, rng.randint(1, 40)])
        h = rng.choice([1, 2, rng.randint(1, 12)])
        if self.kind == 'packed':
            hdr = struct.pack('<HH', w * self.bpp, h)
            n = (w * self.bpp + 7) // 8 * h
        elif self.kind == 'planed':
            hdr = struct.pack('<HH', w, h)
            n = (w + 7) // 8 * h * self.bpp
        else:
            w *= 2
            hdr = struct.pack('<HH', w // 2, h)
            n = (w + 7) // 8 * h * self.bpp
        body = bytes(rng.randrange(256) for _ in range(n))
        if rng.random() < 0.2:
            body = bytes(rng.choice([0, 255, 0x55, 0xaa]) for _ in range(n))
        data = hdr + body
        if len(data) % 2:
            data += b'\0'
        return data, w, h

    # --- background

    def background(self):
        rng = self.rng
        err = self.ex('CLS')
        if err:
            return self.problem('CLS', err)
        for _ in range(rng.randint(4, 9)):
            p, q = self.point(), self.point()
            st = 'LINE (%d,%d)-(%d,%d),%d,BF' % (p + q + (self.attr(),))
            err = self.ex(st)
            if err:
                return self.problem(st, err)
        for _ in range(rng.randint(10, 30)):
            st = 'PSET (%d,%d),%d' % (self.point() + (self.attr(),))
            err = self.ex(st)
            if err:
                return self.problem(st, err)
        self.cur = self.snap()
        for _ in range(2):
            self.step_junk_put()

    # --- steps (each judged)

    def step_pset(self):
        rng = self.rng
        x, y = self.point()
        c = self.attr()
        form = rng.choice(['PSET (%d,%d),%d', 'PSET (%d,%d),%d', 'PRESET (%d,%d),%d', 'PSET0', 'PRESET0', 'STEP'])
        if form == 'PSET0':
            st, c = 'PSET (%d,%d)' % (x, y), None
        elif form == 'PRESET0':
            st, c = 'PRESET (%d,%d)' % (x, y), 0
        elif form == 'STEP':
            bx, by = self.point()
            err = self.ex('P%%=POINT(%d,%d)' % (bx, by))     # POINT does not move the graphics cursor ...
            st0 = self.cursor_mover(bx, by, once=True)       # ... this does
            err = err or self.ex(st0)
            if err:
                return self.problem(st0, err)
            self.cur = self.snap()
            self.check_cursor((bx, by), st0)
            st = '%s STEP(%d,%d),%d' % (rng.choice(['PSET', 'PRESET']), x - bx, y - by, c)
        else:
            st = form % (x, y, c)
        err = self.ex(st)
        if err:
            return self.problem(st, err)
        now = self.snap()
        self.ctx.count('pset:' + form.split()[0])
        self.ctx.case((self.adapter, self.mode, self.seed, len(self.history)))
        # exactly one pixel: nothing but (x, y) may have changed
        for (yy, a, b) in diff_runs(self.cur, now):
            if (yy, a, b) != (y, x, x):
                self.fail('pset-other-pixel', '%s changed cells x=%d..%d of row %d' % (st, a, b, yy), stmt=st)
                break
        got = now[y][x]
        if c is not None and got != c:
            self.fail('pset-wrong-attribute', '%s left attribute %d at (%d,%d)' % (st, got, x, y), stmt=st)
        if c is None and got == 0:
            self.fail('pset-wrong-attribute', '%s (foreground) left attribute 0 at (%d,%d)' % (st, x, y), stmt=st)
        self.cur = now
        if form == 'STEP' or rng.random() < 0.3:
            self.check_cursor((x, y), st)
        # POINT returns it
        err = self.ex('P%%=POINT(%d,%d)' % (x, y))
        if err:
            return self.problem('POINT(%d,%d)' % (x, y), err)
        pv = self.session.get_variable('P%')
        if pv != got or (c is not None and pv != c):
            self.fail('point-differs', 'after %s POINT(%d,%d) = %r, pixel buffer has %d' % (st, x, y, pv, got), stmt=st)
        self.check_unchanged('point-changed-screen', 'POINT')

    def step_point(self):
        """POINT anywhere reads the pixel buffer; outside the screen it is -1."""
        rng = self.rng
        if rng.random() < 0.3:
            x, y = rng.choice([(-1, 0), (0, -1), (self.W, 0), (0, self.H), (self.W - 1, self.H), (-5, -5), (self.W + 7, 3)])
            want = -1
        else:
            x, y = self.point()
            want = self.cur[y][x]
        err = self.ex('P%%=POINT(%d,%d)' % (x, y))
        if err:
            return self.problem('POINT(%d,%d)' % (x, y), err)
        pv = self.session.get_variable('P%')
        self.ctx.count('point')
        self.ctx.case((self.adapter, self.mode, self.seed, len(self.history)))
        if pv != want:
            self.fail('point-differs', 'POINT(%d,%d) = %r, expected %d' % (x, y, pv, want))
        self.check_unchanged('point-changed-screen', 'POINT')

    def check_unchanged(self, key, what, **kw):
        return self.expect_page(key, self.cur, '%s changed the screen' % what, **kw)

    # --- the graphics cursor and the coordinate forms

    def cursor_mover(self, cx, cy, once=False):
        """A statement, of a random kind, that leaves the graphics cursor ("last point referenced") at (cx, cy).
        It may draw, with fixed attributes, so that running it again paints the same cells."""
        rng = self.rng
        # PAINT only where the mover runs once (run again after the point was drawn over it would fill)
        k = rng.choice(['pset', 'pset', 'preset', 'line', 'line-step', 'box-step', 'circle', 'put', 'get']
                       + (['paint', 'paint'] if once else []))
        here = self.cur[cy][cx]
        self.ctx.count('cursor-by:' + k)
        if k == 'preset':
            return 'PRESET (%d,%d),%d' % (cx, cy, self.attr())
        if k == 'line':
            return 'LINE (%d,%d)-(%d,%d),%d' % (self.point() + (cx, cy, self.attr()))
        if k in ('line-step', 'box-step'):
            a, b = self.point()
            return 'LINE (%d,%d)-STEP(%d,%d),%d%s' % (a, b, cx - a, cy - b, self.attr(), ',B' if k == 'box-step' else '')
        if k == 'circle':
            return 'CIRCLE (%d,%d),%d,%d' % (cx, cy, rng.randint(0, 9), self.attr())
        if k == 'paint':
            # starts on its own border attribute: paints nothing, but references the point
            return 'PAINT (%d,%d),%d' % (cx, cy, here)
        if k == 'put' and 'J%' in self.sprites:
            rows = self.sprites['J%']
            if cx + len(rows[0]) <= self.W and cy + len(rows) <= self.H:
                return 'PUT (%d,%d),J%%,PSET' % (cx, cy)
        if k == 'get':
            # the cursor is left on the second corner as written
            w, h = rng.randint(1, 6), rng.randint(1, 6)
            ax = cx - w + 1 if rng.random() < 0.5 else cx + w - 1
            ay = cy - h + 1 if rng.random() < 0.5 else cy + h - 1
            if 0 <= ax and 0 <= ay < self.H and min(ax, cx) + w * self.wf <= self.W:
                return 'GET (%d,%d)-(%d,%d),G%%' % (ax, ay, cx, cy)
        return 'PSET (%d,%d),%d' % (cx, cy, here)

    def check_cursor(self, want, after):
        """POINT(0), POINT(1): the graphics cursor is where the statement is documented to leave it."""
        err = self.ex('PX%=POINT(0): PY%=POINT(1)')
        if err:
            return self.problem('POINT(0)', err)
        got = (self.session.get_variable('PX%'), self.session.get_variable('PY%'))
        self.ctx.count('cursor-checked')
        if got != tuple(want):
            self.fail('cursor-after:' + after.split()[0], 'after %s the graphics cursor is at %r, expected %r' % (after, got, tuple(want)),
                      stmt=after)

    def corner_form(self, x0, y0, x1, y1, forms, once=False):
        """Write the corners (x0,y0)-(x1,y1) in one of the coordinate forms; returns (statement that places the cursor,
        text of the corners, name of the form)."""
        rng = self.rng
        form = rng.choice(forms)
        if form in ('abs', 'step2'):
            # the cursor is somewhere else
            cx, cy = self.point()
            first = '(%d,%d)' % (x0, y0)
        elif form in ('step1', 'step12'):
            cx, cy = self.point()
            first = 'STEP(%d,%d)' % (x0 - cx, y0 - cy)
        else:
            cx, cy = x0, y0
            first = ''
        second = 'STEP(%d,%d)' % (x1 - x0, y1 - y0) if form in ('step2', 'step12', 'omit-step') else '(%d,%d)' % (x1, y1)
        pre = self.cursor_mover(cx, cy, once) if (form != 'abs' or rng.random() < 0.5) else None
        self.ctx.count('form:' + form)
        return pre, first + '-' + second, form

    LINE_FORMS = ['abs', 'abs', 'abs', 'step2', 'step2', 'step1', 'step12', 'omit', 'omit-step']

    def step_cursor_misc(self):
        """CIRCLE STEP and PAINT STEP take their offset from the cursor and leave it on the point referenced."""
        rng = self.rng
        cx, cy = self.point()
        if rng.random() < 0.6:
            r = rng.randint(0, 10)
            x = rng.randint(min(2 * r + 1, self.W // 2), max(self.W - 2 * r - 2, self.W // 2))
            y = rng.randint(min(2 * r + 1, self.H // 2), max(self.H - 2 * r - 2, self.H // 2))
            first = rng.choice(['STEP(%d,%d)' % (x - cx, y - cy), '(%d,%d)' % (x, y)])
            text = 'CIRCLE %s,%d,%%d' % (first, r)
            runs = self.draw_twice(text, self.cursor_mover(cx, cy))
            if runs is None:
                return
            self.ctx.count('circle:' + first.split('(')[0])
            self.ctx.case((self.adapter, self.mode, self.seed, len(self.history)))
            cells = runs_cells(runs)
            if not cells:
                self.fail('circle-nothing', '%s drew nothing' % text.replace('%d', 'c', 1), stmt=text)
            else:
                xs, ys = [p[0] for p in cells], [p[1] for p in cells]
                if min(xs) + max(xs) != 2 * x or min(ys) + max(ys) != 2 * y:
                    self.fail('circle-centre', '%s after cursor (%d,%d): the pixels drawn span x %d..%d, y %d..%d, not centred '
                              'on (%d,%d)' % (text, cx, cy, min(xs), max(xs), min(ys), max(ys), x, y), stmt=text)
            self.check_cursor((x, y), text)
        else:
            x, y = self.point()
            first = rng.choice(['STEP(%d,%d)' % (x - cx, y - cy), '(%d,%d)' % (x, y)])
            pre = self.cursor_mover(cx, cy, once=True)
            err = self.ex(pre)
            if err:
                return self.problem(pre, err)
            self.cur = self.snap()
            # on its own border attribute PAINT fills nothing
            st = 'PAINT %s,%d' % (first, self.cur[y][x])
            err = self.ex(st)
            if err:
                return self.problem(st, err)
            self.ctx.count('paint:' + first.split('(')[0])
            self.ctx.case((self.adapter, self.mode, self.seed, len(self.history)))
            self.check_unchanged('paint-on-border-changed-screen', st, stmt=st)
            self.check_cursor((x, y), st)

    def draw_twice(self, text, pre=None):
        """Run `text % attr` with two different attributes; returns (runs of cells written, ok).  Every cell the
        statement writes holds c1 after the first and c2 after the second run, whatever was there before."""
        c1, c2 = self.two_attrs()
        if pre:
            # the statement that places the graphics cursor may draw; it is idempotent (fixed attributes)
            err = self.ex(pre)
            if err:
                self.problem(pre, err)
                return None
            self.cur = self.snap()
        before = self.cur
        err = self.ex(text % c1)
        if err:
            self.problem(text % c1, err)
            return None
        mid = self.snap()
        err = (pre and self.ex(pre)) or self.ex(text % c2)
        if err:
            self.problem(text % c2, err)
            return None
        after = self.snap()
        runs = diff_runs(mid, after)
        stmt = text % c1
        # the first run changed nothing but cells of that set, and set them all to c1
        d = first_diff(paint_runs(before, runs, c1), mid)
        if d is not None:
            self.fail('draw-not-uniform',
                      '%s: cell (%d,%d) is %d after drawing with %d (was %d before); the same statement with attribute '
                      '%d writes a different set' % (stmt, d[0], d[1], d[3], c1, before[d[1]][d[0]], c2), stmt=stmt)
        d = first_diff(paint_runs(mid, runs, c2), after)
        if d is not None:
            self.fail('draw-not-uniform', '%s: cell (%d,%d) is %d after drawing with %d' % (text % c2, d[0], d[1], d[3], c2),
                      stmt=text % c2)
        self.cur = after
        return runs

    def endpoints(self):
        rng = self.rng
        p, q = self.point(), self.point()
        k = rng.random()
        if k < 0.08:
            q = (p[0], q[1])
        elif k < 0.16:
            q = (q[0], p[1])
        elif k < 0.2:
            q = p
        elif k < 0.32:
            d = rng.randint(0, min(self.W, self.H) // rng.choice([1, 4, 16]))
            sx, sy = rng.choice([1, -1]), rng.choice([1, -1])
            q = (p[0] + sx * d, p[1] + sy * d)
            if not (0 <= q[0] < self.W and 0 <= q[1] < self.H):
                q = (p[0], p[1])
        elif k < 0.42:
            # nearly flat
            q = (min(self.W - 1, max(0, p[0] + rng.choice([-1, 1]) * rng.randint(0, 60))),
                 min(self.H - 1, max(0, p[1] + rng.choice([-1, 0, 1, 2]))))
        return p, q

    def step_line(self):
        rng = self.rng
        (x0, y0), (x1, y1) = self.endpoints()
        pre, corners, form = self.corner_form(x0, y0, x1, y1, self.LINE_FORMS)
        text = 'LINE %s,%%d' % corners
        runs = self.draw_twice(text, pre)
        if runs is None:
            return
        if form != 'abs' or rng.random() < 0.3:
            self.check_cursor((x1, y1), text.replace('%d', 'c'))
        cls = slope_class(x0, y0, x1, y1)
        self.ctx.count('line:' + cls)
        self.ctx.case((self.adapter, self.mode, self.seed, len(self.history)))
        self.add_case('prim %d %d line %d %d %d %d' % (self.W, self.H, x0, y0, x1, y1), 'ok ' + runs_text(runs))
        cells = set(runs_cells(runs))
        dx, dy = abs(x1 - x0), abs(y1 - y0)
        n = max(dx, dy) + 1
        stmt = text.replace('%d', 'c')
        kw = {'stmt': stmt, 'endpoints': [x0, y0, x1, y1]}
        if len(cells) != n:
            self.fail('line-count:' + cls, 'LINE (%d,%d)-(%d,%d) set %d pixels, expected max(|dx|,|dy|)+1 = %d'
                      % (x0, y0, x1, y1, len(cells), n), **kw)
        for e in ((x0, y0), (x1, y1)):
            if e not in cells:
                self.fail('line-endpoint:' + cls, 'LINE (%d,%d)-(%d,%d) did not set its endpoint %r' % (x0, y0, x1, y1, e), **kw)
        # an 8-connected path from one endpoint to the other with exactly n cells has one cell per step of the major
        # axis and moves by at most one on the minor axis
        major = 0 if dx >= dy else 1
        order = sorted(cells, key=lambda p: (p[major], p[1 - major]))
        lo = min((x0, x1) if major == 0 else (y0, y1))
        ok = [p[major] for p in order] == list(range(lo, lo + n))
        if ok:
            ok = all(abs(a[1 - major] - b[1 - major]) <= 1 for a, b in zip(order, order[1:]))
        if not ok and len(cells) == n:
            self.fail('line-not-connected:' + cls, 'LINE (%d,%d)-(%d,%d): the %d pixels set do not form an 8-connected path '
                      '(first cells %r)' % (x0, y0, x1, y1, n, order[:6]), **kw)
        # geometry: less than one pixel from the ideal segment along the minor axis
        p0, p1 = ((x0, y0), (x1, y1))
        dM, dm = p1[major] - p0[major], p1[1 - major] - p0[1 - major]
        if dM != 0:
            for c in order:
                if abs((c[1 - major] - p0[1 - major]) * dM - (c[major] - p0[major]) * dm) >= abs(dM):
                    self.fail('line-off-ideal:' + cls, 'LINE (%d,%d)-(%d,%d): pixel %r is a full pixel or more away from '
                              'the segment' % (x0, y0, x1, y1, c), **kw)
                    break

    def step_box(self, filled):
        (x0, y0), (x1, y1) = self.endpoints()
        if filled and (abs(x1 - x0) + 1) * (abs(y1 - y0) + 1) > 30000 and self.rng.random() < 0.8:
            x1 = min(self.W - 1, max(0, x0 + self.rng.randint(-80, 80)))
        pre, corners, form = self.corner_form(x0, y0, x1, y1, self.LINE_FORMS)
        text = 'LINE %s,%%d,%s' % (corners, 'BF' if filled else 'B')
        runs = self.draw_twice(text, pre)
        if runs is None:
            return
        if form != 'abs' or self.rng.random() < 0.3:
            self.check_cursor((x1, y1), text.replace('%d', 'c'))
        name = 'boxf' if filled else 'box'
        order = ('R' if x1 >= x0 else 'L') + ('D' if y1 >= y0 else 'U')
        self.ctx.count('%s:%s' % (name, order))
        self.ctx.case((self.adapter, self.mode, self.seed, len(self.history)))
        self.add_case('prim %d %d %s %d %d %d %d' % (self.W, self.H, name, x0, y0, x1, y1), 'ok ' + runs_text(runs))
        want = rect_runs(x0, y0, x1, y1) if filled else frame_runs(x0, y0, x1, y1)
        if sorted(runs) != sorted(want):
            extra = [r for r in runs if r not in want][:3]
            missing = [r for r in want if r not in runs][:3]
            self.fail('%s-not-exact:%s' % (name, order), '%s wrote runs (y,xa,xb) %r beyond and missed %r of the %s'
                      % (text.replace('%d', 'c'), extra, missing, 'rectangle' if filled else 'rectangle outline'),
                      stmt=text.replace('%d', 'c'))

    def get(self, name, x0, y0, w, h):
        """GET the rectangle with random corner order; returns the rows fetched (as the oracle expects) or None."""
        rng = self.rng
        xs, ys = [x0, x0 + w - 1], [y0, y0 + h - 1]
        if rng.random() < 0.3:
            xs.reverse()
        if rng.random() < 0.3:
            ys.reverse()
        pre, corners, form = self.corner_form(xs[0], ys[0], xs[1], ys[1], ['abs', 'abs', 'step2'], once=True)
        if pre:
            err = self.ex(pre)
            if err:
                self.problem(pre, err)
                return None
            self.cur = self.snap()
        st = 'GET %s,%s' % (corners, name)
        err = self.ex(st)
        if err:
            self.problem(st, err)
            return None
        if not self.check_unchanged('get-changed-screen', st, stmt=st):
            return None
        if form != 'abs' or rng.random() < 0.3:
            self.check_cursor((xs[1], ys[1]), st)
        rows = region(self.cur, x0, y0, w * self.wf, h)
        self.sprites[name] = rows
        # header: width*bpp (packed) or width (planed; Tandy SCREEN 6: the requested width), height
        arr = self.session.get_variable(name + '()')
        first = struct.pack('<hh', arr[0], arr[1])
        want = struct.pack('<HH', w * self.bpp if self.kind == 'packed' else w, h)
        if first != want:
            self.fail('get-header', '%s stored header %r, expected %r' % (st, list(first), list(want)), stmt=st)
        # correspondence: the whole packed record
        if self.kind == 'packed':
            n = 4 + (w * self.bpp + 7) // 8 * h
        else:
            n = 4 + (w * self.wf + 7) // 8 * h * self.bpp
        data = b''.join(struct.pack('<h', v) for v in arr[:(n + 1) // 2])[:n]
        self.add_case('pack %s %d %d %d %s' % (self.kind, self.bpp, w * self.wf, h, hexrows(rows)), 'ok ' + data.hex())
        self.ctx.count('get:w%%8=%d' % (w % 8))
        return rows

    def step_get_put_same(self):
        x0, y0, w, h = self.sprite_rect()
        name = self.rng.choice(['A%', 'B%'])
        if self.get(name, x0, y0, w, h) is None:
            return
        st = 'PUT (%d,%d),%s,PSET' % (x0, y0, name)
        err = self.ex(st)
        if err:
            return self.problem(st, err)
        self.ctx.count('get-put-same')
        self.ctx.case((self.adapter, self.mode, self.seed, len(self.history)))
        self.check_unchanged('get-put-pset-not-identity', 'GET then ' + st, stmt=st, rect=[x0, y0, w, h])

    def put_expected(self, rows, x0, y0, op):
        """Page after PUT of the sprite rows at (x0, y0), cell by cell from the meaning of the operation."""
        m = self.nattr - 1
        block = []
        for j, srow in enumerate(rows):
            prow = self.cur[y0 + j][x0:x0 + len(srow)]
            if op == 'PSET':
                r = srow
            elif op == 'PRESET':
                r = bytes(s ^ m for s in srow)
            elif op == 'AND':
                r = bytes(p & s for p, s in zip(prow, srow))
            elif op == 'OR':
                r = bytes(p | s for p, s in zip(prow, srow))
            else:
                r = bytes(p ^ s for p, s in zip(prow, srow))
            block.append(r)
        return paste(self.cur, x0, y0, block)

    def step_put_op(self):
        """PUT a sprite fetched earlier (possibly many steps ago) somewhere else with any operation."""
        rng = self.rng
        if not self.sprites or rng.random() < 0.4:
            x0, y0, w, h = self.sprite_rect()
            name = rng.choice(['A%', 'B%'])
            if self.get(name, x0, y0, w, h) is None:
                return
        name = rng.choice(sorted(self.sprites))
        rows = self.sprites[name]
        w, h = len(rows[0]), len(rows)
        px, py = self.place(self.W - w), self.place(self.H - h)
        op = rng.choice(OPS + [''])
        st = 'PUT (%d,%d),%s%s' % (px, py, name, ',' + op if op else '')
        before = region(self.cur, px, py, w, h)
        expected = self.put_expected(rows, px, py, op or 'XOR')
        err = self.ex(st)
        if err:
            return self.problem(st, err)
        self.ctx.count('put:' + (op or 'default'))
        self.ctx.case((self.adapter, self.mode, self.seed, len(self.history)))
        self.expect_page('put-%s-wrong' % (op or 'XOR').lower(), expected, st, stmt=st, sprite=[w, h])
        if rng.random() < 0.3:
            self.check_cursor((px, py), st)
        self.add_case('putop %s %d %s %s' % ((op or 'XOR').lower(), self.bpp, hexrows(before), hexrows(rows)),
                      'ok ' + hexrows(region(self.cur, px, py, w, h)))

    def step_xor_twice(self):
        rng = self.rng
        if rng.random() < 0.5 and 'J%' in self.sprites:
            name = 'J%'
        else:
            if not self.sprites or rng.random() < 0.3:
                x0, y0, w, h = self.sprite_rect()
                if self.get(rng.choice(['A%', 'B%']), x0, y0, w, h) is None:
                    return
            name = rng.choice(sorted(self.sprites))
        rows = self.sprites[name]
        w, h = len(rows[0]), len(rows)
        px, py = self.place(self.W - w), self.place(self.H - h)
        st = 'PUT (%d,%d),%s%s' % (px, py, name, rng.choice(['', ',XOR']))
        start = self.cur
        expected = self.put_expected(rows, px, py, 'XOR')
        err = self.ex(st)
        if err:
            return self.problem(st, err)
        self.expect_page('put-xor-wrong', expected, st, stmt=st, sprite=[w, h])
        err = self.ex(st)
        if err:
            return self.problem(st, err)
        self.ctx.count('xor-twice')
        self.ctx.case((self.adapter, self.mode, self.seed, len(self.history)))
        self.expect_page('xor-twice-not-identity', start, st + ' twice', stmt=st, sprite=[w, h])

    def step_restore(self):
        """GET a rectangle, draw over it, PUT ,PSET restores exactly the rectangle."""
        rng = self.rng
        x0, y0, w, h = self.sprite_rect()
        name = rng.choice(['A%', 'B%'])
        rows = self.get(name, x0, y0, w, h)
        if rows is None:
            return
        for _ in range(rng.randint(1, 3)):
            p = (min(self.W - 1, x0 + rng.randint(0, w * self.wf)), min(self.H - 1, y0 + rng.randint(0, h)))
            q = self.point()
            st = 'LINE (%d,%d)-(%d,%d),%d%s' % (p + q + (self.attr(), rng.choice(['', ',B', ',BF']) if rng.random() < 0.5 else ''))
            err = self.ex(st)
            if err:
                return self.problem(st, err)
        self.cur = self.snap()
        expected = paste(self.cur, x0, y0, rows)
        st = 'PUT (%d,%d),%s,PSET' % (x0, y0, name)
        err = self.ex(st)
        if err:
            return self.problem(st, err)
        self.ctx.count('get-draw-put')
        self.ctx.case((self.adapter, self.mode, self.seed, len(self.history)))
        self.expect_page('put-pset-not-restoring', expected, 'GET, draw, ' + st, stmt=st, rect=[x0, y0, w, h])

    def step_junk_put(self):
        """PUT ,PSET of an array of random bytes: correspondence of unpack; the oracle learns the sprite from the
        screen and then checks that GET returns the same pixels (unpack;pack;unpack)."""
        rng = self.rng
        data, w, h = self.junk_array()
        ints = list(struct.unpack('<%dh' % (len(data) // 2), data))
        self.session.set_variable('J%()', ints + [0] * 4)
        self.history.append('J%%() = %s' % data.hex())
        px, py = self.place(self.W - w), self.place(self.H - h)
        st = 'PUT (%d,%d),J%%,PSET' % (px, py)
        before = self.cur
        err = self.ex(st)
        if err:
            return self.problem(st, err)
        now = self.snap()
        self.ctx.count('put-random-array')
        self.ctx.case((self.adapter, self.mode, self.seed, len(self.history)))
        for (yy, a, b) in diff_runs(before, now):
            if not (py <= yy < py + h and px <= a and b < px + w):
                self.fail('put-outside-sprite', '%s (sprite %dx%d) changed cells x=%d..%d of row %d' % (st, w, h, a, b, yy),
                          stmt=st, array=data.hex())
                break
        self.cur = now
        rows = region(now, px, py, w, h)
        if any(c >= self.nattr for r in rows for c in r):
            self.fail('put-attribute-range', '%s wrote an attribute >= %d' % (st, self.nattr), stmt=st, array=data.hex())
        self.sprites['J%'] = rows
        self.add_case('unpack %s %d %s' % (self.kind, self.bpp, data.hex()), 'ok %d %d %s' % (w, h, hexrows(rows)))

    # --- array-state histories: PUT paints what the array holds NOW

    def arr_bytes(self, name):
        return b''.join(struct.pack('<h', v) for v in self.session.get_variable(name + '()'))

    def ex_may_fail(self, text):
        """Execute a statement that may be refused; returns (refused, problem).  An error message is printed on the
        graphics screen, so the page is re-read afterwards."""
        self.history.append(text)
        try:
            out = self.session.execute(text.encode('latin-1'))
        except Exception as e:
            self.cur = self.snap()
            return True, 'host exception %s: %s' % (type(e).__name__, e)
        if out.strip():
            self.cur = self.snap()
            return True, (None if b'Illegal function call' in out else 'output %r' % out.strip()[:60])
        return False, None

    def small_size(self):
        rng = self.rng
        w = rng.choice([1, 2, 3, 4, 5, 7, 8, 9, 12, 16, 17, rng.randint(1, 24)])
        h = rng.choice([1, 2, 3, 4, rng.randint(1, 10)])
        return w, h

    def ah_dim(self, name, nbytes):
        n = max(1, (nbytes + 1) // 2 - 1)
        st = ('ERASE %s: ' % name if name in self.dimmed else '') + 'DIM %s(%d)' % (name, n)
        err = self.ex(st)
        if err:
            self.problem(st, err)
            return False
        self.dimmed[name] = 2 * (n + 1)
        self.ctx.count('array:' + ('erase+dim' if st.startswith('ERASE') else 'dim'))
        return True

    def ah_get_ok(self, name, w, h):
        """A GET that fits the array; the record must encode the rectangle fetched."""
        x0, y0 = self.place(self.W - w * self.wf), self.place(self.H - h)
        st = 'GET (%d,%d)-(%d,%d),%s' % (x0, y0, x0 + w - 1, y0 + h - 1, name)
        err = self.ex(st)
        if err:
            self.problem(st, err)
            return None
        if not self.check_unchanged('get-changed-screen', st, stmt=st):
            return None
        rows = region(self.cur, x0, y0, w * self.wf, h)
        pic = decode(self.kind, self.bpp, self.arr_bytes(name))
        self.ctx.count('array:get')
        if pic != rows:
            self.fail('get-record-wrong', '%s: the record in the array does not encode the rectangle fetched' % st, stmt=st)
        return x0, y0

    def ah_disturb(self, name, other, w, h):
        """Something between GET and PUT that must not change what PUT paints beyond what it does to the array."""
        rng = self.rng
        cap = self.dimmed[name]
        kind = rng.choice(['get-too-small', 'get-too-small', 'get-off-screen', 'assign', 'assign-header', 'copy', 'api',
                           'erase-dim', 'none'])
        self.ctx.count('array:' + kind)
        if kind == 'get-too-small':
            # a larger rectangle, on the screen, whose record does not fit the array
            for _ in range(20):
                w2, h2 = w + rng.randint(0, 24), h + rng.randint(0, 20)
                w2, h2 = min(w2, self.W // self.wf), min(h2, self.H)
                if record_size(self.kind, self.bpp, w2 * self.wf, h2) > cap:
                    break
            else:
                return
            x0, y0 = self.place(self.W - w2 * self.wf), self.place(self.H - h2)
            refused, prob = self.ex_may_fail('GET (%d,%d)-(%d,%d),%s' % (x0, y0, x0 + w2 - 1, y0 + h2 - 1, name))
            self.ctx.count('array:get-too-small:' + ('refused' if refused else 'accepted'))
        elif kind == 'get-off-screen':
            x0, y0 = rng.choice([(self.W - 1, 0), (-2, 3), (5, self.H - 1), (self.W - w * self.wf + 1, 0), (3, -1)])
            refused, prob = self.ex_may_fail('GET (%d,%d)-(%d,%d),%s' % (x0, y0, x0 + w - 1, y0 + h - 1, name))
            self.ctx.count('array:get-off-screen:' + ('refused' if refused else 'accepted'))
        elif kind == 'assign':
            # overwrite data words
            n = cap // 2
            for _ in range(rng.randint(1, 3)):
                if n > 2:
                    refused, prob = self.ex_may_fail('%s(%d)=%d' % (name, rng.randrange(2, n),
                                                                    rng.choice([0, -1, 0x5555, -21846, rng.randint(-32768, 32767)])))
        elif kind == 'assign-header':
            # a smaller picture out of the same bytes
            data = self.arr_bytes(name)
            a, hh = struct.unpack('<HH', data[:4])
            if rng.random() < 0.5 and hh > 1:
                refused, prob = self.ex_may_fail('%s(1)=%d' % (name, rng.randint(1, hh - 1)))
            elif a > 1:
                unit = self.bpp if self.kind == 'packed' else 1
                k = rng.randint(1, max(1, a // unit - 1))
                refused, prob = self.ex_may_fail('%s(0)=%d' % (name, k * unit))
        elif kind == 'copy':
            if other in self.dimmed:
                n = min(cap, self.dimmed[other]) // 2
                refused, prob = self.ex_may_fail('FOR I%%=0 TO %d: %s(I%%)=%s(I%%): NEXT' % (n - 1, name, other))
        elif kind == 'api':
            w2, h2 = self.small_size()
            for _ in range(20):
                if record_size(self.kind, self.bpp, w2 * self.wf, h2) <= cap:
                    break
                w2, h2 = max(1, w2 - 1), max(1, h2 - 1)
            else:
                return
            a = w2 * self.bpp if self.kind == 'packed' else w2
            data = struct.pack('<HH', a, h2) + bytes(rng.randrange(256) for _ in range(cap - 4))
            self.session.set_variable(name + '()', list(struct.unpack('<%dh' % (cap // 2), data)))
            self.history.append('%s() = %s' % (name, data.hex()))
        elif kind == 'erase-dim':
            self.ah_dim(name, cap + rng.choice([0, 0, 2, 6]))

    def ah_put(self, name, verb, home):
        """PUT must paint exactly the picture the array's current bytes encode."""
        rng = self.rng
        data = self.arr_bytes(name)
        pic = decode(self.kind, self.bpp, data)
        if pic is None:
            self.ctx.count('array:put-skipped-short-array')
            return
        self.ctx.case((self.adapter, self.mode, self.seed, len(self.history)))
        if not pic:
            # nothing to paint
            st = 'PUT (%d,%d),%s%s' % (rng.randint(1, self.W - 1), rng.randint(1, self.H - 1), name, ',' + verb if verb else '')
            refused, prob = self.ex_may_fail(st)
            self.ctx.count('array:put-empty')
            if not refused:
                self.expect_page('put-stale-picture', self.cur, '%s of an array holding a zero-size record' % st, stmt=st,
                                 array=data.hex())
            elif prob:
                self.fail('statement-rejected:PUT', '%s -> %s' % (st, prob), stmt=st)
            return
        w, h = len(pic[0]), len(pic)
        if w > self.W or h > self.H:
            return
        if home is not None and rng.random() < 0.5 and home[0] + w <= self.W and home[1] + h <= self.H:
            px, py = home
        else:
            px, py = self.place(self.W - w), self.place(self.H - h)
        st = 'PUT (%d,%d),%s%s' % (px, py, name, ',' + verb if verb else '')
        expected = self.put_expected(pic, px, py, verb or 'XOR')
        err = self.ex(st)
        if err:
            return self.problem(st, err)
        self.ctx.count('array:put:' + (verb or 'default'))
        ok = self.expect_page('put-not-current-array', expected, '%s does not paint the %dx%d picture the array holds now'
                              % (st, w, h), stmt=st, array=data.hex())
        if ok and verb == 'PSET':
            self.add_case('unpack %s %d %s' % (self.kind, self.bpp, data.hex()),
                          'ok %d %d %s' % (w, h, hexrows(region(self.cur, px, py, w, h))))

    def array_history(self):
        """GET / PUT on two small arrays with refused GETs, assignments, copies, API writes and ERASE+DIM between."""
        rng = self.rng
        names = ['S%', 'T%']
        rng.shuffle(names)
        verbs = OPS + ['']
        rng.shuffle(verbs)
        # the other array holds a picture of its own
        w2, h2 = self.small_size()
        w2 = min(w2, self.W // self.wf)
        if self.ah_dim(names[1], record_size(self.kind, self.bpp, w2 * self.wf, h2)):
            self.ah_get_ok(names[1], w2, h2)
        for rnd in range(3):
            name, other = names[0], names[1]
            w, h = self.small_size()
            w = min(w, self.W // self.wf)
            if not self.ah_dim(name, record_size(self.kind, self.bpp, w * self.wf, h) + rng.choice([0, 0, 1, 4])):
                return
            home = self.ah_get_ok(name, w, h)
            if home is None:
                return
            for k in range(2):
                if name not in self.dimmed:
                    return
                self.ah_disturb(name, other, w, h)
                self.ah_put(name, 'PSET' if (rnd + k) % 2 == 0 else verbs[(2 * rnd + k) % len(verbs)], home)
            if rng.random() < 0.5:
                names.reverse()

    def add_case(self, line, out):
        cases, outs, lines = self.collect
        cases.append({'adapter': self.adapter, 'mode': self.mode, 'seed': self.seed, 'step': len(self.history),
                      'stmt': self.history[-1] if self.history else ''})
        outs.append(out)
        lines.append(line)

    # --- driver

    def run(self):
        rng = self.rng
        if self.dead:
            return
        self.background()
        nfail0 = len(self.ctx.failures)
        if self.hists:
            self.array_history()
        table = [(self.step_pset, 14), (self.step_point, 4), (self.step_line, 28), (lambda: self.step_box(False), 10),
                 (lambda: self.step_box(True), 8), (self.step_get_put_same, 10), (self.step_put_op, 12),
                 (self.step_xor_twice, 6), (self.step_restore, 4), (self.step_junk_put, 4), (self.step_cursor_misc, 5)]
        fns = [f for f, wgt in table for _ in range(wgt)]
        nfail = len(self.ctx.failures)
        for i in range(self.steps):
            rng.choice(fns)()
            if len(self.ctx.failures) > nfail + 8:
                break       # enough evidence from this episode
        for _ in range(self.hists - 1):
            if len(self.ctx.failures) > nfail0 + 16:
                break
            self.array_history()
        # the fast path of snap() shows what the public API shows
        pub = self.snap(public=True)
        if first_diff(pub, self.cur) is not None or len(pub) != len(self.cur):
            self.fail('get-pixels-differs', 'Session.get_pixels() differs from the rows of the visible page')


def run_episode(ctx, adapter, mode, seed, steps, collect, hists=1):
    ep = Episode(ctx, adapter, mode, seed, steps, collect, hists)
    try:
        ep.run()
    finally:
        ep.close()
    return ep


def run(ctx):
    quick = ctx.quick
    configs = QUICK if quick else ALL
    episodes, steps, hists = (2, 45, 1) if quick else (6, 120, 4)
    for (adapter, mode) in configs:
        collect = ([], [], [])
        for e in range(episodes):
            seed = ctx.rng.getrandbits(40)
            ep = run_episode(ctx, adapter, mode, seed, steps, collect, hists)
            if e == 0:
                ctx.sample({'config': '%s SCREEN %d' % (adapter, mode), 'history': ep.history[-8:]})
        ctx.count('config:%s/%d' % (adapter, mode))
        ctx.compare(collect[0], collect[1], collect[2], label='%s SCREEN %d' % (adapter, mode))
        ctx.log('%s SCREEN %d done' % (adapter, mode))
    ctx.notes['modes_covered'] = ['%s/%d' % c for c in configs]


def replay(ctx, payload):
    """Re-run the recorded episode (adapter, mode, seed, steps) in a fresh session and apply the oracle."""
    case = payload.get('case', {})
    sub = Sub(ctx)
    key = payload.get('key')
    if 'adapter' in case and 'seed' in case:
        collect = ([], [], [])
        run_episode(sub, case['adapter'], case['mode'], case['seed'], case.get('steps', 45), collect, case.get('hists', 1))
    else:
        sub.rng = random.Random(payload.get('seed', 0))
        run(sub)
    hits = [f for f in sub.failures if f['key'] == key] or sub.failures
    return hits[0]['what'] if hits else None


class Sub(object):
    """thin proxy so that replay reuses the check code without touching the outer evidence"""

    def __init__(self, ctx):
        self.__dict__.update(ctx.__dict__)
        self._ctx = ctx
        self.failures = []
        self.disagreements = []
        self.notes = {}

    def __getattr__(self, name):
        return getattr(self._ctx.__class__, name).__get__(self)
