import PcbV.Lemmas.VideoWalk
import PcbV.Lemmas.VideoT6
import PcbV.Gen.Translated
import PcbV.Lemmas.PyIntLemmas
/-
  C34 — video memory reflects and controls the screen content.

  Subject: `PcbV.VideoMem` (transcription of display/framebuffer.py after pending fix
  C34-video-memory-walk; the `old…` functions transcribe the code before it) over the mode table
  `PcbV.Gen.Modes.table` regenerated from the current source.  `np` (number of pages), addresses,
  lengths, screen contents and plane registers are universally quantified.

  No mode of the table is excluded any more: the statements that used to exclude the Tandy-6 mapper
  (SCREEN 6 of Tandy/PCjr; two colour planes walked with factor 2 and recombined into an interleaved byte
  array) are proved for it too (`PcbV.Lemmas.VideoT6`); the `_partial` theorems are kept as corollaries of
  the full-strength theorems of the same name without the suffix.
-/
namespace PcbV.C34
open PcbV PcbV.VideoMem PcbV.Gen.Modes

/-- every record of the regenerated mode table is well-formed (strides, bank/page sizes, pixel packing) -/
theorem table_wf : ∀ m ∈ table, wfMode m = true := by decide

/-- The block walk covers exactly the units `i < n` whose address maps to valid coordinates, in order,
    and gives each the coordinates `_get_coords` gives its address (units = bytes; byte pairs of one
    colour plane for Tandy-6). -/
theorem walk_is_bytewise (m : Mode) (hm : m ∈ table) (hg : isGraphics m = true) (np addr n : Nat) :
    unitsOf (ppuOf m) (walk m np addr n (factorOf m)) =
      (List.range n).filterMap fun i =>
        if coordOk m np (getCoords m (addr + i * factorOf m)) then some (i, getCoords m (addr + i * factorOf m))
        else none :=
  walk_units m (table_wf m hm) hg np addr n

/-- every run of the walk is non-empty and lies inside one scan line (so no Python slice is ever clamped) -/
theorem run_in_row (m : Mode) (hm : m ∈ table) (hg : isGraphics m = true) (np addr n : Nat) (r : Run)
    (hr : r ∈ walk m np addr n (factorOf m)) : 0 < r.len ∧ r.x + r.len * ppuOf m ≤ m.width :=
  run_in_row_lemma m (table_wf m hm) hg np addr n r hr

/-- the table only holds text, CGA-packed, EGA-planar and Tandy-6 mappers -/
theorem kind_cases (m : Mode) (hm : m ∈ table) : m.kind = 0 ∨ m.kind = 1 ∨ m.kind = 2 ∨ m.kind = 3 := by
  have : ∀ m ∈ table, m.kind = 0 ∨ m.kind = 1 ∨ m.kind = 2 ∨ m.kind = 3 := by decide
  exact this m hm

/-- BSAVE-style block read = reading the bytes one at a time; every text, CGA-packed and EGA-planar mode.
    (Superseded by `block_read_eq_bytewise`, which also covers Tandy-6.) -/
theorem block_read_eq_bytewise_partial (m : Mode) (hm : m ∈ table) (hk : m.kind ≠ 3) (np : Nat) (s : St)
    (addr n : Nat) : getMemory m np s addr n = bytewiseGet m np s addr n := by
  rcases kind_cases m hm with h | h | h | h
  · exact block_read_text m h np s addr n
  · exact block_read_cga m (table_wf m hm) h np s addr n
  · exact block_read_ega m (table_wf m hm) h np s addr n
  · exact absurd h hk

/-- BLOAD-style block write = writing the bytes one at a time (same final screen and registers).
    (Superseded by `block_write_eq_bytewise`, which also covers Tandy-6.) -/
theorem block_write_eq_bytewise_partial (m : Mode) (hm : m ∈ table) (hk : m.kind ≠ 3) (np : Nat) (s : St)
    (addr : Nat) (bytes : List Nat) : setMemory m np s addr bytes = bytewiseSet m np s addr bytes := by
  rcases kind_cases m hm with h | h | h | h
  · exact block_write_text m h np s addr bytes
  · exact block_write_cga m (table_wf m hm) h np s addr bytes
  · exact block_write_ega m (table_wf m hm) h np s addr bytes
  · exact absurd h hk

/-! ### PEEK returns the encoding of what the byte covers -/

/-- packing then unpacking a byte's worth of pixels gives the pixels (masked to the mode's bits per pixel) -/
theorem unpack_pack_roundtrip (bpp ppb : Nat) (h : bpp * ppb = 8) (g : Nat → Nat) (t : Nat) (ht : t < ppb) :
    unpackPix bpp ppb (packByte bpp ppb g) t = g t % 2 ^ bpp := unpack_pack bpp ppb h g t ht

/-- unpacking then packing a byte gives the byte -/
theorem pack_unpack_roundtrip (bpp ppb : Nat) (h : bpp * ppb = 8) (v : Nat) (hv : v < 256) :
    packByte bpp ppb (unpackPix bpp ppb v) = v := pack_unpack bpp ppb h v hv

/-- CGA-packed modes: field t of PEEK(a) is the attribute of pixel (x+t, y) of the page of `_get_coords a` -/
theorem peek_encodes_pixels_cga (m : Mode) (hm : m ∈ table) (hk : m.kind = 1) (np : Nat) (s : St) (a t : Nat)
    (hok : coordOk m np (getCoords m a) = true) (ht : t < m.ppb) :
    unpackPix m.bpp m.ppb (peek m np s a) t =
      s.pix (getCoords m a).page (getCoords m a).y ((getCoords m a).x + t) % 2 ^ m.bpp := by
  rw [peek_cga m (table_wf m hm) hk, if_pos hok]
  exact unpack_pack m.bpp m.ppb (wf_kind1 m (table_wf m hm) hk).1 _ t ht

/-- EGA planar modes: bit t of PEEK(a) is bit `plane` of pixel (x+t, y), when the selected plane is in use -/
theorem peek_encodes_pixels_ega (m : Mode) (hm : m ∈ table) (hk : m.kind = 2) (np : Nat) (s : St) (a t : Nat)
    (hok : coordOk m np (getCoords m a) = true) (hused : planeUsed m (egaPlane m s) = true) (ht : t < 8) :
    unpackPix 1 8 (peek m np s a) t =
      s.pix (getCoords m a).page (getCoords m a).y ((getCoords m a).x + t) / 2 ^ egaPlane m s % 2 := by
  rw [peek_ega m (table_wf m hm) hk, if_pos ⟨hused, hok⟩]
  exact unpack_pack 1 8 (by decide) _ t ht

/-- text modes: PEEK(a) is the character (even x) or attribute (odd x) byte of the cell -/
theorem peek_encodes_text (m : Mode) (hk : m.kind = 0) (np : Nat) (s : St) (a : Nat)
    (hok : coordOk m np (getCoords m a) = true) :
    peek m np s a = s.pix (getCoords m a).page (getCoords m a).y (getCoords m a).x := by
  rw [peek_text m hk, if_pos hok]

/-- a byte that backs no screen content reads as 0 (all but Tandy-6; superseded by `peek_unmapped`) -/
theorem peek_unmapped_partial (m : Mode) (hm : m ∈ table) (hk : m.kind ≠ 3) (np : Nat) (s : St) (a : Nat)
    (hok : coordOk m np (getCoords m a) = false) : peek m np s a = 0 := by
  rcases kind_cases m hm with h | h | h | h
  · rw [peek_text m h]; simp [hok]
  · rw [peek_cga m (table_wf m hm) h]; simp [hok]
  · rw [peek_ega m (table_wf m hm) h]; simp [hok]
  · exact absurd h hk

/-! ### POKE then PEEK -/

theorem poke_then_peek_packed (m : Mode) (hm : m ∈ table) (hk : m.kind = 1) (np : Nat) (s : St) (a v : Nat)
    (hv : v < 256) (hok : coordOk m np (getCoords m a) = true) :
    peek m np (poke m np s a v) a = v := poke_then_peek_cga m (table_wf m hm) hk np s a v hv hok

/-- planar modes: on a plane that the mode uses and that the write mask enables -/
theorem poke_then_peek_planar (m : Mode) (hm : m ∈ table) (hk : m.kind = 2) (np : Nat) (s : St) (a v : Nat)
    (hv : v < 256) (hok : coordOk m np (getCoords m a) = true)
    (hused : planeUsed m (egaPlane m s) = true)
    (hwr : (s.mask &&& m.masterMask).testBit (egaPlane m s) = true) :
    peek m np (poke m np s a v) a = v := poke_then_peek_ega m (table_wf m hm) hk np s a v hv hok hused hwr

theorem poke_then_peek_textmode (m : Mode) (hk : m.kind = 0) (np : Nat) (s : St) (a v : Nat)
    (hok : coordOk m np (getCoords m a) = true) :
    peek m np (poke m np s a v) a = v := poke_then_peek_text m hk np s a v hok

/-! ### POKE changes exactly the covered content -/

/-- number of pixels (text: bytes of the character/attribute grid) one byte of video memory covers -/
def coverWidth (m : Mode) : Nat := if m.kind = 0 then 1 else ppuOf m

/-- A POKE leaves every pixel / text byte outside the group the address covers unchanged, and leaves the
    whole screen unchanged when the address backs nothing (all but Tandy-6; superseded by
    `poke_changes_only_covered`). -/
theorem poke_changes_only_covered_partial (m : Mode) (hm : m ∈ table) (hk : m.kind ≠ 3) (np : Nat) (s : St)
    (a v : Nat) (p : Int) (y x : Nat)
    (hout : coordOk m np (getCoords m a) = false ∨
      ¬ (p = (getCoords m a).page ∧ y = (getCoords m a).y ∧ (getCoords m a).x ≤ x ∧
          x < (getCoords m a).x + coverWidth m)) :
    (poke m np s a v).pix p y x = s.pix p y x := by
  rcases kind_cases m hm with h | h | h | h
  · rw [poke_text m h]
    simp only
    split
    · next hok =>
      rcases hout with ho | ho
      · rw [hok] at ho; cases ho
      · unfold setPix
        rw [if_neg]
        intro hh
        apply ho
        simp only [coverWidth, h, if_true]
        exact ⟨hh.1, hh.2.1, by omega, by omega⟩
    · rfl
  · rw [poke_cga m (table_wf m hm) h]
    simp only
    split
    · next hok =>
      rcases hout with ho | ho
      · rw [hok] at ho; cases ho
      · unfold writeCGA
        apply setGroup_out
        intro hh
        apply ho
        have : coverWidth m = m.ppb := by simp [coverWidth, ppuOf, h]
        rw [this]
        exact ⟨hh.1, hh.2.1, hh.2.2.1, hh.2.2.2⟩
    · rfl
  · rw [poke_ega m (table_wf m hm) h]
    simp only
    split
    · rfl
    · split
      · next hok =>
        rcases hout with ho | ho
        · rw [hok] at ho; cases ho
        · unfold writeMask
          apply setGroup_out
          intro hh
          apply ho
          have : coverWidth m = 8 := by simp [coverWidth, ppuOf, h]
          rw [this]
          exact ⟨hh.1, hh.2.1, hh.2.2.1, hh.2.2.2⟩
      · rfl
  · exact absurd h hk

/-! ### full-strength versions (every mode of the table, Tandy-6 included) -/

/-- BSAVE-style block read = reading the bytes one at a time, in every mode of the table -/
theorem block_read_eq_bytewise (m : Mode) (hm : m ∈ table) (np : Nat) (s : St) (addr n : Nat) :
    getMemory m np s addr n = bytewiseGet m np s addr n := by
  rcases kind_cases m hm with h | h | h | h
  · exact block_read_text m h np s addr n
  · exact block_read_cga m (table_wf m hm) h np s addr n
  · exact block_read_ega m (table_wf m hm) h np s addr n
  · exact block_read_t6 m (table_wf m hm) h np s addr n

/-- BLOAD-style block write = writing the bytes one at a time, in every mode of the table -/
theorem block_write_eq_bytewise (m : Mode) (hm : m ∈ table) (np : Nat) (s : St) (addr : Nat) (bytes : List Nat) :
    setMemory m np s addr bytes = bytewiseSet m np s addr bytes := by
  rcases kind_cases m hm with h | h | h | h
  · exact block_write_text m h np s addr bytes
  · exact block_write_cga m (table_wf m hm) h np s addr bytes
  · exact block_write_ega m (table_wf m hm) h np s addr bytes
  · exact block_write_t6 m (table_wf m hm) h np s addr bytes

/-- a byte that backs no screen content reads as 0, in every mode of the table -/
theorem peek_unmapped (m : Mode) (hm : m ∈ table) (np : Nat) (s : St) (a : Nat)
    (hok : coordOk m np (getCoords m a) = false) : peek m np s a = 0 := by
  rcases kind_cases m hm with h | h | h | h
  · rw [peek_text m h]; simp [hok]
  · rw [peek_cga m (table_wf m hm) h]; simp [hok]
  · rw [peek_ega m (table_wf m hm) h]; simp [hok]
  · rw [peek_t6 m (table_wf m hm) h]; simp [t6Byte, hok]

/-- A POKE leaves everything outside the group the address covers unchanged, and the whole screen unchanged
    when the address backs nothing — every mode of the table. -/
theorem poke_changes_only_covered (m : Mode) (hm : m ∈ table) (np : Nat) (s : St)
    (a v : Nat) (p : Int) (y x : Nat)
    (hout : coordOk m np (getCoords m a) = false ∨
      ¬ (p = (getCoords m a).page ∧ y = (getCoords m a).y ∧ (getCoords m a).x ≤ x ∧
          x < (getCoords m a).x + coverWidth m)) :
    (poke m np s a v).pix p y x = s.pix p y x := by
  by_cases hk : m.kind = 3
  · rw [poke_t6 m (table_wf m hm) hk]
    simp only
    split
    · next hok =>
      rcases hout with ho | ho
      · rw [hok] at ho; cases ho
      · unfold writeT6
        apply setGroup_out
        intro hh
        apply ho
        have : coverWidth m = 8 := by simp [coverWidth, ppuOf, hk]
        rw [this]
        exact hh
    · rfl
  · exact poke_changes_only_covered_partial m hm hk np s a v p y x hout

/-- Tandy-6: bit t of PEEK(a) is bit (a mod 2) of the attribute of pixel (x+t, y): even addresses hold
    plane 0, odd addresses plane 1 -/
theorem peek_encodes_pixels_tandy6 (m : Mode) (hm : m ∈ table) (hk : m.kind = 3) (np : Nat) (s : St) (a t : Nat)
    (hok : coordOk m np (getCoords m a) = true) (ht : t < 8) :
    unpackPix 1 8 (peek m np s a) t =
      s.pix (getCoords m a).page (getCoords m a).y ((getCoords m a).x + t) / 2 ^ (a % 2) % 2 := by
  rw [peek_t6 m (table_wf m hm) hk]
  unfold t6Byte
  rw [if_pos hok]
  exact unpack_pack 1 8 (by decide) _ t ht

/-- Tandy-6: the even byte and the following odd byte cover the same 8 pixels (so, with the previous
    theorem, the byte pair is exactly the two low attribute bits of those pixels) -/
theorem tandy6_pair_same_pixels (m : Mode) (hm : m ∈ table) (hk : m.kind = 3) (a : Nat) (ha : a % 2 = 0) :
    getCoords m (a + 1) = getCoords m a := t6_pair_coords m (table_wf m hm) hk a ha

theorem poke_then_peek_tandy6 (m : Mode) (hm : m ∈ table) (hk : m.kind = 3) (np : Nat) (s : St) (a v : Nat)
    (hv : v < 256) (hok : coordOk m np (getCoords m a) = true) :
    peek m np (poke m np s a v) a = v := poke_then_peek_t6 m (table_wf m hm) hk np s a v hv hok

/-- Tandy-6: a POKE to one byte of a pair does not change what the other byte of the pair reads -/
theorem tandy6_planes_independent (m : Mode) (hm : m ∈ table) (hk : m.kind = 3) (np : Nat) (s : St)
    (a a' v : Nat) (hc : getCoords m a' = getCoords m a) (hpar : a' % 2 ≠ a % 2) :
    peek m np (poke m np s a v) a' = peek m np s a' :=
  t6_planes_independent m (table_wf m hm) hk np s a a' v hc hpar


/-! ### mode switches: video memory is accessed through the mapper of the CURRENT mode object

  (`Machine`, `switchMode` in the model.)  The registers of the EGA mapper live in the mode object; a
  switch to a mode with another name installs a fresh one, a SCREEN statement naming the current mode
  keeps it. -/

/-- `SCREEN n` (with or without page arguments) naming the current mode keeps screen and registers -/
theorem switch_same_name_keeps (mc : Machine) (m : Mode) (np : Nat) (h : m.name = mc.mode.name) :
    switchMode mc m np = mc := by
  unfold switchMode; rw [if_pos h]

/-- a switch to a mode with another name: fresh registers (read plane 0, all planes writable), erased pages -/
theorem switch_other_name_resets (mc : Machine) (m : Mode) (np : Nat) (h : m.name ≠ mc.mode.name) :
    (switchMode mc m np).mode = m ∧ (switchMode mc m np).np = np ∧
    (switchMode mc m np).st.plane = 0 ∧ (switchMode mc m np).st.mask = 255 ∧
    ∀ p y x, (switchMode mc m np).st.pix p y x = initScr m p y x := by
  unfold switchMode; rw [if_neg h]
  exact ⟨rfl, rfl, rfl, rfl, fun _ _ _ => rfl⟩

/-- Leaving a mode and entering a mode of the same name again: whatever plane registers were set
    (before leaving, or in the intermediate mode), memory access in the re-entered mode starts from read
    plane 0 and write mask 0xff, and follows the OUTs made after the re-entry. -/
theorem away_and_back_resets_registers (mc : Machine) (m' m : Mode) (np' np v w v' w' : Nat)
    (h1 : m'.name ≠ mc.mode.name) (h2 : m.name ≠ m'.name) :
    let back := switchMode (mOutMask (mOutPlane (switchMode (mOutMask (mOutPlane mc v) w) m' np') v') w') m np
    back.mode = m ∧ back.st.plane = 0 ∧ back.st.mask = 255 ∧
    (∀ r, (mOutPlane back r).st.plane = r) ∧ (∀ k, (mOutMask back k).st.mask = k) := by
  intro back
  have ha : (switchMode (mOutMask (mOutPlane mc v) w) m' np').mode = m' :=
    (switch_other_name_resets (mOutMask (mOutPlane mc v) w) m' np' h1).1
  have hb := switch_other_name_resets
    (mOutMask (mOutPlane (switchMode (mOutMask (mOutPlane mc v) w) m' np') v') w') m np
    (by show m.name ≠ (switchMode (mOutMask (mOutPlane mc v) w) m' np').mode.name; rw [ha]; exact h2)
  exact ⟨hb.1, hb.2.2.1, hb.2.2.2.1, fun _ => rfl, fun _ => rfl⟩

/-- after such a re-entry a POKE is read back by PEEK without touching the registers, in every planar mode
    whose plane 0 is in use (all but SCREEN 10), and in every packed, Tandy-6 and text mode -/
theorem reentry_poke_then_peek (mc : Machine) (m' m : Mode) (hm : m ∈ table) (np' np v w a b : Nat)
    (h1 : m'.name ≠ mc.mode.name) (h2 : m.name ≠ m'.name) (hb : b < 256)
    (hok : coordOk m np (getCoords m a) = true)
    (hplane : m.kind = 2 → planeUsed m (0 % m.planeMod) = true ∧ (255 &&& m.masterMask).testBit (0 % m.planeMod) = true) :
    mPeek (mPoke (switchMode (switchMode (mOutMask (mOutPlane mc v) w) m' np') m np) a b) a = b := by
  have ha : (switchMode (mOutMask (mOutPlane mc v) w) m' np').mode = m' :=
    (switch_other_name_resets (mOutMask (mOutPlane mc v) w) m' np' h1).1
  have hne : m.name ≠ (switchMode (mOutMask (mOutPlane mc v) w) m' np').mode.name := by rw [ha]; exact h2
  have hs : switchMode (switchMode (mOutMask (mOutPlane mc v) w) m' np') m np = ⟨m, np, initSt m⟩ := by
    generalize switchMode (mOutMask (mOutPlane mc v) w) m' np' = mid at hne
    unfold switchMode; rw [if_neg hne]
  rw [hs]
  show peek m np (poke m np (initSt m) a b) a = b
  rcases kind_cases m hm with h | h | h | h
  · exact poke_then_peek_textmode m h np _ a b hok
  · exact poke_then_peek_packed m hm h np _ a b hb hok
  · obtain ⟨hu, hw⟩ := hplane h
    exact poke_then_peek_planar m hm h np _ a b hb hok hu hw
  · exact poke_then_peek_tandy6 m hm h np _ a b hb hok

example : planeUsed m10 (0 % m10.planeMod) = true ∧ (255 &&& m10.masterMask).testBit (0 % m10.planeMod) = true := by decide
example : m10.name ≠ m20.name ∧ m20.name ≠ m10.name := by decide

/-! ### the code before the repair -/

/-- D11: Tandy/PCjr SCREEN 5, block of 10 bytes at B800:1FFD — the old walk is not bytewise -/
theorem old_walk_counterexample_D11 :
    unitsOf m2.ppb (oldWalk m2 4 0xB9FFD 10 1) ≠
      (List.range 10).filterMap fun i =>
        if coordOk m2 4 (getCoords m2 (0xB9FFD + i * 1)) then some (i, getCoords m2 (0xB9FFD + i * 1)) else none := by
  decide

/-- the same in a two-bank mode: SCREEN 1, 4 bytes at B800:1FFE cross into bank 1 -/
theorem old_walk_counterexample_two_bank :
    unitsOf m3.ppb (oldWalk m3 8 0xB9FFE 4 1) ≠
      (List.range 4).filterMap fun i =>
        if coordOk m3 8 (getCoords m3 (0xB9FFE + i * 1)) then some (i, getCoords m3 (0xB9FFE + i * 1)) else none := by
  decide

/-- a blank Tandy SCREEN 6 page 0 except pixels 8..15 of row 0, which have attribute 1 -/
def t6Scr : St := ⟨fun p y x => if p = 0 ∧ y = 0 ∧ 8 ≤ x ∧ x < 16 then 1 else 0, 0, 255⟩

/-- old Tandy-6 reader at an odd address: the second byte comes from the wrong pixel group -/
theorem old_tandy6_odd_address_counterexample :
    oldGetT6 m9 4 t6Scr 0xB8001 2 ≠ bytewiseGet m9 4 t6Scr 0xB8001 2 := by decide

/-- old text reader: B700:0000 (below the segment) shows page 3 -/
theorem old_text_negative_page_counterexample :
    oldGetText m16 4 ⟨fun p _ _ => if p = 3 then 88 else 32, 0, 255⟩ 0xB7000 1 = [88] := by decide

/-! ### non-vacuity and Tandy-6 instances -/

example : m2 ∈ table ∧ isGraphics m2 = true ∧ m2.name = "320x200x16pcjr" := by decide
example : m9 ∈ table ∧ m9.kind = 3 ∧ factorOf m9 = 2 := by decide
example : coordOk m3 8 (getCoords m3 0xB8000) = true := by decide
example : coordOk m3 8 (getCoords m3 0xB9F40) = false := by decide
example : planeUsed m11 1 = true ∧ planeUsed m11 0 = false := by decide
example : walk m2 4 0xB9FFD 10 1 = [⟨0, 0, 1, 3, 7⟩] := by decide
example : getText m16 4 ⟨fun p _ _ => if p = 3 then 88 else 32, 0, 255⟩ 0xB7000 1 = [0] := by decide
example : getMemory m9 4 t6Scr 0xB8001 2 = bytewiseGet m9 4 t6Scr 0xB8001 2 := by decide
example : getMemory m9 4 t6Scr 0xB8000 5 = bytewiseGet m9 4 t6Scr 0xB8000 5 := by decide
example : getMemory m9 4 t6Scr 0xB9FFD 8 = bytewiseGet m9 4 t6Scr 0xB9FFD 8 := by decide
example : peek m9 4 (setMemory m9 4 t6Scr 0xB8003 [0xA5, 0x3C, 0x81]) 0xB8004 = 0x3C := by decide
example : (setMemory m9 4 t6Scr 0xB9FFD [1, 2, 3, 4, 5]).pix 0 1 7 =
    (bytewiseSet m9 4 t6Scr 0xB9FFD [1, 2, 3, 4, 5]).pix 0 1 7 := by decide

/-! ### tie to the source: address → (page, x, y) of the graphics memory mappers

`PcbV.Gen.Translated.cgaCoords* / egaCoords* / tandy6Coords* / coordOk` are regenerated from the Python
AST of `CGAMemoryMapper._get_coords`, `EGAMemoryMapper._get_coords`, `Tandy6MemoryMapper._get_coords`
(one definition per component of the returned tuple; `divmod` = `Int.fdiv`/`Int.fmod`; the mapper
attributes are parameters) and of `GraphicsMemoryMapper._coord_ok` (gen/tables_py2lean.py).  The theorems
say that `coordsCGA`, `coordsEGA`, `coordsTandy6`, `coordOk` of the model are that code for every mode
record with a positive page size (the real code raises ZeroDivisionError otherwise) and every address,
including addresses below the video segment (negative relative address, floor division). -/

open PcbV.Gen.Translated in
theorem translated_coords_supported :
    cgaCoordsPage_supported = true ∧ cgaCoordsX_supported = true ∧ cgaCoordsY_supported = true ∧
    egaCoordsPage_supported = true ∧ egaCoordsX_supported = true ∧ egaCoordsY_supported = true ∧
    tandy6CoordsPage_supported = true ∧ tandy6CoordsX_supported = true ∧ tandy6CoordsY_supported = true ∧
    Gen.Translated.coordOk_supported = true := by decide

/-- every mode of the generated table has a positive page size -/
theorem translated_pageSize_pos : ∀ m ∈ Gen.Modes.table, 0 < m.pageSize := by decide

/-- the relative address split by the page size: quotient (may be negative) and a natural remainder -/
theorem page_split (r : Int) (p : Nat) (hp : 0 < p) :
    Int.fdiv r (p : Int) = r / (p : Int) ∧ Int.fmod r (p : Int) = (((r % (p : Int)).toNat : Nat) : Int) := by
  have h0 : (0 : Int) ≤ (p : Int) := Int.natCast_nonneg p
  have h1 : (0 : Int) ≤ r % (p : Int) := Int.emod_nonneg _ (by omega)
  rw [Int.fdiv_eq_ediv_of_nonneg _ h0, Int.fmod_eq_emod_of_nonneg _ h0]
  exact ⟨rfl, by omega⟩

open PcbV.Gen.Translated in
theorem translated_cgaCoords_eq (m : Mode) (addr : Nat) (hp : 0 < m.pageSize) :
    coordsCGA m addr =
      ⟨cgaCoordsPage addr m.segment m.pageSize m.bankSize m.bytesPerRow m.bpp m.interleave,
       (cgaCoordsX addr m.segment m.pageSize m.bankSize m.bytesPerRow m.bpp m.interleave).toNat,
       (cgaCoordsY addr m.segment m.pageSize m.bankSize m.bytesPerRow m.bpp m.interleave).toNat⟩ := by
  unfold coordsCGA cgaCoordsPage cgaCoordsX cgaCoordsY rel
  have hs : ((addr : Int) - (m.segment : Int) * 16) = (addr : Int) - ((m.segment * 16 : Nat) : Int) := by
    rw [Int.natCast_mul]; rfl
  simp only [hs]
  have eight : (8 : Int) = ((8 : Nat) : Int) := rfl
  obtain ⟨h1, h2⟩ := page_split ((addr : Int) - ((m.segment * 16 : Nat) : Int)) m.pageSize hp
  simp only [h1, h2, PyIntLemmas.fdiv_natCast, PyIntLemmas.fmod_natCast, ← Int.natCast_mul, ← Int.natCast_add,
    Int.toNat_natCast, eight]

open PcbV.Gen.Translated in
theorem translated_egaCoords_eq (m : Mode) (addr : Nat) (hp : 0 < m.pageSize) :
    coordsEGA m addr =
      ⟨egaCoordsPage addr m.segment m.pageSize m.bytesPerRow,
       (egaCoordsX addr m.segment m.pageSize m.bytesPerRow).toNat,
       (egaCoordsY addr m.segment m.pageSize m.bytesPerRow).toNat⟩ := by
  unfold coordsEGA egaCoordsPage egaCoordsX egaCoordsY rel
  have hs : ((addr : Int) - (m.segment : Int) * 16) = (addr : Int) - ((m.segment * 16 : Nat) : Int) := by
    rw [Int.natCast_mul]; rfl
  simp only [hs]
  have eight : (8 : Int) = ((8 : Nat) : Int) := rfl
  obtain ⟨h1, h2⟩ := page_split ((addr : Int) - ((m.segment * 16 : Nat) : Int)) m.pageSize hp
  simp only [h1, h2, PyIntLemmas.fdiv_natCast, PyIntLemmas.fmod_natCast, ← Int.natCast_mul, ← Int.natCast_add,
    Int.toNat_natCast, eight]

open PcbV.Gen.Translated in
theorem translated_tandy6Coords_eq (m : Mode) (addr : Nat) (hp : 0 < m.pageSize) :
    coordsTandy6 m addr =
      ⟨tandy6CoordsPage addr m.segment m.pageSize m.bankSize m.bytesPerRow,
       (tandy6CoordsX addr m.segment m.pageSize m.bankSize m.bytesPerRow).toNat,
       (tandy6CoordsY addr m.segment m.pageSize m.bankSize m.bytesPerRow).toNat⟩ := by
  unfold coordsTandy6 tandy6CoordsPage tandy6CoordsX tandy6CoordsY rel
  have hs : ((addr : Int) - (m.segment : Int) * 16) = (addr : Int) - ((m.segment * 16 : Nat) : Int) := by
    rw [Int.natCast_mul]; rfl
  simp only [hs]
  have eight : (8 : Int) = ((8 : Nat) : Int) := rfl
  have four : (4 : Int) = ((4 : Nat) : Int) := rfl
  have two : (2 : Int) = ((2 : Nat) : Int) := rfl
  obtain ⟨h1, h2⟩ := page_split ((addr : Int) - ((m.segment * 16 : Nat) : Int)) m.pageSize hp
  simp only [h1, h2, two, PyIntLemmas.fdiv_natCast, PyIntLemmas.fmod_natCast, eight, four, ← Int.natCast_mul, ← Int.natCast_add,
    Int.toNat_natCast]

open PcbV.Gen.Translated in
theorem translated_coordOk_eq (m : Mode) (np : Nat) (c : Coord) :
    coordOk m np c = Gen.Translated.coordOk c.page c.x c.y np m.width m.height := by
  unfold VideoMem.coordOk Gen.Translated.coordOk
  simp [Bool.and_assoc]

end PcbV.C34
