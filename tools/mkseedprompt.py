#!/usr/bin/env python3
"""Print the seeding prompt for a property: mkseedprompt.py C02 [sid] [hint...]"""
import json, sys
pid = sys.argv[1]
sid = sys.argv[2] if len(sys.argv) > 2 else pid
hint = ' '.join(sys.argv[3:])
props = {json.loads(l)['id']: json.loads(l) for l in open('/verif/properties.jsonl')}
p = props[pid]
text = "Title: %s\nStatement: %s\nQuantifier (what it ranges over): %s\nCode areas involved: %s" % (
    p['title'], p['statement'], p['quantifier']['text'], ', '.join(p['anchors']['files']))
t = open('/verif/tools/seed_prompt.md').read()
print(t.replace('{PID}', pid).replace('{SID}', sid).replace('{PROPERTY}', text).replace('{HINT}', hint))
