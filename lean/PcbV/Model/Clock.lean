import PcbV.Basic
import PcbV.Gen.Errors
/-
  Model of `pcbasic/basic/clock.py: Clock.time_/date_/time_fn_/date_fn_` and of
  `pcbasic/basic/dos.py: Environment` (ENVIRON / ENVIRON$).
  Time is an integer number of microseconds (Lean's `/`, `%` on `Int` with a positive divisor are
  Python's floor `//`, `%`); the host clock `host` is a parameter, the
  interpreter state is the offset `off` (a `timedelta`).  The calendar of the host `datetime`
  library is a parameter `Cal` (`days` of a valid date, `civil` of a day number).
-/
namespace PcbV.Clock

def ifc : Nat := PcbV.Gen.E.ifc

def usSec : Int := 1000000
def usDay : Int := 86400 * 1000000

/-! ### Python `int(bytes)` (base 10) -/

def isSpace (c : Nat) : Bool := c == 32 || (9 ≤ c && c ≤ 13)
def isDigit (c : Nat) : Bool := 48 ≤ c && c ≤ 57

def stripL : Bytes → Bytes
  | [] => []
  | c :: cs => if isSpace c then stripL cs else c :: cs

def strip (s : Bytes) : Bytes := (stripL (stripL s).reverse).reverse

/-- digits with single underscores between digits; `prevDigit` says whether an underscore may come -/
def digitsVal : Bytes → Bool → Nat → Option Nat
  | [], prevDigit, acc => if prevDigit then some acc else none
  | c :: cs, prevDigit, acc =>
    if isDigit c then digitsVal cs true (acc * 10 + (c - 48))
    else if c == 95 && prevDigit then
      match cs with
      | d :: _ => if isDigit d then digitsVal cs false acc else none
      | [] => none
    else none

/-- `int(s)` for a bytes object: optional blanks, optional sign, digits -/
def pyInt (s : Bytes) : Option Int :=
  match strip s with
  | [] => none
  | 43 :: rest => (digitsVal rest false 0).map Int.ofNat
  | 45 :: rest => (digitsVal rest false 0).map (fun n => - Int.ofNat n)
  | rest => (digitsVal rest false 0).map Int.ofNat

/-- `bytes.split(sep)` for a one-byte separator -/
def splitOn (sep : Nat) : Bytes → List Bytes
  | [] => [[]]
  | c :: cs =>
    match splitOn sep cs with
    | [] => [[]]   -- unreachable
    | w :: ws => if c == sep then [] :: w :: ws else (c :: w) :: ws

def allSome : List (Option α) → Option (List α)
  | [] => some []
  | none :: _ => none
  | some x :: xs => (allSome xs).map (x :: ·)

/-! ### TIME$ -/

/-- the validated components handed to `datetime.datetime(..., h, m, s, us)` -/
def parseTime (s : Bytes) : R (Int × Int × Int) :=
  let strlist := splitOn 58 (s.map (fun c => if c == 46 then 58 else c))
  if strlist.length ∉ [1, 2, 3] then .error ifc else
  match allSome (strlist.map pyInt) with
  | none => .error ifc
  | some tl =>
    let h := tl.getD 0 0
    let m := tl.getD 1 0
    let sec := tl.getD 2 0
    if ¬ (0 ≤ h ∧ h ≤ 23) ∨ ¬ (0 ≤ m ∧ m ≤ 59) ∨ ¬ (0 ≤ sec ∧ sec ≤ 59) then .error ifc
    else .ok (h, m, sec)

/-- `parseTime` before the repair of defect D2: only the upper bounds were checked -/
def parseTimeOld (s : Bytes) : R (Int × Int × Int) :=
  let strlist := splitOn 58 (s.map (fun c => if c == 46 then 58 else c))
  if strlist.length ∉ [1, 2, 3] then .error ifc else
  match allSome (strlist.map pyInt) with
  | none => .error ifc
  | some tl =>
    let h := tl.getD 0 0
    let m := tl.getD 1 0
    let sec := tl.getD 2 0
    if h > 23 ∨ m > 59 ∨ sec > 59 then .error ifc else .ok (h, m, sec)

/-- precondition of the host constructor for the time fields -/
def TimeOk (t : Int × Int × Int) : Prop :=
  0 ≤ t.1 ∧ t.1 ≤ 23 ∧ 0 ≤ t.2.1 ∧ t.2.1 ≤ 59 ∧ 0 ≤ t.2.2 ∧ t.2.2 ≤ 59

/-- `TIME$ = s` at host time `host` with offset `off`: the new offset -/
def timeSet (host off : Int) (s : Bytes) : R Int := do
  let (h, m, sec) ← parseTime s
  let now := host + off
  let newtime := now / usDay * usDay + (h * 3600 + m * 60 + sec) * usSec + now % usSec
  pure (off + (newtime - now))

/-- seconds since midnight shown by `TIME$` -/
def timeFnSecs (host off : Int) : Int := (host + off) % usDay / usSec

def twoDigits (n : Nat) : Bytes := [48 + n / 10 % 10, 48 + n % 10]
def fourDigits (n : Nat) : Bytes := [48 + n / 1000 % 10, 48 + n / 100 % 10, 48 + n / 10 % 10, 48 + n % 10]

/-- `TIME$` : "HH:MM:SS" -/
def timeFn (host off : Int) : Bytes :=
  let t := (timeFnSecs host off).toNat
  twoDigits (t / 3600) ++ [58] ++ twoDigits (t / 60 % 60) ++ [58] ++ twoDigits (t % 60)

/-! ### DATE$ -/

def isLeap (y : Int) : Bool := (y % 4 == 0 && y % 100 != 0) || y % 400 == 0

def daysInMonth (y mo : Int) : Int :=
  if mo = 2 then (if isLeap y then 29 else 28)
  else if mo = 4 ∨ mo = 6 ∨ mo = 9 ∨ mo = 11 then 30 else 31

/-- precondition of `datetime.datetime(y, mo, d, …)` -/
def DateOk (y mo d : Int) : Prop :=
  1 ≤ y ∧ y ≤ 9999 ∧ 1 ≤ mo ∧ mo ≤ 12 ∧ 1 ≤ d ∧ d ≤ daysInMonth y mo

instance (y mo d : Int) : Decidable (DateOk y mo d) := by unfold DateOk; exact inferInstance

/-- the century rule of `date_` -/
def fullYear (y : Int) : Int := if y ≤ 77 then 2000 + y else if y < 100 ∧ y > 79 then 1900 + y else y

/-- the validated (year, month, day) handed to the host constructor -/
def parseDate (s : Bytes) : R (Int × Int × Int) :=
  let strlist := splitOn 45 (s.map (fun c => if c == 47 then 45 else c))
  if strlist.length ≠ 3 then .error ifc else
  match allSome (strlist.map pyInt) with
  | none => .error ifc
  | some dl =>
    let mo := dl.getD 0 0
    let d := dl.getD 1 0
    let y := dl.getD 2 0
    if mo > 12 ∨ d > 31 ∨ (y > 77 ∧ y < 80) ∨ ((y > 99 ∧ y < 1980) ∨ y > 2099) then .error ifc else
    let y := fullYear y
    -- datetime.datetime(...) raises ValueError -> Illegal function call
    if DateOk y mo d then .ok (y, mo, d) else .error ifc

/-- the host calendar: day number of a valid date and its inverse -/
structure Cal where
  days : Int → Int → Int → Int
  civil : Int → Int × Int × Int

def dateSet (cal : Cal) (host off : Int) (s : Bytes) : R Int := do
  let (y, mo, d) ← parseDate s
  let now := host + off
  let newtime := cal.days y mo d * usDay + now % usDay
  pure (off + (newtime - now))

def dateFnYmd (cal : Cal) (host off : Int) : Int × Int × Int := cal.civil ((host + off) / usDay)

/-- `DATE$` : "mm-dd-yyyy" -/
def dateFn (cal : Cal) (host off : Int) : Bytes :=
  let (y, mo, d) := dateFnYmd cal host off
  twoDigits mo.toNat ++ [45] ++ twoDigits d.toNat ++ [45] ++ fourDigits y.toNat

/-- concrete proleptic Gregorian calendar (days since 1970-01-01), used by the driver -/
def gregDays (y mo d : Int) : Int :=
  let y := if mo ≤ 2 then y - 1 else y
  let era := y / 400
  let yoe := y - era * 400
  let doy := (153 * (if mo > 2 then mo - 3 else mo + 9) + 2) / 5 + d - 1
  let doe := yoe * 365 + yoe / 4 - yoe / 100 + doy
  era * 146097 + doe - 719468

def gregCivil (z : Int) : Int × Int × Int :=
  let z := z + 719468
  let era := z / 146097
  let doe := z - era * 146097
  let yoe := (doe - doe / 1460 + doe / 36524 - doe / 146096) / 365
  let y := yoe + era * 400
  let doy := doe - (365 * yoe + yoe / 4 - yoe / 100)
  let mp := (5 * doy + 2) / 153
  let d := doy - (153 * mp + 2) / 5 + 1
  let mo := if mp < 10 then mp + 3 else mp - 9
  (if mo ≤ 2 then y + 1 else y, mo, d)

def greg : Cal := ⟨gregDays, gregCivil⟩

/-! ### ENVIRON -/

def upper (c : Nat) : Nat := if 97 ≤ c ∧ c ≤ 122 then c - 32 else c

abbrev Env := List (Bytes × Bytes)

def envGet (env : Env) (key : Bytes) : Bytes :=
  match env.find? (fun kv => kv.1 == key) with
  | some kv => kv.2
  | none => []

def envPut (env : Env) (key value : Bytes) : Env :=
  (key, value) :: env.filter (fun kv => kv.1 != key)

def indexOf (c : Nat) : Bytes → Option Nat
  | [] => none
  | x :: xs => if x == c then some 0 else (indexOf c xs).map (· + 1)

/-- `ENVIRON "name=value"`; value bytes are assumed to round-trip through the codepage (C41) -/
def environSet (env : Env) (s : Bytes) : R Env :=
  match indexOf 61 s with
  | none => .error ifc
  | some 0 => .error ifc
  | some eqs =>
    let key := s.take eqs
    let value := s.drop (eqs + 1)
    if key.any (· ≥ 128) then .error ifc
    else if key.any (· == 0) || value.any (· == 0) then .error ifc
    else .ok (envPut env (key.map upper) value)

/-- `environSet` before the repair of defect D3 (no NUL check before the host call) -/
def environSetOld (env : Env) (s : Bytes) : R Env :=
  match indexOf 61 s with
  | none => .error ifc
  | some 0 => .error ifc
  | some eqs =>
    let key := s.take eqs
    let value := s.drop (eqs + 1)
    if key.any (· ≥ 128) then .error ifc
    else .ok (envPut env (key.map upper) value)

/-- precondition of the host `os.environ[key] = value`: no NUL byte, ASCII key -/
def EnvOk (key value : Bytes) : Prop := (∀ x ∈ key, x ≠ 0 ∧ x < 128) ∧ (∀ x ∈ value, x ≠ 0)

/-- `ENVIRON$("name")` -/
def environGet (env : Env) (key : Bytes) : R Bytes :=
  if key.isEmpty then .error ifc
  else if key.any (· ≥ 128) then .error ifc
  else .ok (envGet env (key.map upper))

end PcbV.Clock
