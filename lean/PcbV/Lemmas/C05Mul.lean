import PcbV.Lemmas.C05Add
/-
  C05 lemmas, part 3: closed forms of the shifting loops (`_bring_to_range`, `_normalise`)
  and of the long division by a power of two (`_div_den`).
-/
namespace PcbV.Mbf

theorem shiftDown_pow (k : Nat) : ∀ (fuel upper : Nat) (e : Int) (c : Nat),
    c ≤ upper → upper < 2 * c → k ≤ fuel → shiftDown fuel upper e (c * 2 ^ k) = (e + k, c) := by
  induction k with
  | zero =>
    intro fuel upper e c h1 _ _
    have : ¬ (c > upper) := by omega
    cases fuel <;> simp [shiftDown, this]
  | succ k ih =>
    intro fuel upper e c h1 h2 h3
    obtain ⟨fuel', rfl⟩ : ∃ f', fuel = f' + 1 := ⟨fuel - 1, by omega⟩
    have hp : 1 ≤ 2 ^ k := Nat.one_le_two_pow
    have hgt : c * 2 ^ (k + 1) > upper := by
      rw [Nat.pow_succ, ← Nat.mul_assoc]
      have : c * 2 ^ k ≥ c := Nat.le_mul_of_pos_right _ hp
      omega
    have hdiv : c * 2 ^ (k + 1) / 2 = c * 2 ^ k := by
      rw [Nat.pow_succ, ← Nat.mul_assoc, Nat.mul_div_cancel _ (by omega)]
    unfold shiftDown
    rw [if_pos hgt, hdiv, ih fuel' upper (e + 1) c h1 h2 (by omega)]
    congr 1
    push_cast
    omega

theorem shiftUp_pow (k : Nat) : ∀ (fuel lim : Nat) (e : Int) (c : Nat),
    lim ≤ c * 2 ^ k → c * 2 ^ k < 2 * lim → k ≤ fuel →
    shiftUp fuel lim e c = (e - k, c * 2 ^ k) := by
  induction k with
  | zero =>
    intro fuel lim e c h1 _ _
    rw [shiftUp_stop _ _ _ _ (by omega)]; simp
  | succ k ih =>
    intro fuel lim e c h1 h2 h3
    obtain ⟨fuel', rfl⟩ : ∃ f', fuel = f' + 1 := ⟨fuel - 1, by omega⟩
    have hp : 1 ≤ 2 ^ k := Nat.one_le_two_pow
    have he : c * 2 ^ (k + 1) = c * 2 * 2 ^ k := by
      rw [Nat.pow_succ, Nat.mul_assoc, Nat.mul_comm 2]; 
    have hlt : c < lim := by
      have : c * 2 ^ k ≥ c := Nat.le_mul_of_pos_right _ hp
      have he2 : c * 2 * 2 ^ k = 2 * (c * 2 ^ k) := by ac_rfl
      rw [he, he2] at h2
      omega
    unfold shiftUp
    rw [if_pos hlt, ih fuel' lim (e - 1) (c * 2) (by omega) (by omega) (by omega), he]
    congr 1
    push_cast
    omega

theorem divLoop_pow (j : Nat) : ∀ (fuel work acc : Nat) (e : Int),
    1 ≤ work → work ≤ 2 ^ (j + 1) → j + 2 ≤ fuel →
    divLoop fuel work (2 ^ j) acc e = (acc * 2 ^ (j + 1) + work - 1, e - (j + 1)) := by
  induction j with
  | zero =>
    intro fuel work acc e h1 h2 h3
    obtain ⟨fuel', rfl⟩ : ∃ f', fuel = f' + 2 := ⟨fuel - 2, by omega⟩
    simp only [Nat.zero_add, Nat.pow_one, Nat.pow_zero] at *
    by_cases hw : work > 1
    · have : work = 2 := by omega
      subst this
      simp [divLoop]
    · have : work = 1 := by omega
      subst this
      simp [divLoop]
  | succ j ih =>
    intro fuel work acc e h1 h2 h3
    obtain ⟨fuel', rfl⟩ : ∃ f', fuel = f' + 1 := ⟨fuel - 1, by omega⟩
    have hp : 0 < 2 ^ (j + 1) := Nat.two_pow_pos _
    have hdiv : 2 ^ (j + 1) / 2 = 2 ^ j := by
      rw [Nat.pow_succ, Nat.mul_div_cancel _ (by omega)]
    have h22 : 2 ^ (j + 1 + 1) = 2 * 2 ^ (j + 1) := by rw [Nat.pow_succ]; omega
    unfold divLoop
    rw [if_pos hp]
    simp only []
    by_cases hw : work > 2 ^ (j + 1)
    · rw [if_pos hw, hdiv, ih fuel' _ _ _ (by omega) (by omega) (by omega)]
      congr 1
      · rw [h22, Nat.add_mul, Nat.one_mul, ← Nat.mul_assoc]; omega
      · push_cast; omega
    · rw [if_neg hw, hdiv, ih fuel' _ _ _ (by omega) (by omega) (by omega)]
      congr 1
      · rw [h22, Nat.mul_assoc, Nat.mul_comm 2]
      · push_cast; omega

theorem bringToRange_pow (c k : Nat) (e : Int) (lower upper : Nat)
    (h1 : lower < c * 2 ^ k) (h2 : c ≤ upper) (h3 : upper < 2 * c) :
    bringToRange (c * 2 ^ k) e lower upper = (c, e + k) := by
  unfold bringToRange
  rw [shiftUp_stop _ _ _ _ (by omega)]
  simp only []
  have hne : c * 2 ^ k ≠ 0 := by omega
  have hc : 1 ≤ c := by omega
  have hk : k ≤ Nat.log2 (c * 2 ^ k) := by
    rw [Nat.le_log2 hne]
    calc 2 ^ k = 1 * 2 ^ k := by omega
      _ ≤ c * 2 ^ k := Nat.mul_le_mul_right _ hc
  rw [shiftDown_pow k _ upper e c h2 h3 (by omega)]

/-- the product mantissa `256·A · 256·S` written as `c · 2^k` with `c` in the range
    `_bring_to_range` stops at, and `c · 2^j = 256·A` for the shift `_normalise` undoes -/
theorem one_product_shape (f : Fmt) (h : f.WF) (A : Nat) (hA1 : f.signMask ≤ A) (hA2 : A < 2 * f.signMask) :
    ∃ c k j : Nat, 256 * A * f.denMask = c * 2 ^ k ∧ c ≤ f.denUpper / 16 ∧ f.denUpper / 16 < 2 * c ∧
      c % 16 = 0 ∧ c * 2 ^ j = 256 * A ∧ j ≤ 4 ∧ k = f.w + 7 + j ∧ c ≠ 0 := by
  obtain ⟨hS, _, _, hdm, hdu, hw, _, _⟩ := wf_S f h
  have hw8 : 8 ≤ f.w := h.1
  have hdm' : f.denMask = 2 ^ (f.w + 7) := h.2.2.1
  by_cases hAS : A = f.signMask
  · refine ⟨32 * f.signMask, f.w + 10, 3, ?_, by omega, by omega, by omega, by omega, by omega, by omega, by omega⟩
    rw [hdm', hAS]
    have : 2 ^ (f.w + 10) = 8 * 2 ^ (f.w + 7) := by rw [Nat.pow_add, Nat.pow_add]; omega
    rw [this, ← hdm', hdm]
    generalize f.signMask = S
    rw [show 256 * S * (256 * S) = 65536 * (S * S) by ac_rfl,
        show 32 * S * (8 * (256 * S)) = 65536 * (S * S) by
          rw [show 32 * S * (8 * (256 * S)) = (32 * 8 * 256) * (S * S) by ac_rfl]]
  · refine ⟨16 * A, f.w + 11, 4, ?_, by omega, by omega, by omega, by omega, by omega, by omega, by omega⟩
    rw [hdm']
    have : 2 ^ (f.w + 11) = 16 * 2 ^ (f.w + 7) := by rw [Nat.pow_add, Nat.pow_add]; omega
    rw [this]
    generalize 2 ^ (f.w + 7) = P
    rw [show 16 * A * (16 * P) = (16 * 16) * (A * P) by ac_rfl, Nat.mul_assoc]

theorem imulThr_one (f : Fmt) (h : f.WF) (h1 : f.one = ⟨0, 129⟩) (x : F) (hx : F.Valid f x)
    (he : x.e ≠ 0) (thr : Int) (ht : thr ≤ -((f.w : Int) + 7) + 1) :
    imulThr thr f x f.one = .ok x := by
  obtain ⟨hS, _, _, hdm, hdu, hw, _, hb⟩ := wf_S f h
  obtain ⟨hm, hexp, hneg⟩ := denorm_man f h x
  obtain ⟨r1, r2⟩ := manOf_range f h x hx.1
  obtain ⟨c, k, j, hP, hc1, hc2, hc3, hc4, hj, hkj, hc0⟩ := one_product_shape f h (manOf f x) r1 r2
  have hv := hx.2
  unfold imulThr
  have hz : (x.isZero || f.one.isZero) = false := by
    simp [F.isZero, he, h1]
  rw [hz, one_denorm f h h1]
  simp only [Bool.false_eq_true, if_false, hm, hexp, hneg]
  have hlow : f.denMask / 16 < c * 2 ^ k := by
    rw [← hP, hdm]
    have : 256 * manOf f x * (256 * f.signMask) ≥ 1 * (256 * f.signMask) :=
      Nat.mul_le_mul_right _ (by omega)
    omega
  have hnb : (isNeg f x != false) = isNeg f x := by cases isNeg f x <;> rfl
  rw [if_neg (by omega), hP, bringToRange_pow c k _ _ _ hlow hc1 hc2, hnb]
  simp only []
  rw [if_neg (by omega)]
  have hs : shiftUp (f.w + 8) (f.denMask - 1) ((x.e : Int) + 129 - f.bias - 8 + k) c
      = ((x.e : Int) + 129 - f.bias - 8 + k - j, c * 2 ^ j) :=
    shiftUp_pow j _ _ _ _ (by omega) (by omega) (by omega)
  rw [hc4] at hs
  rw [normalise_shifted f h _ c _ _ _ hc0 (by omega) hs (by omega) (by omega) (by omega) (by omega) (by omega)]
  rw [Nat.mul_div_cancel_left _ (by omega), packMan_manOf f h x hx.1]
  have : ((x.e : Int) + 129 - f.bias - 8 + k - j).toNat = x.e := by omega
  rw [this]

theorem idiv_one (f : Fmt) (h : f.WF) (h1 : f.one = ⟨0, 129⟩) (x : F) (hx : F.Valid f x)
    (he : x.e ≠ 0) : idiv f x f.one = .ok x := by
  obtain ⟨hS, _, _, hdm, hdu, hw, _, hb⟩ := wf_S f h
  obtain ⟨hm, hexp, hneg⟩ := denorm_man f h x
  obtain ⟨r1, r2⟩ := manOf_range f h x hx.1
  have hdm' : f.denMask = 2 ^ (f.w + 7) := h.2.2.1
  have hdu' : f.denUpper = 2 ^ (f.w + 8) := h.2.2.2.1
  have hv := hx.2
  unfold idiv
  have hz1 : f.one.isZero = false := by simp [F.isZero, h1]
  have hz2 : x.isZero = false := by simp [F.isZero, he]
  rw [hz1, hz2]
  simp only [Bool.false_eq_true, if_false]
  unfold normD divDen
  rw [one_denorm f h h1]
  simp only [hm, hexp, hneg]
  have hnb : (isNeg f x != false) = isNeg f x := by cases isNeg f x <;> rfl
  rw [hnb, hdm', Nat.log2_two_pow,
    divLoop_pow (f.w + 7) _ _ 0 _ (by omega) (by rw [← hdu', hdu]; omega) (by omega)]
  simp only [Nat.zero_mul, Nat.zero_add]
  rw [normalise_round_up f h _ _ _ r1 r2 (by omega) (by omega), packMan_manOf f h x hx.1]
  have : ((x.e : Int) - (129 - f.bias - 8) + 1 - (((f.w + 7 : Nat) : Int) + 1)).toNat = x.e := by omega
  rw [this]

theorem imulThr_comm (t : Int) (f : Fmt) (x y : F) : imulThr t f x y = imulThr t f y x := by
  unfold imulThr
  have e1 : (denorm f x).exp + (denorm f y).exp = (denorm f y).exp + (denorm f x).exp := Int.add_comm _ _
  have e2 : ((denorm f x).neg != (denorm f y).neg) = ((denorm f y).neg != (denorm f x).neg) := by
    cases (denorm f x).neg <;> cases (denorm f y).neg <;> rfl
  have e3 := Nat.mul_comm (denorm f x).man (denorm f y).man
  rw [Bool.or_comm]
  simp only []
  rw [e1, e2, e3]

theorem ineg_props (f : Fmt) (h : f.WF) (x : F) (hx : F.Valid f x) :
    F.Valid f (ineg f x) ∧ (ineg f x).e = x.e ∧ isNeg f (ineg f x) = !isNeg f x ∧
    manOf f (ineg f x) = manOf f x ∧ sign f (ineg f x) = - sign f x := by
  obtain ⟨hS, _, _, _, _, hw, _⟩ := wf_S f h
  have hm := hx.1
  have hv : F.Valid f (ineg f x) := by
    refine ⟨?_, hx.2⟩
    unfold ineg; simp only []; rw [isNeg_iff f h x hm]
    by_cases hn : x.m ≥ f.signMask <;> simp [hn] <;> omega
  have hneg : isNeg f (ineg f x) = !isNeg f x := by
    rw [isNeg_iff f h _ hv.1, isNeg_iff f h x hm]
    unfold ineg; simp only []; rw [isNeg_iff f h x hm]
    by_cases hn : x.m ≥ f.signMask <;> simp [hn] <;> omega
  refine ⟨hv, rfl, hneg, ?_, ?_⟩
  · unfold manOf; rw [hneg]
    unfold ineg; simp only []
    rw [isNeg_iff f h x hm]
    by_cases hn : x.m ≥ f.signMask <;> simp [hn] <;> omega
  · unfold sign; rw [hneg]
    have : (ineg f x).e = x.e := rfl
    rw [this]
    by_cases he : x.e = 0 <;> cases isNeg f x <;> simp [he]

theorem iabs_props (f : Fmt) (h : f.WF) (x : F) (hx : F.Valid f x) :
    (iabs f x = if isNeg f x then ineg f x else x) ∧ isNeg f (iabs f x) = false ∧
    0 ≤ sign f (iabs f x) ∧ manOf f (iabs f x) = manOf f x ∧ (iabs f x).e = x.e := by
  obtain ⟨hS, _, _, _, _, hw, _⟩ := wf_S f h
  have hm := hx.1
  have h1 : iabs f x = if isNeg f x then ineg f x else x := by
    unfold iabs ineg
    cases hn : isNeg f x <;> simp
  have h2 : isNeg f (iabs f x) = false := by
    rw [h1]
    cases hn : isNeg f x
    · simpa using hn
    · simp only [if_true]; rw [(ineg_props f h x hx).2.2.1, hn]; rfl
  refine ⟨h1, h2, ?_, ?_, ?_⟩
  · unfold sign; rw [h2]; split <;> simp
  · rw [h1]; cases hn : isNeg f x
    · simp
    · simp only [if_true]; exact (ineg_props f h x hx).2.2.2.1
  · rfl

end PcbV.Mbf
