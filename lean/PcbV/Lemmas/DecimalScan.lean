import PcbV.Model.Decimal
/-
  C07 lemmas, part 2: the scanner `str_to_decimal` on a run of mantissa digits, on blanks, and after
  the exponent letter.
-/
namespace PcbV.Decimal
open PcbV

def IsDig (c : Nat) : Prop := 48 ≤ c ∧ c ≤ 57

theorem isDigit_iff (c : Nat) : isDigit c = true ↔ IsDig c := by simp [isDigit, IsDig]

theorem dig_not_blank {c : Nat} (h : IsDig c) : isBlank c = false := by
  unfold IsDig at h
  simp [isBlank, PcbV.Gen.DecConsts.blanks]; omega

theorem dig_not_sep {c : Nat} (h : IsDig c) : isSeparator c = false := by
  unfold IsDig at h
  simp [isSeparator, PcbV.Gen.DecConsts.separators]; omega

/-- the effect of one mantissa digit on the scanner state -/
def digitStep (s : Scan) (c : Nat) : Scan :=
  if s.mantissa * 10 + (c - 48) ≠ 0 then
    { s with mantissa := s.mantissa * 10 + (c - 48),
             exp10 := if s.foundPoint then s.exp10 - 1 else s.exp10,
             digits := s.digits + 1,
             zeros := if s.foundPoint ∧ c = 48 then s.zeros + 1 else 0 }
  else { s with mantissa := s.mantissa * 10 + (c - 48),
                exp10 := if s.foundPoint then s.exp10 - 1 else s.exp10 }

theorem digitStep_pos (s : Scan) (c : Nat) (h : s.mantissa * 10 + (c - 48) ≠ 0) :
    digitStep s c =
      { s with mantissa := s.mantissa * 10 + (c - 48),
               exp10 := if s.foundPoint then s.exp10 - 1 else s.exp10,
               digits := s.digits + 1,
               zeros := if s.foundPoint ∧ c = 48 then s.zeros + 1 else 0 } := by
  unfold digitStep; rw [if_pos h]

theorem digitStep_neg (s : Scan) (c : Nat) (h : ¬ s.mantissa * 10 + (c - 48) ≠ 0) :
    digitStep s c =
      { s with mantissa := s.mantissa * 10 + (c - 48),
               exp10 := if s.foundPoint then s.exp10 - 1 else s.exp10 } := by
  unfold digitStep; rw [if_neg h]

theorem step_digit (a : Bool) (s : Scan) (c : Nat) (hs : s.foundSign = true) (he : s.foundExp = false)
    (hc : IsDig c) : step a s c = .cont (digitStep s c) := by
  have hd : isDigit c = true := (isDigit_iff c).2 hc
  have h43 : (c == 43) = false := by unfold IsDig at hc; simp; omega
  have h45 : (c == 45) = false := by unfold IsDig at hc; simp; omega
  have hs1 : ({ s with foundSign := true } : Scan) = s := by cases s; simp at hs; simp [hs]
  unfold step
  simp only [dig_not_blank hc, dig_not_sep hc, hs, hd, h43, h45, Bool.not_true, Bool.false_eq_true,
    if_false, Bool.or_self, Bool.and_false, hs1, he, Bool.not_false, if_true]
  by_cases hm : s.mantissa * 10 + (c - 48) ≠ 0
  · rw [digitStep_pos s c hm, if_pos hm]; simp [hs, he]
  · rw [digitStep_neg s c hm, if_neg hm]; simp [hs, he]

theorem digitStep_flags (s : Scan) (c : Nat) :
    (digitStep s c).foundSign = s.foundSign ∧ (digitStep s c).foundExp = s.foundExp ∧
    (digitStep s c).foundPoint = s.foundPoint := by
  unfold digitStep; split <;> simp

theorem scanLoop_digits (a : Bool) : ∀ (ds rest : Bytes) (s : Scan), s.foundSign = true → s.foundExp = false →
    (∀ c ∈ ds, IsDig c) → scanLoop a (ds ++ rest) s = scanLoop a rest (ds.foldl digitStep s) := by
  intro ds
  induction ds with
  | nil => intro rest s _ _ _; rfl
  | cons c t ih =>
    intro rest s hs he hd
    have hc := hd c (by simp)
    simp only [List.cons_append, scanLoop, step_digit a s c hs he hc, List.foldl_cons]
    obtain ⟨f1, f2, _⟩ := digitStep_flags s c
    exact ih rest _ (by rw [f1, hs]) (by rw [f2, he]) (fun x hx => hd x (by simp [hx]))

/-- number of `0` characters at the end of a digit string -/
def trail (ds : Bytes) : Nat := (ds.reverse.takeWhile (· == 48)).length

theorem takeWhile_append_neg {α} (p : α → Bool) : ∀ (l₁ l₂ : List α), (∃ x ∈ l₁, p x = false) →
    (l₁ ++ l₂).takeWhile p = l₁.takeWhile p := by
  intro l₁
  induction l₁ with
  | nil => intro l₂ h; obtain ⟨x, hx, _⟩ := h; simp at hx
  | cons x t ih =>
    intro l₂ h
    by_cases hp : p x = true
    · simp only [List.cons_append, List.takeWhile_cons, hp, if_true]
      congr 1
      apply ih
      obtain ⟨y, hy, hpy⟩ := h
      rcases List.mem_cons.1 hy with rfl | hy
      · rw [hp] at hpy; cases hpy
      · exact ⟨y, hy, hpy⟩
    · simp [List.takeWhile_cons, hp]

theorem takeWhile_append_pos {α} (p : α → Bool) : ∀ (l₁ l₂ : List α), (∀ x ∈ l₁, p x = true) →
    (l₁ ++ l₂).takeWhile p = l₁ ++ l₂.takeWhile p := by
  intro l₁
  induction l₁ with
  | nil => intro l₂ _; rfl
  | cons x t ih =>
    intro l₂ h
    simp only [List.cons_append, List.takeWhile_cons, h x (by simp), if_true]
    congr 1
    exact ih l₂ (fun y hy => h y (by simp [hy]))

theorem trail_cons (c : Nat) (t : Bytes) :
    trail (c :: t) = if t.all (· == 48) then (if c = 48 then t.length + 1 else t.length) else trail t := by
  unfold trail
  rw [List.reverse_cons]
  by_cases h : t.all (· == 48) = true
  · have hall : ∀ x ∈ t.reverse, (x == 48) = true := by
      intro x hx; exact List.all_eq_true.1 h x (List.mem_reverse.1 hx)
    rw [takeWhile_append_pos _ _ _ hall]
    by_cases hc : c = 48 <;> simp [h, hc]
  · have : ∃ x ∈ t.reverse, (x == 48) = false := by
      have h' : t.all (· == 48) = false := by simpa using h
      rw [List.all_eq_false] at h'
      obtain ⟨x, hx, hpx⟩ := h'
      exact ⟨x, List.mem_reverse.2 hx, by simpa using hpx⟩
    rw [takeWhile_append_neg _ _ _ this]
    simp [h]

/-- the digits that count: all of them once the mantissa is non-zero, else those from the first non-zero one -/
def eff (m : Nat) (ds : Bytes) : Bytes := if m ≠ 0 then ds else ds.dropWhile (· == 48)

def manFold (m : Nat) (ds : Bytes) : Nat := ds.foldl (fun acc c => acc * 10 + (c - 48)) m

theorem eff_cons_pos (m c : Nat) (t : Bytes) (hc : IsDig c) (hm : m * 10 + (c - 48) ≠ 0) :
    eff m (c :: t) = c :: t ∧ eff (m * 10 + (c - 48)) t = t := by
  unfold IsDig at hc
  constructor
  · unfold eff
    by_cases h0 : m ≠ 0
    · rw [if_pos h0]
    · have : c ≠ 48 := by omega
      rw [if_neg h0, List.dropWhile_cons]
      simp [this]
  · unfold eff; rw [if_pos hm]

theorem eff_cons_neg (m c : Nat) (t : Bytes) (hc : IsDig c) (hm : ¬ m * 10 + (c - 48) ≠ 0) :
    eff m (c :: t) = eff (m * 10 + (c - 48)) t := by
  unfold IsDig at hc
  have hm0 : m = 0 := by omega
  have hc48 : c = 48 := by omega
  subst hm0 hc48
  simp [eff, List.dropWhile_cons]

/-- a run of digits after the decimal point -/
theorem fold_frac : ∀ (ds : Bytes) (s : Scan), s.foundPoint = true → (∀ c ∈ ds, IsDig c) →
    ds.foldl digitStep s =
      { s with mantissa := manFold s.mantissa ds, exp10 := s.exp10 - ds.length,
               digits := s.digits + (eff s.mantissa ds).length,
               zeros := if (eff s.mantissa ds).all (· == 48) then s.zeros + (eff s.mantissa ds).length
                        else trail (eff s.mantissa ds) } := by
  intro ds
  induction ds with
  | nil => intro s _ _; simp [eff, manFold]
  | cons c t ih =>
    intro s hp hd
    have hc : IsDig c := hd c (by simp)
    have ht : ∀ x ∈ t, IsDig x := fun x hx => hd x (by simp [hx])
    rw [List.foldl_cons]
    by_cases hm : s.mantissa * 10 + (c - 48) ≠ 0
    · obtain ⟨e1, e2⟩ := eff_cons_pos s.mantissa c t hc hm
      rw [digitStep_pos s c hm, ih _ (by simp [hp]) ht]
      simp only [e1, e2, trail_cons, hp, if_true, true_and]
      simp only [manFold, List.foldl_cons, List.length_cons, List.all_cons, Scan.mk.injEq, true_and]
      repeat' apply And.intro
      all_goals first | trivial | omega | (push_cast; omega) | skip
      by_cases hc48 : c = 48 <;> by_cases hall : t.all (· == 48) = true <;> simp [hc48, hall] <;> omega
    · have e := eff_cons_neg s.mantissa c t hc hm
      rw [digitStep_neg s c hm, ih _ (by simp [hp]) ht]
      simp only [e, hp, if_true]
      simp only [manFold, List.foldl_cons, List.length_cons, Scan.mk.injEq, true_and]
      repeat' apply And.intro
      all_goals first | trivial | omega | (push_cast; omega)

/-- a run of digits before the decimal point -/
theorem fold_int : ∀ (ds : Bytes) (s : Scan), s.foundPoint = false → s.zeros = 0 → (∀ c ∈ ds, IsDig c) →
    ds.foldl digitStep s =
      { s with mantissa := manFold s.mantissa ds, digits := s.digits + (eff s.mantissa ds).length } := by
  intro ds
  induction ds with
  | nil => intro s _ _ _; simp [eff, manFold]
  | cons c t ih =>
    intro s hp hz hd
    have hc : IsDig c := hd c (by simp)
    have ht : ∀ x ∈ t, IsDig x := fun x hx => hd x (by simp [hx])
    rw [List.foldl_cons]
    by_cases hm : s.mantissa * 10 + (c - 48) ≠ 0
    · obtain ⟨e1, e2⟩ := eff_cons_pos s.mantissa c t hc hm
      rw [digitStep_pos s c hm, ih _ (by simp [hp]) (by simp [hp]) ht]
      simp only [e1, e2, hp, Bool.false_eq_true, if_false, false_and]
      simp only [manFold, List.foldl_cons, List.length_cons, Scan.mk.injEq, true_and]
      repeat' apply And.intro
      all_goals first | trivial | omega | skip
    · have e := eff_cons_neg s.mantissa c t hc hm
      rw [digitStep_neg s c hm, ih _ (by simp [hp]) (by simp [hz]) ht]
      simp only [e, hp, Bool.false_eq_true, if_false]
      simp only [manFold, List.foldl_cons]


/-! ### the first character, blanks, the exponent phase -/

theorem step_first (a : Bool) (s : Scan) (c : Nat) (hs : s.foundSign = false) (hb : isBlank c = false)
    (h43 : c ≠ 43) (h45 : c ≠ 45) : step a s c = step a { s with foundSign := true } c := by
  unfold step
  simp [hb, hs, h43, h45]

theorem step_sign (a : Bool) (s : Scan) (c : Nat) (hs : s.foundSign = false) (hc : c = 43 ∨ c = 45) :
    step a s c = .cont { s with foundSign := true, neg := c == 45 } := by
  have hb : isBlank c = false := by
    rcases hc with rfl | rfl <;> simp [isBlank, PcbV.Gen.DecConsts.blanks]
  have hsep : isSeparator c = false := by
    rcases hc with rfl | rfl <;> simp [isSeparator, PcbV.Gen.DecConsts.separators]
  unfold step
  rcases hc with rfl | rfl <;> simp [hb, hsep, hs]

theorem scanLoop_blanks (a : Bool) : ∀ (w : Bytes) (s : Scan),
    scanLoop a w s = scanLoop a (w.filter (fun c => !isBlank c)) s := by
  intro w
  induction w with
  | nil => intro s; rfl
  | cons c t ih =>
    intro s
    by_cases hb : isBlank c = true
    · rw [List.filter_cons_of_neg (by simp [hb])]
      rw [← ih s]
      simp [scanLoop, step, hb]
    · rw [List.filter_cons_of_pos (by simp [hb])]
      simp only [scanLoop]
      split <;> first | exact ih _ | rfl

/-- what the exponent phase cannot change any more -/
def Keep (s s' : Scan) : Prop :=
  s'.foundSign = s.foundSign ∧ s'.foundExp = s.foundExp ∧ s'.isDouble = s.isDouble ∧ s'.isSingle = s.isSingle ∧
  s'.digits = s.digits ∧ s'.zeros = s.zeros ∧ s'.mantissa = s.mantissa ∧ s'.neg = s.neg ∧ s'.exp10 = s.exp10

theorem Keep.refl (s : Scan) : Keep s s := by simp [Keep]

theorem Keep.trans {a b c : Scan} (h1 : Keep a b) (h2 : Keep b c) : Keep a c := by
  unfold Keep at *
  obtain ⟨a1, a2, a3, a4, a5, a6, a7, a8, a9⟩ := h1
  obtain ⟨b1, b2, b3, b4, b5, b6, b7, b8, b9⟩ := h2
  exact ⟨b1.trans a1, b2.trans a2, b3.trans a3, b4.trans a4, b5.trans a5, b6.trans a6, b7.trans a7,
    b8.trans a8, b9.trans a9⟩

theorem stepExpDigit_keep (a : Bool) (s0 s : Scan) (c : Nat) (h : Keep s0 s) :
    match stepExpDigit a s c with
    | .cont s' => Keep s0 s'
    | .stop s' => Keep s0 s'
    | _ => True := by
  unfold stepExpDigit
  by_cases hd : isDigit c = true
  · simp only [hd, if_true]; simpa [Keep] using h
  · cases a
    · simp [hd]
    · simp only [hd, Bool.false_eq_true, if_false, if_true]; exact h

theorem step_exp_keep (a : Bool) (s : Scan) (c : Nat) (hs : s.foundSign = true) (he : s.foundExp = true) :
    match step a s c with
    | .cont s' => Keep s s'
    | .stop s' => Keep s s'
    | _ => True := by
  unfold step
  by_cases hb : isBlank c = true
  · simp [hb, Keep]
  · by_cases hsep : isSeparator c = true
    · simp [hb, hsep]
    · simp only [hb, hsep, hs, he, Bool.false_eq_true, if_false, Bool.not_true, Bool.false_and, Bool.not_false]
      by_cases hes : s.foundExpSign = true
      · simp only [hes, Bool.not_true, Bool.false_eq_true, if_false]
        exact stepExpDigit_keep a s _ c (by simp [Keep, hs, he])
      · simp only [hes, Bool.not_false, if_true]
        by_cases hc : c = 43 ∨ c = 45
        · simp [hc, Keep, hs, he]
        · simp only [hc, if_false]
          exact stepExpDigit_keep a s _ c (by simp [Keep, hs, he])

theorem scanLoop_exp_keep (a : Bool) : ∀ (w : Bytes) (s st : Scan), s.foundSign = true → s.foundExp = true →
    scanLoop a w s = .fin st → Keep s st := by
  intro w
  induction w with
  | nil => intro s st _ _ h; simp [scanLoop] at h; subst h; exact Keep.refl s
  | cons c t ih =>
    intro s st hs he h
    have k := step_exp_keep a s c hs he
    simp only [scanLoop] at h
    cases hstep : step a s c with
    | cont s' =>
      rw [hstep] at h k
      simp only at h k
      exact Keep.trans k (ih s' st (by rw [k.1, hs]) (by rw [k.2.1, he]) h)
    | stop s' =>
      rw [hstep] at h k
      simp only at h k
      injection h with h; subst h; exact k
    | zero => rw [hstep] at h; simp at h
    | nonnum => rw [hstep] at h; simp at h


/-! ### list facts about leading / trailing zeros -/

def dz (l : Bytes) : Bytes := l.dropWhile (· == 48)

theorem manFold_eq_zero : ∀ (ds : Bytes) (m : Nat), (∀ c ∈ ds, IsDig c) →
    (manFold m ds = 0 ↔ m = 0 ∧ ds.all (· == 48) = true) := by
  intro ds
  induction ds with
  | nil => intro m _; simp [manFold]
  | cons c t ih =>
    intro m hd
    have hc : IsDig c := hd c (by simp)
    unfold IsDig at hc
    have := ih (m * 10 + (c - 48)) (fun x hx => hd x (by simp [hx]))
    simp only [manFold, List.foldl_cons] at this ⊢
    rw [this]
    simp only [List.all_cons, Bool.and_eq_true, beq_iff_eq]
    constructor
    · rintro ⟨h1, h2⟩; exact ⟨by omega, by omega, h2⟩
    · rintro ⟨h1, h2, h3⟩; exact ⟨by omega, h3⟩

theorem dz_append_zero : ∀ (ip fp : Bytes), ip.all (· == 48) = true → dz (ip ++ fp) = dz fp := by
  intro ip
  induction ip with
  | nil => intro fp _; rfl
  | cons c t ih =>
    intro fp h
    simp only [List.all_cons, Bool.and_eq_true] at h
    simp only [dz, List.cons_append, List.dropWhile_cons, h.1, if_true]
    exact ih fp h.2

theorem dz_append_nonzero : ∀ (ip fp : Bytes), ip.all (· == 48) = false → dz (ip ++ fp) = dz ip ++ fp := by
  intro ip
  induction ip with
  | nil => intro fp h; simp at h
  | cons c t ih =>
    intro fp h
    by_cases hc : (c == 48) = true
    · have ht : t.all (· == 48) = false := by
        simp only [List.all_cons, hc, Bool.true_and] at h; exact h
      simp only [dz, List.cons_append, List.dropWhile_cons, hc, if_true]
      exact ih fp ht
    · simp [dz, List.dropWhile_cons, hc]

theorem dz_nil_iff (l : Bytes) : dz l = [] ↔ l.all (· == 48) = true := by
  induction l with
  | nil => simp [dz]
  | cons c t ih =>
    by_cases hc : (c == 48) = true
    · simp only [dz, List.dropWhile_cons, hc, if_true, List.all_cons, Bool.true_and]; exact ih
    · simp [dz, List.dropWhile_cons, hc]

theorem trail_all_zero : ∀ (l : Bytes), l.all (· == 48) = true → trail l = l.length := by
  intro l
  induction l with
  | nil => intro _; rfl
  | cons c t ih =>
    intro h
    simp only [List.all_cons, Bool.and_eq_true, beq_iff_eq] at h
    rw [trail_cons]
    simp [h.1, h.2]

theorem trail_dz : ∀ (l : Bytes), dz l ≠ [] → trail (dz l) = trail l := by
  intro l
  induction l with
  | nil => intro h; simp [dz] at h
  | cons c t ih =>
    intro h
    by_cases hc : (c == 48) = true
    · have e : dz (c :: t) = dz t := by simp [dz, List.dropWhile_cons, hc]
      rw [e] at h ⊢
      have hna : ¬ t.all (· == 48) = true := fun ha => h ((dz_nil_iff t).2 ha)
      rw [trail_cons, if_neg hna]
      exact ih h
    · have e : dz (c :: t) = c :: t := by simp [dz, List.dropWhile_cons, hc]
      rw [e]

theorem dz_not_all_zero (l : Bytes) (h : dz l ≠ []) : ¬ (dz l).all (· == 48) = true := by
  induction l with
  | nil => simp [dz] at h
  | cons c t ih =>
    by_cases hc : (c == 48) = true
    · have e : dz (c :: t) = dz t := by simp [dz, List.dropWhile_cons, hc]
      rw [e] at h ⊢; exact ih h
    · have e : dz (c :: t) = c :: t := by simp [dz, List.dropWhile_cons, hc]
      rw [e]; simp [hc]


/-! ### helper lemmas of Props/C07 -/

/-- significant digits of the mantissa `ip.fp` as the statement counts them: from the first non-zero
    digit on, not counting zeros at the end of the fractional part -/
def sigCount (ip fp : Bytes) : Nat := ((ip ++ fp).dropWhile (· == 48)).length - trail fp

theorem step_point (a : Bool) (s : Scan) (hs : s.foundSign = true) (he : s.foundExp = false) :
    step a s 46 = .cont { s with foundPoint := true } := by
  unfold step
  have hb : isBlank 46 = false := by simp [isBlank, PcbV.Gen.DecConsts.blanks]
  have hp : isSeparator 46 = false := by simp [isSeparator, PcbV.Gen.DecConsts.separators]
  have hd : isDigit 46 = false := by simp [isDigit]
  simp [hb, hp, hd, hs, he]

theorem scan_start (a : Bool) (sg : Bytes) (h : Nat) (t : Bytes)
    (hsg : sg = [] ∨ sg = [43] ∨ sg = [45]) (hb : isBlank h = false) (h43 : h ≠ 43) (h45 : h ≠ 45) :
    scanLoop a (sg ++ h :: t) {} = scanLoop a (h :: t) { foundSign := true, neg := sg == [45] } := by
  rcases hsg with rfl | rfl | rfl
  · simp only [List.nil_append, scanLoop]
    rw [step_first a {} h rfl hb h43 h45]
    rfl
  · simp only [List.singleton_append, scanLoop, step_sign a {} 43 rfl (Or.inl rfl)]
    rfl
  · simp only [List.singleton_append, scanLoop, step_sign a {} 45 rfl (Or.inr rfl)]
    rfl

theorem manFold_append (m : Nat) (a b : Bytes) : manFold (manFold m a) b = manFold m (a ++ b) := by
  simp [manFold, List.foldl_append]

theorem sig_int (ip : Bytes) :
    (0 + (eff 0 ip).length) - 0 = sigCount ip [] := by
  simp [sigCount, trail, eff]

theorem sig_frac (ip fp : Bytes) (hip : ∀ c ∈ ip, IsDig c) :
    (0 + (eff 0 ip).length + (eff (manFold 0 ip) fp).length) -
      (if (eff (manFold 0 ip) fp).all (· == 48) = true then 0 + (eff (manFold 0 ip) fp).length
       else trail (eff (manFold 0 ip) fp)) = sigCount ip fp := by
  have hM0 := manFold_eq_zero ip 0 hip
  simp only [sigCount]
  by_cases hz : manFold 0 ip = 0
  · have hall := (hM0.1 hz).2
    have e0 : eff 0 ip = [] := by
      simp only [eff, ne_eq, not_true_eq_false, if_false]; exact (dz_nil_iff ip).2 hall
    have e1 : eff (manFold 0 ip) fp = dz fp := by simp [eff, hz, dz]
    have e2 : (ip ++ fp).dropWhile (· == 48) = dz fp := dz_append_zero ip fp hall
    rw [e0, e1, e2]
    by_cases hd : dz fp = []
    · simp [hd]
    · rw [if_neg (dz_not_all_zero fp hd), trail_dz fp hd]; simp
  · have hna : ip.all (· == 48) = false := by
      cases h : ip.all (· == 48) with
      | false => rfl
      | true => exact absurd (hM0.2 ⟨rfl, h⟩) hz
    have e0 : eff 0 ip = dz ip := by simp [eff, dz]
    have e1 : eff (manFold 0 ip) fp = fp := by simp [eff, hz]
    have e2 : (ip ++ fp).dropWhile (· == 48) = dz ip ++ fp := dz_append_nonzero ip fp hna
    rw [e0, e1, e2, List.length_append]
    by_cases hf : fp.all (· == 48) = true
    · rw [if_pos hf, trail_all_zero fp hf]; omega
    · rw [if_neg hf]; omega

theorem step_sigil (a : Bool) (st : Scan) (hs : st.foundSign = true) (he : st.foundExp = false) :
    step a st 33 = .stop { st with isSingle := true } ∧ step a st 35 = .stop { st with isDouble := true } := by
  constructor <;>
    simp [step, isBlank, isSeparator, isDigit, upper, PcbV.Gen.DecConsts.blanks,
      PcbV.Gen.DecConsts.separators, hs, he]

theorem step_expletter (a : Bool) (st : Scan) (l : Nat) (hs : st.foundSign = true)
    (he : st.foundExp = false) (hl : l = 68 ∨ l = 69 ∨ l = 100 ∨ l = 101) :
    step a st l = .cont { st with foundExp := true, isDouble := upper l == 68 } := by
  rcases hl with rfl | rfl | rfl | rfl <;>
    simp [step, isBlank, isSeparator, isDigit, upper, PcbV.Gen.DecConsts.blanks,
      PcbV.Gen.DecConsts.separators, hs, he]

theorem dropWhile_digits (p : Nat → Bool) (hp : ∀ c, IsDig c → p c = false) (l : Bytes)
    (hl : ∀ c ∈ l, IsDig c) : l.dropWhile p = l := by
  cases l with
  | nil => rfl
  | cons c t => simp [List.dropWhile_cons, hp c (hl c (by simp))]

theorem map_upper_digits (l : Bytes) (hl : ∀ c ∈ l, IsDig c) : l.map upper = l := by
  induction l with
  | nil => rfl
  | cons c t ih =>
    have hc := hl c (by simp)
    unfold IsDig at hc
    have : upper c = c := by unfold upper; simp; omega
    simp [this, ih (fun x hx => hl x (by simp [hx]))]

theorem strip_digits (l : Bytes) (hl : ∀ c ∈ l, IsDig c) : strip isBlank l = l := by
  unfold strip
  rw [dropWhile_digits isBlank (fun c h => dig_not_blank h) l hl,
    dropWhile_digits isBlank (fun c h => dig_not_blank h) l.reverse (fun c hc => hl c (List.mem_reverse.1 hc)),
    List.reverse_reverse]


end PcbV.Decimal
