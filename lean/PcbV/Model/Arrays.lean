import PcbV.Basic
import PcbV.Gen.Errors
/-
  PcbV.Model.Arrays — transcription of pcbasic/basic/memory/arrays.py (class Arrays):
  index, flat_length, allocate, check_dim, view_buffer/get/set, erase_, dim_, option_base_,
  clear, clear_base, and of Memory.clear (as reached by CLEAR/NEW/RUN: preserve_base = False).

  Abstractions (each is named in props/c12.py: ASSUMPTIONS / TRUSTED_BASE):
  * an array name (bytes, with sigil) is a `Nat` identifier; `_dims`, `_buffers`,
    `_array_memory` (three dicts with the same key set, insertion-ordered) are one association list;
  * a buffer of `flat_length * size_bytes` bytes is a list of `flat_length` cells holding an `Int`
    (the byte slice `[big*size : (big+1)*size]` is cell number `big`); a fresh buffer is all zero;
  * `Memory.check_free` (Out of memory) is not modelled: the model describes arrays that fit;
  * `Arrays.current` / `_array_memory` pointers (memory map, C11) are not modelled.
-/
namespace PcbV.Arrays
open PcbV PcbV.Gen

/-- `Arrays.index`: the loop as coded, with its two accumulators `area` and `bigindex`.
    `dimensions[i]` beyond the end would be a Python IndexError; `check_dim` has compared the
    ranks before any caller gets here, the model stops the loop there. -/
def indexLoop (base : Int) : Int → Int → List Int → List Int → Int
  | _, big, [], _ => big
  | _, big, _ :: _, [] => big
  | area, big, i :: is, d :: ds =>
      indexLoop base (area * (d + 1 - base)) (big + area * (i - base)) is ds

def index (base : Int) (idx dims : List Int) : Int := indexLoop base 1 0 idx dims

/-- `Arrays.flat_length` -/
def flatLength (base : Int) (dims : List Int) : Int := index base dims dims + 1

structure Arr where
  dims : List Int
  cells : List Int
deriving DecidableEq, Repr

structure State where
  /-- `_dims` / `_buffers`, insertion order -/
  arrs : List (Nat × Arr)
  /-- `_base` (`none` = unset) -/
  base : Option Int
  /-- `_base_set_by_dim` -/
  byDim : Bool
deriving DecidableEq, Repr

/-- `Arrays.__init__`: `clear()` and `clear_base()` -/
def State.init : State := ⟨[], none, false⟩

def find (n : Nat) : List (Nat × Arr) → Option Arr
  | [] => none
  | (m, a) :: rest => if m = n then some a else find n rest

def remove (n : Nat) : List (Nat × Arr) → List (Nat × Arr)
  | [] => []
  | (m, a) :: rest => if m = n then remove n rest else (m, a) :: remove n rest

/-- `self._buffers[name][...] = ...` : replace the entry of an existing key (order kept) -/
def update (n : Nat) (a' : Arr) : List (Nat × Arr) → List (Nat × Arr)
  | [] => []
  | (m, a) :: rest => if m = n then (m, a') :: rest else (m, a) :: update n a' rest

/-- `Arrays.clear_base` -/
def clearBase (st : State) : State := { st with base := none, byDim := false }

/-- `Memory.clear(preserve_base=False, …)` restricted to the arrays: `arrays.clear()` + `clear_base()` -/
def clearAll (_ : State) : State := State.init

/-- `Arrays.option_base_` (the parser only lets the characters `0` and `1` through) -/
def optionBase (st : State) (b : Int) : State × Option Nat :=
  match st.base with
  | some cur => if b ≠ cur then (st, some E.duplicate_definition) else ({ st with base := some b }, none)
  | none => ({ st with base := some b }, none)

def anyLt (k : Int) : List Int → Bool
  | [] => false
  | d :: ds => decide (d < k) || anyLt k ds

/-- the tail of `allocate` once the base is known: new zero-filled buffer, appended to the dicts -/
def addArray (st : State) (b : Int) (name : Nat) (dims : List Int) : State :=
  { st with arrs := st.arrs ++ [(name, ⟨dims, List.replicate (flatLength b dims).toNat 0⟩)] }

/-- `Arrays.allocate` (without `check_free`) -/
def allocate (st : State) (name : Nat) (dims : List Int) : State × Option Nat :=
  if dims = [] then (st, none)                                   -- DIM A does nothing
  else if (find name st.arrs).isSome then (st, some E.duplicate_definition)
  else if anyLt 0 dims then (st, some E.ifc)                      -- does not set the base
  else match st.base with
    | none => (addArray { st with base := some 0, byDim := true } 0 name dims, none)
    | some b =>
      if anyLt b dims then (st, some E.subscript_out_of_range)
      else (addArray st b name dims, none)

/-- the `for i, d in zip(index, dimensions)` loop of `check_dim` -/
def checkLoop (base : Int) : List Int → List Int → Option Nat
  | i :: is, d :: ds =>
      if i < 0 then some E.ifc
      else if i < base ∨ i > d then some E.subscript_out_of_range
      else checkLoop base is ds
  | _, _ => none

def checkBounds (base : Int) (idx dims : List Int) : Option Nat :=
  if idx.length ≠ dims.length then some E.subscript_out_of_range else checkLoop base idx dims

/-- the value of `self._base` where the code uses it arithmetically; it is never `None` there
    (theorem `C12.wf_step`: arrays exist only while a base is set) -/
def State.b (st : State) : Int := st.base.getD 0

/-- `Arrays.check_dim`: returns the (possibly auto-dimensioned) state and the array or the error.
    An empty index list never reaches `check_dim` (Memory routes it to the scalars); with it the
    Python code would fail with a KeyError after the no-op `allocate`, reported as Internal error. -/
def checkDim (st : State) (name : Nat) (idx : List Int) : State × R Arr :=
  match find name st.arrs with
  | some a =>
    match checkBounds st.b idx a.dims with
    | some e => (st, .error e)
    | none => (st, .ok a)
  | none =>
    let dims := idx.map (fun _ => (10 : Int))
    match allocate st name dims with
    | (st', some e) => (st', .error e)
    | (st', none) =>
      match find name st'.arrs with
      | none => (st', .error E.internal_error)
      | some a =>
        match checkBounds st'.b idx a.dims with
        | some e => (st', .error e)
        | none => (st', .ok a)

/-- `Arrays.get` (through `view_buffer`) -/
def get (st : State) (name : Nat) (idx : List Int) : State × R Int :=
  match checkDim st name idx with
  | (st', .error e) => (st', .error e)
  | (st', .ok a) => (st', .ok (a.cells.getD (index st'.b idx a.dims).toNat 0))

/-- `Arrays.set` (through `view_buffer`) -/
def set (st : State) (name : Nat) (idx : List Int) (v : Int) : State × Option Nat :=
  match checkDim st name idx with
  | (st', .error e) => (st', some e)
  | (st', .ok a) =>
    ({ st' with arrs := update name ⟨a.dims, a.cells.set (index st'.b idx a.dims).toNat v⟩ st'.arrs }, none)

/-- the `for name in args` loop of `erase_` -/
def eraseLoop (st : State) : List Nat → State × Option Nat
  | [] => (st, none)
  | n :: ns =>
    match find n st.arrs with
    | none => (st, some E.ifc)
    | some _ => eraseLoop { st with arrs := remove n st.arrs } ns

/-- `Arrays.erase_` -/
def erase (st : State) (names : List Nat) : State × Option Nat :=
  match eraseLoop st names with
  | (st', some e) => (st', some e)
  | (st', none) => if st'.arrs.isEmpty && st'.byDim then (clearBase st', none) else (st', none)

/-- `Arrays.dim_` -/
def dim (st : State) : List (Nat × List Int) → State × Option Nat
  | [] => (st, none)
  | (n, d) :: rest =>
    match allocate st n d with
    | (st', some e) => (st', some e)
    | (st', none) => dim st' rest

/-! ### statements with several array references (Memory.let_, Memory.swap_) -/

/-- the array elements read by a right-hand side, in evaluation (textual) order; the value is their
    sum; every read goes through `Arrays.get` (so it may auto-dimension, or raise) -/
def evalSrcs (st : State) : List (Nat × List Int) → State × R Int
  | [] => (st, .ok 0)
  | (n, idx) :: rest =>
    match get st n idx with
    | (st', .error e) => (st', .error e)
    | (st', .ok v) =>
      match evalSrcs st' rest with
      | (st'', .error e) => (st'', .error e)
      | (st'', .ok w) => (st'', .ok (v + w))

/-- `Memory.let_` with an array element on the left: `name, indices = next(args)`, `_preallocate`
    (= `check_dim` on the LEFT-hand side, before anything of the right-hand side is evaluated),
    `value = next(args)` (the right-hand side: the reads `srcs`, a constant `c`, and possibly an
    error `fail` raised after the reads — Type mismatch, Overflow on conversion), `arrays.set`. -/
def letFrom (st : State) (n : Nat) (idx : List Int) (srcs : List (Nat × List Int)) (c : Int)
    (fail : Option Nat) : State × Option Nat :=
  match checkDim st n idx with
  | (st1, .error e) => (st1, some e)
  | (st1, .ok _) =>
    match evalSrcs st1 srcs with
    | (st2, .error e) => (st2, some e)
    | (st2, .ok v) =>
      match fail with
      | some e => (st2, some e)
      | none => set st2 n idx (v + c)

/-- `Memory.swap_` on two array elements of the same type: `_view_buffer` of the first, then of the
    second (each through `check_dim`), then the contents are exchanged -/
def swap (st : State) (n : Nat) (idx : List Int) (m : Nat) (idx2 : List Int) : State × Option Nat :=
  match checkDim st n idx with
  | (st1, .error e) => (st1, some e)
  | (st1, .ok _) =>
    match checkDim st1 m idx2 with
    | (st2, .error e) => (st2, some e)
    | (st2, .ok _) =>
      match (get st2 n idx).2, (get st2 m idx2).2 with
      | .ok va, .ok vb => set (set st2 n idx vb).1 m idx2 va
      | _, _ => (st2, some E.internal_error)

/-! ### histories -/

inductive Op where
  | optionBase (one : Bool)
  | dim (l : List (Nat × List Int))
  | erase (l : List Nat)
  | get (n : Nat) (idx : List Int)
  | set (n : Nat) (idx : List Int) (v : Int)
  | clear
deriving Repr

inductive Out where
  | done
  | val (v : Int)
  | err (e : Nat)
deriving DecidableEq, Repr

def outOf : Option Nat → Out
  | none => .done
  | some e => .err e

def step (st : State) : Op → State × Out
  | .optionBase one => let r := optionBase st (if one then 1 else 0); (r.1, outOf r.2)
  | .dim l => let r := dim st l; (r.1, outOf r.2)
  | .erase l => let r := erase st l; (r.1, outOf r.2)
  | .get n idx =>
    match get st n idx with
    | (st', .ok v) => (st', .val v)
    | (st', .error e) => (st', .err e)
  | .set n idx v => let r := set st n idx v; (r.1, outOf r.2)
  | .clear => (clearAll st, .done)

def run (st : State) : List Op → State × List Out
  | [] => (st, [])
  | op :: ops =>
    let (st', o) := step st op
    let (st'', os) := run st' ops
    (st'', o :: os)

end PcbV.Arrays
