import PcbV.Lemmas.C04Rat
/-
  C04 lemmas, part 3: `_add_den` for ARBITRARY exponent differences.  `addCore_cases` describes the
  denormalised sum in natural numbers through the truncated aligned mantissa `q = 256a / 2^sh` and
  the lost bits `rm = 256a % 2^sh` (shortcut, GW-BASIC subtraction quirk, sticky bit, carry);
  `addDen_dval` turns it into a bound of 128 units of the denormalised result (half an ulp of the
  larger operand) on the distance from the exact sum; `normD_error` adds the rounding of `_normalise`.
-/
namespace PcbV.Mbf.C04
open PcbV PcbV.Mbf

/-- a denormalised stored non-zero value: mantissa 256·a with a in [S, 2S), exponent byte 1..255 -/
def SD (f : Fmt) (d : Den) : Prop :=
  ∃ a : Nat, d.man = 256 * a ∧ f.signMask ≤ a ∧ a < 2 * f.signMask ∧ 0 < d.exp

theorem addCore_cases (f : Fmt) (h : f.WF) (el er : Int) (a b : Nat) (nl nr : Bool)
    (hel : 0 < el) (hle : el ≤ er)
    (ha1 : f.signMask ≤ a) (ha2 : a < 2 * f.signMask) (hb1 : f.signMask ≤ b) (hb2 : b < 2 * f.signMask)
    (hord : el = er → a ≤ b) :
    ∃ (m' c : Nat), c ≤ 1 ∧
      addCore f ⟨el, 256 * a, nl⟩ ⟨er, 256 * b, nr⟩ = ⟨er + c, m', if nl = nr then nl else nr⟩ ∧
      m' < f.denUpper ∧ 128 * f.signMask ≤ m' + 128 * f.signMask ∧
      (nl ≠ nr → c = 0 ∧ 256 * a / 2 ^ (er - el).toNat ≤ 256 * b ∧
        ((m' = 256 * b ∧ (256 * a / 2 ^ (er - el).toNat < 128 ∨
            (256 * a / 2 ^ (er - el).toNat = 128 ∧ 256 * a % 2 ^ (er - el).toNat = 0))) ∨
         (m' = 256 * b - 256 * a / 2 ^ (er - el).toNat ∧
            (256 * a % 2 ^ (er - el).toNat ≠ 0 → 128 * f.signMask ≤ m')) ∨
         (m' + 128 = 256 * b - 256 * a / 2 ^ (er - el).toNat ∧ 128 * f.signMask ≤ m'))) ∧
      (nl = nr → 256 * f.signMask ≤ m' ∧
        (c = 0 → 256 * a / 2 ^ (er - el).toNat + 256 * b ≤ m' ∧
                 m' ≤ 256 * a / 2 ^ (er - el).toNat + 256 * b + 1) ∧
        (c = 1 → 256 * a / 2 ^ (er - el).toNat + 256 * b ≤ 2 * m' + 1 ∧
                 2 * m' ≤ 256 * a / 2 ^ (er - el).toNat + 256 * b + 2)) := by
  obtain ⟨hS, _, _, hdm, hdu, _, _, _⟩ := wf_S f h
  obtain ⟨t, ht⟩ : ∃ t, f.signMask = 128 * t := by
    obtain ⟨h8, _, _, _, _, hs, _, _⟩ := h
    refine ⟨2 ^ (f.w - 8), ?_⟩
    rw [hs, show f.w - 1 = 7 + (f.w - 8) by omega, Nat.pow_add]
  have hq0 : (er - el).toNat = 0 → 256 * a / 2 ^ (er - el).toNat = 256 * a := by
    intro h0; rw [h0]; simp
  have hq1 : (er - el).toNat = 1 → 256 * a / 2 ^ (er - el).toNat = 128 * a := by
    intro h0; rw [h0]; omega
  have hq2 : 2 ≤ (er - el).toNat → 256 * a / 2 ^ (er - el).toNat ≤ 64 * a := by
    intro h0
    have : 2 ^ 2 ≤ 2 ^ (er - el).toNat := Nat.pow_le_pow_right (by decide) h0
    have := Nat.div_le_div_left (a := 256 * a) this (by decide)
    omega
  have hq9 : 9 ≤ (er - el).toNat → 2 * (256 * a / 2 ^ (er - el).toNat) ≤ a := by
    intro h0
    have : 2 ^ 9 ≤ 2 ^ (er - el).toNat := Nat.pow_le_pow_right (by decide) h0
    have := Nat.div_le_div_left (a := 256 * a) this (by decide)
    omega
  have hrm : (er - el).toNat ≤ 8 → 256 * a % 2 ^ (er - el).toNat = 0 := by
    intro h0
    have : 2 ^ (er - el).toNat ∣ 2 ^ 8 := Nat.pow_dvd_pow 2 h0
    exact Nat.mod_eq_zero_of_dvd (Dvd.dvd.mul_right this a)
  have hsh0 : (er - el).toNat = 0 → a ≤ b := fun h0 => hord (by omega)
  unfold addCore
  simp only []
  generalize (er - el).toNat = sh at *
  generalize 256 * a / 2 ^ sh = q at *
  generalize 256 * a % 2 ^ sh = rm at *
  by_cases hs : nl = nr
  · subst hs
    simp only [bne_self_eq_false, Bool.false_eq_true, and_false, if_false, Bool.not_false, if_true,
      false_and, ne_eq, not_true_eq_false, IsEmpty.forall_iff, true_and]
    by_cases hc : q + 256 * b ≥ f.denUpper
    · simp only [hc, if_true]
      by_cases hz : rm = 0
      · refine ⟨(q + 256 * b) / 2, 1, by omega, ?_, by omega, by omega, fun _ => ⟨by omega, by omega, by omega⟩⟩
        simp [hz]
      · by_cases hev : (q + 256 * b) / 2 % 2 = 0
        · refine ⟨(q + 256 * b) / 2 + 1, 1, by omega, ?_, by omega, by omega, fun _ => ⟨by omega, by omega, by omega⟩⟩
          simp [hz, hev]
        · refine ⟨(q + 256 * b) / 2, 1, by omega, ?_, by omega, by omega, fun _ => ⟨by omega, by omega, by omega⟩⟩
          simp [hz, hev]
    · simp only [hc, if_false]
      by_cases hz : rm = 0
      · refine ⟨q + 256 * b, 0, by omega, ?_, by omega, by omega, fun _ => ⟨by omega, by omega, by omega⟩⟩
        simp [hz]
      · by_cases hev : (q + 256 * b) % 2 = 0
        · refine ⟨q + 256 * b + 1, 0, by omega, ?_, by omega, by omega, fun _ => ⟨by omega, by omega, by omega⟩⟩
          simp [hz, hev]
        · refine ⟨q + 256 * b, 0, by omega, ?_, by omega, by omega, fun _ => ⟨by omega, by omega, by omega⟩⟩
          simp [hz, hev]
  · have hsub : (nl != nr) = true := by cases nl <;> cases nr <;> simp_all
    have hqb : q ≤ 256 * b := by
      rcases Nat.lt_or_ge sh 1 with h0 | h0
      · have := hq0 (by omega); have := hsh0 (by omega); omega
      · rcases Nat.lt_or_ge sh 2 with h1 | h1
        · have := hq1 (by omega); omega
        · have := hq2 h1; omega
    simp only [hs, hsub, if_false, ne_eq, not_false_eq_true, true_and, Bool.not_true, Bool.false_eq_true,
      and_false, and_true, IsEmpty.forall_iff, forall_true_left]
    by_cases hsc : q < 128 ∨ (q = 128 ∧ rm = 0)
    · refine ⟨256 * b, 0, by omega, ?_, by omega, by omega, rfl, hqb, Or.inl ⟨rfl, hsc⟩⟩
      simp [hsc]
    · simp only [hsc, if_false]
      by_cases hqk : (256 * b - q) / 64 % 8 = 2 ∧ ¬ ((256 * b - q) / 64 % 8 = 2 ∧ (256 * b - q) % 32 = 0)
      · -- the subtraction quirk clears bit 7
        have hsh2 : 2 ≤ sh := by
          rcases Nat.lt_or_ge sh 1 with h0 | h0
          · have := hq0 (by omega); omega
          · rcases Nat.lt_or_ge sh 2 with h1 | h1
            · have := hq1 (by omega); omega
            · exact h1
        have := hq2 hsh2
        refine ⟨256 * b - q - 128, 0, by omega, ?_, by omega, by omega, rfl, hqb, Or.inr (Or.inr ⟨by omega, by omega⟩)⟩
        have hman : (256 * b - q) % f.denUpper / 256 * 256 + (256 * b - q) % 128 = 256 * b - q - 128 := by
          rw [Nat.mod_eq_of_lt (by omega)]; omega
        rw [if_pos hqk, hman]; simp
      · refine ⟨256 * b - q, 0, by omega, ?_, by omega, by omega, rfl, hqb, Or.inr (Or.inl ⟨rfl, ?_⟩)⟩
        · rw [if_neg hqk]; simp
        · intro hr
          have h9 : 9 ≤ sh := by
            by_contra hn
            exact hr (hrm (by omega))
          have := hq9 h9
          omega

theorem sgn_not (n : Bool) : sgn (!n) = - sgn n := by cases n <;> simp [sgn]

/-- `_add_den` on ordered operands in rational numbers: the denormalised sum is within 128 units of its
    own last place (2^(exp−bias−8)) of the exact sum, it is exact unless its mantissa is ≥ 128·S (so that
    `_normalise` shifts it by at most one bit), and it is below `den_upper` -/
theorem addCore_dval (f : Fmt) (h : f.WF) (el er : Int) (a b : Nat) (nl nr : Bool)
    (hel : 0 < el) (hle : el ≤ er)
    (ha1 : f.signMask ≤ a) (ha2 : a < 2 * f.signMask) (hb1 : f.signMask ≤ b) (hb2 : b < 2 * f.signMask)
    (hord : el = er → a ≤ b) (d : Den) (hd : d = addCore f ⟨el, 256 * a, nl⟩ ⟨er, 256 * b, nr⟩) :
    d.man < f.denUpper ∧ 0 < d.exp ∧
    |dval f d - (dval f ⟨el, 256 * a, nl⟩ + dval f ⟨er, 256 * b, nr⟩)| ≤ 128 * p2 (d.exp - f.bias - 8) ∧
    (dval f d ≠ dval f ⟨el, 256 * a, nl⟩ + dval f ⟨er, 256 * b, nr⟩ → 128 * f.signMask ≤ d.man) := by
  obtain ⟨m', c, hc, heq, hlt, _, hsub, hadd⟩ := addCore_cases f h el er a b nl nr hel hle ha1 ha2 hb1 hb2 hord
  rw [heq] at hd
  subst hd
  have hdm := Nat.div_add_mod (256 * a) (2 ^ (er - el).toNat)
  have hrl := Nat.mod_lt (256 * a) (Nat.two_pow_pos (er - el).toNat)
  have hu : p2 (er - f.bias - 8) = (2 : Rat) ^ (er - el).toNat * p2 (el - f.bias - 8) := by
    have : er - f.bias - 8 = (((er - el).toNat : Nat) : Int) + (el - f.bias - 8) := by omega
    rw [this, p2_add, p2_nat]
  generalize (er - el).toNat = sh at *
  generalize 256 * a / 2 ^ sh = q at *
  generalize 256 * a % 2 ^ sh = rm at *
  have hpl := p2_pos (el - f.bias - 8)
  have hu0 := p2_pos (er - f.bias - 8)
  have hdm' : (2 : Rat) ^ sh * q + rm = 256 * a := by exact_mod_cast hdm
  have hrl' : (rm : Rat) < (2 : Rat) ^ sh := by exact_mod_cast hrl
  -- the smaller operand in units of the larger: q·u + ρ with 0 ≤ ρ < u
  have hl : (256 * a : Rat) * p2 (el - f.bias - 8) = q * p2 (er - f.bias - 8) + rm * p2 (el - f.bias - 8) := by
    rw [hu, ← hdm']; ring
  have hρ0 : 0 ≤ (rm : Rat) * p2 (el - f.bias - 8) := mul_nonneg (Nat.cast_nonneg _) hpl.le
  have hρ1 : (rm : Rat) * p2 (el - f.bias - 8) < p2 (er - f.bias - 8) := by
    rw [hu]; exact mul_lt_mul_of_pos_right hrl' hpl
  have hρz : rm = 0 → (rm : Rat) * p2 (el - f.bias - 8) = 0 := by intro h0; rw [h0]; simp
  generalize (rm : Rat) * p2 (el - f.bias - 8) = ρ at *
  refine ⟨hlt, by show 0 < er + (c : Int); omega, ?_, ?_⟩
  · -- the distance
    unfold dval dmag
    simp only []
    push_cast
    rw [hl]
    by_cases hs : nl = nr
    · subst hs
      obtain ⟨_, h0, h1⟩ := hadd rfl
      simp only [if_true]
      rw [show sgn nl * (↑m' * p2 (er + ↑c - ↑f.bias - 8)) -
            (sgn nl * (↑q * p2 (er - ↑f.bias - 8) + ρ) + sgn nl * (256 * ↑b * p2 (er - ↑f.bias - 8)))
          = sgn nl * (↑m' * p2 (er + ↑c - ↑f.bias - 8) -
            (↑q * p2 (er - ↑f.bias - 8) + ρ + 256 * ↑b * p2 (er - ↑f.bias - 8))) by ring, abs_sgn_mul]
      rcases Nat.lt_or_ge c 1 with hc0 | hc1
      · have hc0' : c = 0 := by omega
        subst hc0'
        obtain ⟨g1, g2⟩ := h0 rfl
        have g1' : (q : Rat) + 256 * b ≤ m' := by exact_mod_cast g1
        have g2' : (m' : Rat) ≤ q + 256 * b + 1 := by exact_mod_cast g2
        have t1 := mul_le_mul_of_nonneg_right g1' hu0.le
        have t2 := mul_le_mul_of_nonneg_right g2' hu0.le
        simp only [Nat.cast_zero, add_zero]
        rw [abs_le]; constructor <;> linarith
      · have hc1' : c = 1 := by omega
        subst hc1'
        obtain ⟨g1, g2⟩ := h1 rfl
        have g1' : (q : Rat) + 256 * b ≤ 2 * m' + 1 := by exact_mod_cast g1
        have g2' : (2 * m' : Rat) ≤ q + 256 * b + 2 := by exact_mod_cast g2
        have t1 := mul_le_mul_of_nonneg_right g1' hu0.le
        have t2 := mul_le_mul_of_nonneg_right g2' hu0.le
        have e1 : p2 (er + ((1 : Nat) : Int) - f.bias - 8) = 2 * p2 (er - f.bias - 8) := by
          have : er + ((1 : Nat) : Int) - f.bias - 8 = (er - f.bias - 8) + 1 := by omega
          rw [this, p2_1]
        rw [e1]
        rw [abs_le]; constructor <;> linarith
    · have hnr : nl = !nr := by cases nl <;> cases nr <;> simp_all
      obtain ⟨hc0, hqb, hcase⟩ := hsub hs
      subst hc0
      simp only [hs, if_false, Nat.cast_zero, add_zero]
      rw [hnr, sgn_not]
      rw [show sgn nr * (↑m' * p2 (er - ↑f.bias - 8)) -
            (-sgn nr * (↑q * p2 (er - ↑f.bias - 8) + ρ) + sgn nr * (256 * ↑b * p2 (er - ↑f.bias - 8)))
          = sgn nr * (↑m' * p2 (er - ↑f.bias - 8) + (↑q * p2 (er - ↑f.bias - 8) + ρ) -
              256 * ↑b * p2 (er - ↑f.bias - 8)) by ring, abs_sgn_mul]
      rcases hcase with ⟨hm, hq⟩ | ⟨hm, _⟩ | ⟨hm, _⟩
      · have hm' : (m' : Rat) = 256 * b := by exact_mod_cast hm
        rw [hm']
        rcases hq with hq | ⟨hq, hr0⟩
        · have hq' : (q : Rat) + 1 ≤ 128 := by exact_mod_cast hq
          have t1 := mul_le_mul_of_nonneg_right hq' hu0.le
          have t0 := mul_nonneg (Nat.cast_nonneg q : (0 : Rat) ≤ q) hu0.le
          rw [abs_le]; constructor <;> linarith
        · have hq' : (q : Rat) = 128 := by exact_mod_cast hq
          have := hρz hr0
          rw [hq', this]
          rw [abs_le]; constructor <;> linarith
      · have hm' : (m' : Rat) + q = 256 * b := by
          have : m' + q = 256 * b := by omega
          exact_mod_cast this
        have t1 := congrArg (· * p2 (er - f.bias - 8)) hm'
        beta_reduce at t1
        rw [abs_le]; constructor <;> linarith
      · have hm' : (m' : Rat) + 128 + q = 256 * b := by
          have : m' + 128 + q = 256 * b := by omega
          exact_mod_cast this
        have t1 := congrArg (· * p2 (er - f.bias - 8)) hm'
        beta_reduce at t1
        rw [abs_le]; constructor <;> linarith
  · intro hne
    show 128 * f.signMask ≤ m'
    by_cases hs : nl = nr
    · have := (hadd hs).1; omega
    · obtain ⟨hc0, hqb, hcase⟩ := hsub hs
      rcases hcase with ⟨hm, _⟩ | ⟨hm, hr⟩ | ⟨_, hm⟩
      · omega
      · by_cases hr0 : rm = 0
        · exfalso
          apply hne
          have hnr : nl = !nr := by cases nl <;> cases nr <;> simp_all
          subst hc0
          unfold dval dmag
          simp only [hs, if_false, Nat.cast_zero, add_zero]
          push_cast
          rw [hl, hρz hr0, hnr, sgn_not]
          have hm' : (m' : Rat) + q = 256 * b := by
            have : m' + q = 256 * b := by omega
            exact_mod_cast this
          have t1 := congrArg (· * p2 (er - f.bias - 8)) hm'
          beta_reduce at t1
          have : (m' : Rat) * p2 (er - f.bias - 8) = 256 * b * p2 (er - f.bias - 8) - q * p2 (er - f.bias - 8) := by
            linarith
          rw [this]; ring
        · exact hr hr0
      · exact hm

/-- `_normalise` after an inexact denormalised operation: if the denormalised value is within δ units
    of its last place of the target `T`, and is exact unless its mantissa is ≥ 128·S, then the stored
    result is within (1/2 + δ/128) ulp of `T` -/
theorem normD_error (f : Fmt) (h : f.WF) (d : Den) (hm : d.man < f.denUpper) (he : 0 < d.exp)
    (T δ : Rat) (hδ : 0 ≤ δ) (hT : |dval f d - T| ≤ δ * p2 (d.exp - f.bias - 8))
    (hbig : dval f d ≠ T → 128 * f.signMask ≤ d.man)
    (z : F) (hz : normD f d = .ok z) (hze : z.e ≠ 0) :
    |val f z - T| ≤ (1 / 2 + δ / 128) * p2 ((z.e : Int) - f.bias) := by
  unfold normD at hz
  by_cases hd0 : d.man = 0
  · unfold normalise at hz; rw [if_pos (Or.inl hd0)] at hz
    injection hz with hz; subst hz; exact absurd rfl hze
  obtain ⟨R, E, hR1, hR2, hab, hup, _, hn⟩ := normalise_round f h d.exp d.man d.neg (by omega) hm he
  rw [hn] at hz
  obtain ⟨hv, hzE, _⟩ := round_outcome f h R E d.neg z hR1 hR2 hz hze
  have hpE := p2_pos (E - f.bias)
  have h1 : |val f z - dval f d| ≤ p2 (E - f.bias) / 2 := by
    rw [hv]; unfold dval
    rw [mul_assoc, ← mul_sub, abs_sgn_mul]; exact hab
  rw [hzE]
  by_cases heq : dval f d = T
  · rw [← heq]
    have : 0 ≤ δ / 128 * p2 (E - f.bias) := by positivity
    linarith
  · have hb := hbig heq
    have hu0 := p2_pos (d.exp - f.bias - 8)
    have hS : (128 : Rat) ≤ f.signMask := by exact_mod_cast (wf_S f h).1
    -- 128 units of the denormalised mantissa are at most one unit of the result
    have h128 : 128 * p2 (d.exp - f.bias - 8) ≤ p2 (E - f.bias) := by
      unfold dmag at hup
      push_cast at hup
      have hb' : (128 * f.signMask : Rat) ≤ d.man := by exact_mod_cast hb
      have t1 := mul_le_mul_of_nonneg_right hb' hu0.le
      have : (f.signMask : Rat) * (64 * p2 (d.exp - f.bias - 8)) < f.signMask * p2 (E - f.bias) := by linarith
      have h64 : 64 * p2 (d.exp - f.bias - 8) < p2 (E - f.bias) := lt_of_mul_lt_mul_left this (by linarith)
      have e64 : 64 * p2 (d.exp - f.bias - 8) = p2 (d.exp - f.bias - 2) := by
        have : d.exp - f.bias - 2 = ((6 : Nat) : Int) + (d.exp - f.bias - 8) := by omega
        rw [this, p2_add, p2_nat]; norm_num
      rw [e64] at h64
      have := p2_lt h64
      have e128 : 128 * p2 (d.exp - f.bias - 8) = p2 (d.exp - f.bias - 1) := by
        have : d.exp - f.bias - 1 = ((7 : Nat) : Int) + (d.exp - f.bias - 8) := by omega
        rw [this, p2_add, p2_nat]; norm_num
      rw [e128]; exact p2_mono (by omega)
    have h2 : |val f z - T| ≤ |val f z - dval f d| + |dval f d - T| := by
      have := abs_add_le (val f z - dval f d) (dval f d - T)
      rwa [sub_add_sub_cancel] at this
    have h3 : δ * p2 (d.exp - f.bias - 8) ≤ δ / 128 * p2 (E - f.bias) := by
      have := mul_le_mul_of_nonneg_left h128 hδ
      linarith
    linarith

/-- value of a denormalised operand of `_add_den`: 0 when the exponent is 0 -/
def sval (f : Fmt) (d : Den) : Rat := if d.exp = 0 then 0 else dval f d

theorem sval_denorm (f : Fmt) (h : f.WF) (x : F) : sval f (denorm f x) = val f x := by
  unfold sval
  have he : (denorm f x).exp = x.e := rfl
  by_cases h0 : x.e = 0
  · rw [if_pos (by rw [he]; exact_mod_cast h0)]; simp [val, h0]
  · rw [if_neg (by rw [he]; exact_mod_cast h0)]; exact dval_denorm f h x h0

theorem SD_denorm (f : Fmt) (h : f.WF) (x : F) (hx : F.Valid f x) (h0 : x.e ≠ 0) (n : Bool) :
    SD f ⟨(denorm f x).exp, (denorm f x).man, n⟩ := by
  obtain ⟨hm, hexp, _⟩ := denorm_man f h x
  obtain ⟨r1, r2⟩ := manOf_range f h x hx.1
  exact ⟨manOf f x, hm, r1, r2, by show 0 < (denorm f x).exp; rw [hexp]; omega⟩

/-- `_add_den` followed by `_normalise`, for operands that are denormalised stored values or zeros:
    the stored result is within 3/2 ulp of the exact sum -/
theorem addDen_error (f : Fmt) (h : f.WF) (l r : Den)
    (hl : l.exp = 0 ∨ SD f l) (hr : r.exp = 0 ∨ SD f r)
    (z : F) (hz : normD f (addDen f l r) = .ok z) (hze : z.e ≠ 0) :
    |val f z - (sval f l + sval f r)| ≤ 3 / 2 * p2 ((z.e : Int) - f.bias) := by
  obtain ⟨hS, _, _, hdm, hdu, _, _, _⟩ := wf_S f h
  have hzero : ∀ d : Den, d.exp = 0 → normD f d = .ok z → False := by
    intro d hd0 hzz
    rw [normD_zero_exp f d hd0] at hzz
    injection hzz with hzz; subst hzz; exact hze rfl
  have hexact : ∀ d : Den, SD f d → normD f d = .ok z →
      |val f z - dval f d| ≤ 3 / 2 * p2 ((z.e : Int) - f.bias) := by
    intro d ⟨a, hm, a1, a2, he⟩ hzz
    have := normD_error f h d (by omega) he (dval f d) 0 (le_refl 0) (by simp) (fun hne => absurd rfl hne) z hzz hze
    have hp := p2_pos ((z.e : Int) - f.bias)
    linarith
  rw [addDen_eq] at hz
  by_cases hr0 : r.exp = 0
  · rw [if_pos hr0] at hz
    rcases hl with hl0 | hl
    · exact absurd hz (fun hzz => hzero l hl0 hzz)
    · have hl0 : l.exp ≠ 0 := by obtain ⟨_, _, _, _, he⟩ := hl; omega
      unfold sval; rw [if_pos hr0, if_neg hl0, add_zero]
      exact hexact l hl hz
  · rw [if_neg hr0] at hz
    have hr' : SD f r := hr.resolve_left hr0
    by_cases hl0 : l.exp = 0
    · rw [if_pos hl0] at hz
      unfold sval; rw [if_pos hl0, if_neg hr0, zero_add]
      exact hexact r hr' hz
    · rw [if_neg hl0] at hz
      have hl' : SD f l := hl.resolve_left hl0
      unfold sval; rw [if_neg hl0, if_neg hr0]
      obtain ⟨a, hma, a1, a2, hea⟩ := hl'
      obtain ⟨b, hmb, b1, b2, heb⟩ := hr'
      obtain ⟨el, ml, nl⟩ := l
      obtain ⟨er, mr, nr⟩ := r
      simp only [] at hma hmb hea heb hz ⊢
      subst hma hmb
      split at hz
      · next hsw =>
        obtain ⟨g1, g2, g3, g4⟩ := addCore_dval f h er el b a nr nl heb (by omega) b1 b2 a1 a2
          (by intro he; omega) _ rfl
        have := normD_error f h _ g1 g2 _ 128 (by norm_num) g3 g4 z hz hze
        rw [add_comm (dval f ⟨el, 256 * a, nl⟩)]
        have hp := p2_pos ((z.e : Int) - f.bias)
        linarith
      · next hsw =>
        obtain ⟨g1, g2, g3, g4⟩ := addCore_dval f h el er a b nl nr hea (by omega) a1 a2 b1 b2
          (by intro he; omega) _ rfl
        have := normD_error f h _ g1 g2 _ 128 (by norm_num) g3 g4 z hz hze
        have hp := p2_pos ((z.e : Int) - f.bias)
        linarith
