import PcbV.Model.Expr
/-
  Driver for C18.  Requests (words after the `C18` prefix):
    parse <toks>                 -> ok <tree> <number of unread tokens> | err <n>
    showmin <prefix-tree>        -> ok <toks>          (showMin 0 0)
    showfull <prefix-tree>       -> ok <toks>
    type <dm:0|1> <leaftypes> <prefix-tree>   -> ok <I|S|D|T> | err <n>     (typeOf; leaf i has type leaftypes[i])
    btype <dm> <fn> <l> <r>      -> ok <ty> | err <n>
    utype <fn> <a>               -> ok <ty> | err <n>
  toks: comma-separated `L<i>` `O<byte>` `(` `)` `S` `E` `J`, `-` for none.
  prefix-tree: comma-separated pre-order `B<b>[.<c>]` `U<b>` `L<i>`.
  tree in replies: fn(a,b) / fn(a) / L<i> with fn = the name in op.BINARY / op.UNARY.
-/
namespace PcbV.Drv.C18
open PcbV PcbV.Expr

def tail1 (s : String) : String := String.ofList (s.toList.drop 1)

def readTok (w : String) : Option Tok :=
  match w.toList with
  | ['('] => some Tok.lpar
  | [')'] => some Tok.rpar
  | ['S'] => some Tok.sep
  | ['E'] => some Tok.stop
  | ['J'] => some Tok.junk
  | 'L' :: _ => (tail1 w).toNat?.map Tok.leaf
  | 'O' :: _ => (tail1 w).toNat?.map Tok.op
  | _ => none

def readToks (s : String) : Option (List Tok) :=
  if s == "-" then some [] else (s.splitOn ",").mapM readTok

def showTok : Tok → String
  | .leaf i => "L" ++ toString i
  | .op b => "O" ++ toString b
  | .lpar => "("
  | .rpar => ")"
  | .sep => "S"
  | .stop => "E"
  | .junk => "J"

def showToks (l : List Tok) : String := if l.isEmpty then "-" else ",".intercalate (l.map showTok)

def showTree : Tree → String
  | .leaf i => "L" ++ toString i
  | .un k a => (unaryFn k).getD "?" ++ "(" ++ showTree a ++ ")"
  | .bin k a b => (binaryFn k).getD "?" ++ "(" ++ showTree a ++ "," ++ showTree b ++ ")"

def readKey (s : String) : Option Key := (s.splitOn ".").mapM (·.toNat?)

def readTree : Nat → List String → Option (Tree × List String)
  | 0, _ => none
  | _, [] => none
  | fuel + 1, w :: rest =>
    match w.toList with
    | 'L' :: _ => (tail1 w).toNat?.map (fun i => (Tree.leaf i, rest))
    | 'U' :: _ =>
      match readKey (tail1 w), readTree fuel rest with
      | some k, some (a, r) => some (Tree.un k a, r)
      | _, _ => none
    | 'B' :: _ =>
      match readKey (tail1 w), readTree fuel rest with
      | some k, some (a, r) =>
        match readTree fuel r with
        | some (b, r2) => some (Tree.bin k a b, r2)
        | none => none
      | _, _ => none
    | _ => none

def readTreeS (s : String) : Option Tree :=
  let ws := s.splitOn ","
  match readTree (ws.length + 1) ws with
  | some (t, []) => some t
  | _ => none

def readTy : Char → Option Ty
  | 'I' => some .int
  | 'S' => some .sng
  | 'D' => some .dbl
  | 'T' => some .str
  | _ => none

def showTy : Ty → String
  | .int => "I"
  | .sng => "S"
  | .dbl => "D"
  | .str => "T"

def readTy1 (s : String) : Option Ty :=
  match s.toList with
  | [c] => readTy c
  | _ => none

def handle : List String → String
  | ["parse", toks] =>
    match readToks toks with
    | some ts =>
      match parse ts with
      | .ok (t, rest) => "ok " ++ showTree t ++ " " ++ toString rest.length
      | .error e => "err " ++ toString e
    | none => "bad-op"
  | ["showmin", tr] =>
    match readTreeS tr with
    | some t => "ok " ++ showToks (showMin 0 0 t)
    | none => "bad-op"
  | ["showfull", tr] =>
    match readTreeS tr with
    | some t => "ok " ++ showToks (showFull t)
    | none => "bad-op"
  | ["type", dm, ltys, tr] =>
    match readTreeS tr, ltys.toList.mapM readTy with
    | some t, some tys => showR showTy (typeOf (dm == "1") (fun i => tys.getD i .int) t)
    | _, _ => "bad-op"
  | ["btype", dm, fn, l, r] =>
    match readTy1 l, readTy1 r with
    | some l, some r => showR showTy (binType (dm == "1") fn l r)
    | _, _ => "bad-op"
  | ["utype", fn, a] =>
    match readTy1 a with
    | some a => showR showTy (unType fn a)
    | none => "bad-op"
  | _ => "bad-op"

end PcbV.Drv.C18
