import PcbV.Lemmas.TokRound
import PcbV.Lemmas.TokTables
/-
  C17 — Tokenising and listing are consistent.

  Models: `PcbV.Tok` (tokeniser.py + the codestream.py readers) and `PcbV.Lst` (lister.py), over byte
  lists, keyword tables `PcbV.Gen.Tokens.advanced / pcjr / tandy` regenerated from /repo, number
  conversion of non-integer literals as the parameter `Codec` (property C07 is about that part).

  The grammar of the round-trip theorems is the item language `PcbV.TokL.Item` (Lemmas/TokRound.lean):
  blanks, string literals, separators, operator symbols, keywords of the table (ELSE → `:ELSE` and
  WHILE → `WHILE+` included), names, number literals (through the codec contract; the integer
  shapes are discharged here), jump numbers, and a closing REM or ' comment.  `wfT` / `wfL` are the
  "canonical separators" side conditions: what the tokeniser needs (a keyword or name is not followed by a
  name character, a number not by something that continues it, numbers stand where numbers are allowed, …)
  and what the lister needs (no letter or digit directly before a keyword, an explicit blank or a
  no-blank character after it, …).

  `roundtrip_*_partial`: the gap to the full statement is the part of the grammar that is not an `Item`:
  DATA statements, TAB / LF blanks, characters the tokeniser passes raw in no-number mode (digits after a
  name as in `OPTION BASE 1`, `.`), the FN / USR exception of the blank-before-keyword rule, control
  characters inside strings and comments, line number 0, and texts longer than 255 characters.  The
  correspondence run and the oracle of props/c17.py cover those on generated lines.
-/
namespace PcbV.C17
open PcbV PcbV.Gen PcbV.Gen.Tokens PcbV.Tok PcbV.Lst PcbV.TokL

/-! ## keywords -/

/-- each keyword maps to one token and back, for every dialect -/
theorem keyword_bijection (t : Table) (h : IsDialect t) (tok kw : Bytes) :
    toKeyword t tok = some kw ↔ toToken t kw = some tok :=
  bij_iff (dialect_bij h) tok kw

/-- no token and no keyword occurs twice in a dialect table -/
theorem keyword_table_injective (t : Table) (h : IsDialect t) :
    (t.map (·.1)).Nodup ∧ (t.map (·.2)).Nodup := dialect_bij h

/-- keywords are recognised case-insensitively: any spelling `w` of a keyword `kw` of the dialect
    (`w.map upper = kw`), followed by something that is not a name character (not needed for FN, USR,
    SPC(, TAB( ), is read by `_tokenise_word` as that keyword and written as its token -/
theorem keyword_case_insensitive (t : Table) (h : IsDialect t) (tok kw w rest : Bytes) (hm : (tok, kw) ∈ t)
    (hw : w.map upper = kw) (hnext : isNoLookahead kw = true ∨ nextNotName rest = true) :
    scanWord t [] (w ++ rest) = (kw, emitKw kw tok, rest) := by
  have hlook : toToken t kw = some tok := (toToken_eq_some_iff (dialect_bij h).2 tok kw).mpr hm
  have hs := List.all_eq_true.mp (dialect_scan h) (tok, kw) hm
  simp only [Bool.and_eq_true, Bool.not_eq_true', List.isEmpty_eq_false_iff] at hs
  exact scanWord_kw t kw tok w rest hlook hs.1 hs.2 hw hnext

/-- the dialects differ exactly in NOISE and TERM -/
theorem dialect_tables :
    toToken advanced [78, 79, 73, 83, 69] = none ∧ toToken advanced [84, 69, 82, 77] = none
    ∧ toToken pcjr [78, 79, 73, 83, 69] = some [254, 164] ∧ toToken pcjr [84, 69, 82, 77] = some [254, 166]
    ∧ toToken tandy [78, 79, 73, 83, 69] = some [254, 164] ∧ toToken tandy [84, 69, 82, 77] = some [254, 166] := by
  decide +kernel

/-! ## number literals: token class per shape, and list / re-read round trip -/

/-- integer literals 0..32767: one-byte constant / T_BYTE / T_INT by size; the tokeniser produces that
    token from the decimal digits and the lister prints the digits back -/
theorem number_token_classes_int (old : Bool) (cd : Codec) (n : Nat) (h : n ≤ 32767) (rest : Bytes) :
    (n < 10 → intToken n = [tC0 + n]) ∧ (10 ≤ n → n < 256 → intToken n = [tTBYTE, n])
    ∧ (256 ≤ n → intToken n = [tTINT, n % 256, n / 256])
    ∧ (decFollowOK rest = true → tokNumber false cd (showBase 10 n ++ rest) = .ok (intToken n, rest))
    ∧ (∀ lead pay, intToken n = lead :: pay → listNumber old cd lead (pay ++ rest) = .ok (showBase 10 n, rest)) := by
  refine ⟨?_, ?_, ?_, tokNumber_int cd n h rest, ?_⟩
  · intro h1; simp [intToken, h1]; omega
  · intro h1 h2; simp [intToken, h2]; omega
  · intro h1
    have : ¬ n < 256 := by omega
    simp only [intToken, this, if_false, lo, hi, List.cons.injEq, and_true, true_and]
    omega
  · intro lead pay he
    unfold intToken at he
    by_cases h1 : n < 10
    · simp only [show n < 256 by omega, h1, if_true, List.cons.injEq] at he
      obtain ⟨rfl, rfl⟩ := he
      exact listNumber_const old cd n h1 rest
    · by_cases h2 : n < 256
      · simp only [h2, h1, if_true, if_false, List.cons.injEq] at he
        obtain ⟨rfl, rfl⟩ := he
        exact listNumber_byte old cd n rest
      · simp only [h2, if_false, List.cons.injEq] at he
        obtain ⟨rfl, rfl⟩ := he
        exact listNumber_int old cd n h rest

/-- &H literals: T_HEX token with the 16-bit value, listed as &H + upper-case hex digits, re-read to the same token -/
theorem number_token_classes_hex (old : Bool) (cd : Codec) (v : Nat) (h : v < 65536) (rest : Bytes) :
    (hexFollowOK rest = true →
      tokNumber false cd (38 :: 72 :: (showBase 16 v ++ rest)) = .ok ([tTHEX, v % 256, v / 256 % 256], rest))
    ∧ listNumber old cd tTHEX ([v % 256, v / 256 % 256] ++ rest) = .ok (38 :: 72 :: showBase 16 v, rest) :=
  ⟨fun hf => by simpa [tokNumber, lo, hi] using ampToken_hex v h rest hf, listNumber_hex old cd v h rest⟩

/-- &O literals: T_OCT token, listed as &O + octal digits, re-read to the same token -/
theorem number_token_classes_oct (old : Bool) (cd : Codec) (v : Nat) (h : v < 65536) (rest : Bytes) :
    (octFollowOK rest = true →
      tokNumber false cd (38 :: 79 :: (showBase 8 v ++ rest)) = .ok ([tTOCT, v % 256, v / 256 % 256], rest))
    ∧ listNumber old cd tTOCT ([v % 256, v / 256 % 256] ++ rest) = .ok (38 :: 79 :: showBase 8 v, rest) :=
  ⟨fun hf => by simpa [tokNumber, lo, hi] using ampToken_oct v h rest hf, listNumber_oct old cd v h rest⟩

/-- line numbers after GOTO / GOSUB / THEN / … (jump-number mode): T_UINT token for 0..65529 -/
theorem number_token_classes_jump (old : Bool) (t : Table) (cd : Codec) (f : Nat) (s : St) (n : Nat) (rest : Bytes)
    (h : n ≤ 65529) (han : s.an = true) (haj : s.aj = true) (hf : jumpFollowOK rest = true) :
    tokLoop old t cd (f + 1) s (showBase 10 n ++ rest) = prepend [tTUINT, n % 256, n / 256 % 256] (tokLoop old t cd f s rest)
    ∧ listNumber old cd tTUINT ([n % 256, n / 256 % 256] ++ rest) = .ok (showBase 10 n, rest) :=
  ⟨tok_jump old t cd f s n rest han haj h hf, listNumber_uint old cd n (by omega) rest⟩

/-- the words after which numbers are line numbers are exactly `Tokeniser._linenum_words`, and all are keywords -/
theorem jump_words_are_keywords : linenumWords.all (fun w => (toToken advanced w).isSome) = true := by
  decide +kernel

/-- reading back printed digits gives the number (bases 2..16): the contract `read (show v) = v` of the
    integer literal classes -/
theorem read_show (b : Nat) (h2 : 2 ≤ b) (h16 : b ≤ 16) (n : Nat) : readBase b (showBase b n) = n :=
  readBase_showBase b h2 h16 n

/-! ## round trip -/

/-- tokenising the text of a well-formed item sequence gives its tokens; listing the tokens gives the text -/
theorem tokenise_list_items (old : Bool) (t : Table) (cd : Codec) (is : List Item) (s : St) (out : Bytes)
    (hT : wfT old t cd s is) (hL : wfL old t cd out is) :
    tokLoop old t cd ((textAll is).length + 1) s (textAll is) = .ok (encAll is)
    ∧ listLoop old t cd ((encAll is).length + 1) false false out (encAll is) = .ok (out ++ textAll is) :=
  ⟨tok_items old t cd is s _ (by have := wfT_length old t cd is s hT; omega) hT,
   lst_items old t cd is out _ (by have := wfL_cost old t cd is out hL; omega) hL⟩

/-- ROUND TRIP (statement body): for a tokenised statement line `t = encAll is` built from well-formed
    items with canonical separators, `list t` is the canonical text and `tokenise (list t) = t`;
    `_partial`: see the header for the part of the grammar that is not covered by `Item` -/
theorem roundtrip_statement_partial (t : Table) (cd : Codec) (is : List Item)
    (hT : wfT false t cd ⟨false, true, false⟩ is) (hL : wfL false t cd [] is) (hlen : (textAll is).length ≤ 255) :
    ∃ txt, listStatement false t cd (encAll is) = .ok txt ∧ txt = textAll is
      ∧ tokLoop false t cd (txt.length + 1) ⟨false, true, false⟩ txt = .ok (encAll is) :=
  ⟨textAll is, listStatement_items false t cd is hL hlen, rfl,
   tok_items false t cd is _ _ (by have := wfT_length false t cd is _ hT; omega) hT⟩

/-- ROUND TRIP (program line): `detokenise_line` of the stored record of line `n` gives
    "<n> <text>", and `tokenise_line` of that text gives the record back (with the tokeniser's
    placeholder link bytes C0 DE); every number literal of the line therefore keeps its token, i.e. its
    value and type -/
theorem roundtrip_line_partial (t : Table) (cd : Codec) (a b n : Nat) (hab : ¬ (a = 0 ∧ b = 0)) (h1 : 1 ≤ n)
    (h2 : n ≤ 65529) (is : List Item) (hT : wfT false t cd ⟨false, true, false⟩ is) (hL : wfL false t cd [] is)
    (hlen : (textAll is).length ≤ 255) (htab : (encAll is).head? ≠ some 9)
    (hj : jumpFollowOK (32 :: textAll is) = true) :
    ∃ txt, detokLine false t cd (a :: b :: n % 256 :: n / 256 % 256 :: encAll is) = .ok (some (n, txt))
      ∧ tokeniseLine false t cd txt = .ok ([0, 192, 222, n % 256, n / 256 % 256] ++ encAll is) :=
  ⟨_, detokLine_items false t cd a b n hab h1 (by omega) is hL hlen htab,
   tokeniseLine_items false t cd n h1 h2 is hT hj⟩

/-- the codec contract is satisfiable: an integer literal in number mode is a well-formed `num` item
    for both machines, whatever the float conversion pair is -/
theorem int_literal_wellformed (old : Bool) (t : Table) (cd : Codec) (s : St) (out : Bytes) (n : Nat) (h : n ≤ 32767)
    (lead : Nat) (pay R E : Bytes) (he : intToken n = lead :: pay) (han : s.an = true) (haj : s.aj = false)
    (hf : decFollowOK R = true) :
    okT false t cd s (.num (showBase 10 n) lead pay) R False ∧ okL old t cd out (.num (showBase 10 n) lead pay) E False := by
  constructor
  · simp only [okT]
    refine ⟨?_, by rw [← he]; exact tokNumber_int cd n h R hf⟩
    cases hs : showBase 10 n with
    | nil => exact absurd hs (showBase_ne_nil 10 n)
    | cons c cs =>
      exact ⟨c, cs, rfl, Or.inr ⟨han, haj, Or.inl (showBase10_all_digit n c (by rw [hs]; exact List.mem_cons_self ..))⟩⟩
  · simp only [okL]
    refine ⟨?_, (number_token_classes_int old cd n h E).2.2.2.2 lead pay he⟩
    unfold intToken at he
    by_cases h1 : n < 10
    · simp only [show n < 256 by omega, h1, if_true, List.cons.injEq] at he
      obtain ⟨rfl, _⟩ := he
      have : ∀ n, n < 10 → isLead (tC0 + n) = true := by decide
      exact this n h1
    · by_cases h2 : n < 256
      · simp only [h2, h1, if_true, if_false, List.cons.injEq] at he
        obtain ⟨rfl, _⟩ := he; decide
      · simp only [h2, if_false, List.cons.injEq] at he
        obtain ⟨rfl, _⟩ := he; decide

/-- executable form of the side conditions: the Boolean checkers are sound for `wfT` / `wfL` -/
theorem wellformed_checkable (old : Bool) (t : Table) (cd : Codec) (is : List Item) (s : St) (out : Bytes) :
    (wfTb old t cd s is = true → wfT old t cd s is) ∧ (wfLb old t cd out is = true → wfL old t cd out is) :=
  ⟨wfTb_sound old t cd is s, wfLb_sound old t cd is out⟩

/-! ## non-vacuity: the hypotheses of the round trip are satisfiable -/

/-- a codec that converts nothing (the examples use integer literals only) -/
def cd0 : Codec := ⟨fun _ => none, fun _ => none⟩

/-- `FOR I=1 TO 255:IF A$<>"x" THEN 100 ELSE WHILE NOT B:PRINT &HFF;MID$(A$,2) 'c` -/
def exItems : List Item :=
  [.kw [70, 79, 82] [130], .sp, .ident [73], .op 61 231, .num [49] 18 [], .sp, .kw [84, 79] [204], .sp,
   .num [50, 53, 53] 15 [255], .punct 58,
   .kw [73, 70] [139], .sp, .ident [65], .punct 36, .op 60 232, .op 62 230, .str [120], .sp,
   .kw [84, 72, 69, 78] [205], .sp, .jump 100, .sp, .kw [69, 76, 83, 69] [161], .sp,
   .kw [87, 72, 73, 76, 69] [177], .sp, .kw [78, 79, 84] [211], .sp, .ident [66], .punct 58,
   .kw [80, 82, 73, 78, 84] [145], .sp, .num [38, 72, 70, 70] 12 [255, 0], .punct 59,
   .kw [77, 73, 68, 36] [255, 131], .punct 40, .ident [65], .punct 36, .punct 44, .num [50] 19 [], .punct 41, .sp,
   .quote [99]]

example : wfT false advanced cd0 ⟨false, true, false⟩ exItems :=
  wfTb_sound _ _ _ _ _ (by decide +kernel)
example : wfL false advanced cd0 [] exItems := wfLb_sound _ _ _ _ _ (by decide +kernel)
example : (textAll exItems).length ≤ 255 ∧ (encAll exItems).head? ≠ some 9
    ∧ jumpFollowOK (32 :: textAll exItems) = true := by decide +kernel
/-- the same line in the PCjr dialect with NOISE -/
example : wfTb false pcjr cd0 ⟨false, true, false⟩ [.kw [78, 79, 73, 83, 69] [254, 164], .sp, .num [49] 18 []] = true
    ∧ wfLb false pcjr cd0 [] [.kw [78, 79, 73, 83, 69] [254, 164], .sp, .num [49] 18 []] = true := by decide +kernel
/-- spellings: `print`, `Print`, `PRINT` followed by a blank all give token 0x91 -/
example : scanWord advanced [] [112, 114, 73, 110, 84, 32] = ([80, 82, 73, 78, 84], [145], [32]) :=
  keyword_case_insensitive advanced (Or.inl rfl) [145] [80, 82, 73, 78, 84] [112, 114, 73, 110, 84] [32]
    (by decide +kernel) (by decide) (Or.inr (by decide))

/-! ## the defects of the unrepaired code (`old := true`) -/

/-- `10 REM <1D>` as the last line: the old lister handed the truncated payload to the number
    conversion (host exception); the repaired lister prints the byte as it is, and the text re-enters
    as the same tokens -/
theorem old_lister_truncated_number_counterexample :
    detokLine true advanced cd0 [192, 222, 10, 0, 143, 32, 29] = .error hostExc
    ∧ detokLine false advanced cd0 [192, 222, 10, 0, 143, 32, 29] = .ok (some (10, [49, 48, 32, 82, 69, 77, 32, 29]))
    ∧ tokeniseLine false advanced cd0 [49, 48, 32, 82, 69, 77, 32, 29] = .ok [0, 192, 222, 10, 0, 143, 32, 29] := by
  decide +kernel

/-- `10 PRINT &O1 2`: the old `Integer.from_oct` raised ValueError on the inner blank; repaired: &O12 -/
theorem old_octal_blank_counterexample :
    tokeniseLine true advanced cd0 [49, 48, 32, 80, 82, 73, 78, 84, 32, 38, 79, 49, 32, 50] = .error hostExc
    ∧ tokeniseLine false advanced cd0 [49, 48, 32, 80, 82, 73, 78, 84, 32, 38, 79, 49, 32, 50]
        = .ok [0, 192, 222, 10, 0, 145, 32, 11, 10, 0] := by
  decide +kernel

/-- `10 IF A THEN ? 5`: the old `?` shorthand stayed in jump-number mode, so the 5 became a line-number
    reference (0E 05 00); the line lists as `10 IF A THEN PRINT 5`, which re-enters with the constant 5
    (token 16h): the round trip fails and the literal changes its type.  Repaired: both give the constant. -/
theorem old_question_mark_jump_counterexample :
    let line := [49, 48, 32, 73, 70, 32, 65, 32, 84, 72, 69, 78, 32, 63, 32, 53]
    let listed := [49, 48, 32, 73, 70, 32, 65, 32, 84, 72, 69, 78, 32, 80, 82, 73, 78, 84, 32, 53]
    tokeniseLine true advanced cd0 line = .ok [0, 192, 222, 10, 0, 139, 32, 65, 32, 205, 32, 145, 32, 14, 5, 0]
    ∧ detokLine true advanced cd0 [192, 222, 10, 0, 139, 32, 65, 32, 205, 32, 145, 32, 14, 5, 0] = .ok (some (10, listed))
    ∧ tokeniseLine true advanced cd0 listed = .ok [0, 192, 222, 10, 0, 139, 32, 65, 32, 205, 32, 145, 32, 22]
    ∧ tokeniseLine false advanced cd0 line = .ok [0, 192, 222, 10, 0, 139, 32, 65, 32, 205, 32, 145, 32, 22] := by
  decide +kernel

end PcbV.C17
