import PcbV.Model.Draw
namespace PcbV.Drv.C30
open PcbV PcbV.Viewport PcbV.Draw

/-- `n` = open bound, else an integer -/
def parseBound (s : String) : Option (Option Int) :=
  if s == "n" then some none else s.toInt?.map some

/-- `i<k>` integer index, `s<a>:<b>` slice (`n` for an open bound) -/
def parseIx (s : String) : Option Ix :=
  match s.toList with
  | 'i' :: rest => (String.ofList rest).toInt?.map Ix.int
  | 's' :: rest =>
    match (String.ofList rest).splitOn ":" with
    | [a, b] =>
      match parseBound a, parseBound b with
      | some a, some b => some (.slice a b)
      | _, _ => none
    | _ => none
  | _ => none

/-- insert the interval into every row lo ≤ y < hi of the bucket array -/
def pushRows (rows : Array (List (Int × Int))) (iv : Int × Int) : Nat → Nat → Array (List (Int × Int))
  | _, 0 => rows
  | y, n + 1 => pushRows (rows.modify y (iv :: ·)) iv (y + 1) n

def mergeIvs : List (Int × Int) → List (Int × Int) → List (Int × Int)
  | [], acc => acc.reverse
  | iv :: rest, [] => mergeIvs rest [iv]
  | (a, b) :: rest, (c, d) :: acc =>
    if a ≤ d then mergeIvs rest ((c, max b d) :: acc) else mergeIvs rest ((a, b) :: (c, d) :: acc)

/-- canonical form of the set of cells written: maximal horizontal runs `y:xa-xb`, sorted -/
def runs (v : View) (ops : Ops) : String :=
  let h := v.H.toNat
  let rows := ops.foldl (fun (rows : Array (List (Int × Int))) op =>
      let r := v.writeRect op.yi op.xi
      let (xlo, xhi) := r.1
      let (ylo, yhi) := r.2
      if xlo < xhi ∧ ylo < yhi ∧ 0 ≤ ylo then pushRows rows (xlo, xhi) ylo.toNat (yhi - ylo).toNat
      else rows) (Array.replicate h [])
  let parts := (List.range h).foldr (fun y acc =>
      let ivs := (rows.getD y []).mergeSort (fun p q => p.1 ≤ q.1)
      let ms := mergeIvs ivs []
      ms.map (fun (a, b) => toString y ++ ":" ++ toString a ++ "-" ++ toString (b - 1)) ++ acc) []
  if parts.isEmpty then "-" else ",".intercalate parts

def reply (v : View) (ops : Ops) : String :=
  if ops.any (fun op => v.setitemRaises op.yi op.xi) then "exc IndexError" else "ok " ++ runs v ops

def ints (l : List String) : Option (List Int) :=
  l.foldr (fun s acc => match s.toInt?, acc with
    | some i, some r => some (i :: r)
    | _, _ => none) (some [])

def prim (v : View) : List String → String
  | ["setitem", yi, xi] =>
    match parseIx yi, parseIx xi with
    | some yi, some xi => reply v [⟨yi, xi⟩]
    | _, _ => "bad-op"
  | "cutoff" :: args =>
    match ints args with
    | some [x, y] => let p := v.cutoffCoord x y; "ok " ++ toString p.1 ++ " " ++ toString p.2
    | _ => "bad-op"
  | "contains" :: args =>
    match ints args with
    | some [x, y] => "ok " ++ showBool (v.contains x y)
    | _ => "bad-op"
  | "mid" :: [] => let p := v.getMid; "ok " ++ toString p.1 ++ " " ++ toString p.2
  | "pset" :: args =>
    match ints args with
    | some [x, y] => reply v (pset x y)
    | _ => "bad-op"
  | "line" :: args =>
    match ints args with
    | some [a, b, c, d, p] => reply v (drawLine v a b c d p.toNat)
    | _ => "bad-op"
  | "box" :: args =>
    match ints args with
    | some [a, b, c, d, p] => reply v (drawBox v a b c d p.toNat)
    | _ => "bad-op"
  | "boxf" :: args =>
    match ints args with
    | some [a, b, c, d] => reply v (drawBoxFilled v a b c d)
    | _ => "bad-op"
  | "circle" :: args =>
    match ints args with
    | some [x, y, r] => reply v (drawCircle x y r)
    | _ => "bad-op"
  | "ellipse" :: args =>
    match ints args with
    | some [x, y, rx, ry] =>
      match drawEllipse x y rx ry (4 * (rx.toNat + ry.toNat) + 16) with
      | some ops => reply v ops
      | none => "fuel"
    | _ => "bad-op"
  | "fill" :: args =>
    match ints args with
    | some [y, xl, xr] => reply v (fillInterval y xl xr)
    | _ => "bad-op"
  | "put" :: args =>
    match ints args with
    | some [x, y, w, h] =>
      match put v x y w h with
      | .ok ops => reply v ops
      | .error e => "err " ++ toString e
    | _ => "bad-op"
  | "view" :: args =>
    match ints args with
    | some [a, b, c, d, ab, f, bd] =>
      match viewStmt v a b c d (ab != 0) (f != 0) (bd != 0) with
      | .ok (ops, v') =>
        reply v.unset ops ++ " view " ++ toString v'.x0 ++ " " ++ toString v'.y0 ++ " " ++
          toString v'.x1 ++ " " ++ toString v'.y1 ++ " " ++ showBool v'.absolute
      | .error e => "err " ++ toString e
    | _ => "bad-op"
  | ["viewa", a, b, c, d, ab, f, bd] =>
    -- VIEW with attribute values (`n` = omitted): a rejected statement reports the viewport it leaves in force
    match ints [a, b, c, d, ab], parseBound f, parseBound bd with
    | some [a, b, c, d, ab], some f, some bd =>
      let s : Screen := ⟨false, 1, 0, 0, v, fun _ _ _ => 0⟩
      let r := viewExec s 1 a b c d (ab != 0) f bd
      let showView (v' : View) := " view " ++ toString v'.x0 ++ " " ++ toString v'.y0 ++ " " ++
          toString v'.x1 ++ " " ++ toString v'.y1 ++ " " ++ showBool v'.absolute
      match r.2 with
      | some e => "err " ++ toString e ++ showView r.1.view
      | none =>
        match viewStmt v a b c d (ab != 0) f.isSome bd.isSome with
        | .ok (ops, v') => reply v.unset ops ++ showView v'
        | .error e => "err " ++ toString e ++ showView v
    | _, _, _ => "bad-op"
  | _ => "bad-op"

/-- `prim W H x0 y0 x1 y1 abs <op> <args…>` -/
def handle : List String → String
  | "prim" :: w :: h :: x0 :: y0 :: x1 :: y1 :: ab :: rest =>
    match ints [w, h, x0, y0, x1, y1, ab] with
    | some [w, h, x0, y0, x1, y1, ab] =>
      if w ≤ 0 ∨ h ≤ 0 ∨ w > 4096 ∨ h > 4096 then "bad-op" else
      prim ⟨w, h, x0, y0, x1, y1, ab != 0, true⟩ rest
    | _ => "bad-op"
  | _ => "bad-op"

end PcbV.Drv.C30
