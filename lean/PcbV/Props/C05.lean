import PcbV.Lemmas.C05Mul
import PcbV.Lemmas.C05Promote
/-
  C05 — Arithmetic identities hold for every value.

  Float level: theorems about the shared MBF model (`PcbV.Mbf`, transcription of
  numbers.py:Float) for ANY format with well-formed masks (`Fmt.WF`; `single_wf`, `double_wf`
  show that the regenerated constants of the current source are well formed), bit for bit.
  `imulFixed` is `Float.imul` after the repair of defect D5; `imul` is the code before it.
  values.py level: `PcbV.Promote` (type promotion of add/sub/mul/div/neg/abs_/sgn_).

  What is TRUE of the code about zeros (exponent byte 0, any mantissa bytes):
  x+0 and 0+x return x bit for bit when x is non-zero and the CANONICAL zero when x is any zero;
  x-x, x*0 are the canonical zero; neg/abs only touch the sign bit (also of a zero).
-/
namespace PcbV.C05
open PcbV PcbV.Mbf PcbV.Promote

/-! ### Float level, any well-formed format -/

/-- x+y = y+x bit for bit (including the error case and every non-canonical zero operand) -/
theorem add_comm (f : Fmt) (h : f.WF) (x y : F) : iadd f x y = iadd f y x :=
  iadd_comm f h x y

/-- x*y = y*x bit for bit -/
theorem mul_comm (f : Fmt) (x y : F) : imulFixed f x y = imulFixed f y x :=
  imulThr_comm _ f x y

/-- the same for the code before the repair of D5 -/
theorem mul_comm_old (f : Fmt) (x y : F) : imul f x y = imul f y x :=
  imulThr_comm (-31) f x y

/-- x+0 = x for every stored non-zero x and every zero pattern z (canonical or not);
    for a zero x the sum is the canonical zero -/
theorem add_zero (f : Fmt) (h : f.WF) (x z : F) (hx : F.Valid f x) (hz : z.e = 0) :
    iadd f x z = .ok (if x.e = 0 then zero else x) ∧ iadd f z x = .ok (if x.e = 0 then zero else x) := by
  have := iadd_zero_right f h x z hx hz
  exact ⟨this, by rw [iadd_comm f h z x]; exact this⟩

/-- x*1 = x for every stored non-zero x (repaired code) -/
theorem mul_one (f : Fmt) (h : f.WF) (h1 : f.one = ⟨0, 129⟩) (x : F) (hx : F.Valid f x) (he : x.e ≠ 0) :
    imulFixed f x f.one = .ok x ∧ imulFixed f f.one x = .ok x := by
  obtain ⟨_, _, _, _, _, _, _, hb⟩ := wf_S f h
  have := imulThr_one f h h1 x hx he (mulThreshold f) (by unfold mulThreshold; omega)
  exact ⟨this, by unfold imulFixed; rw [imulThr_comm _ f f.one x]; exact this⟩

/-- a zero times anything is the canonical zero -/
theorem mul_zero (f : Fmt) (x z : F) (hz : z.e = 0) :
    imulFixed f x z = .ok zero ∧ imulFixed f z x = .ok zero := by
  have hz' : z.isZero = true := by simp [F.isZero, hz]
  constructor <;> simp [imulFixed, imulThr, hz']

/-- D5: on the code before the repair x*1 = 0 for a double with exponent byte < 32
    (`PRINT 1D-31*1#` printed 0): `mul_one` is false of the old `imul` -/
theorem mul_one_old_counterexample :
    ¬ (∀ x : F, F.Valid double x → x.e ≠ 0 → imul double x double.one = .ok x) := by
  intro hall
  have := hall ⟨0, 31⟩ (by decide) (by decide)
  revert this
  decide

/-- singles were not affected -/
theorem mul_one_old_single (x : F) (hx : F.Valid single x) (he : x.e ≠ 0) :
    imul single x single.one = .ok x :=
  imulThr_one single single_wf (by decide) x hx he (-31) (by decide)

/-- x/1 = x for every stored non-zero x; 0/1 returns the zero operand unchanged -/
theorem div_one (f : Fmt) (h : f.WF) (h1 : f.one = ⟨0, 129⟩) (x : F) (hx : F.Valid f x) :
    idiv f x f.one = .ok x := by
  by_cases he : x.e = 0
  · simp [idiv, h1, F.isZero, he]
  · exact idiv_one f h h1 x hx he

/-- x-x is the canonical zero for every pattern -/
theorem sub_self (f : Fmt) (h : f.WF) (x : F) : isub f x x = .ok zero :=
  isub_self f h x

/-- -(-x) = x bit for bit -/
theorem neg_neg (f : Fmt) (h : f.WF) (x : F) (hx : F.Valid f x) : ineg f (ineg f x) = x :=
  ineg_ineg f h x hx

/-- negation flips exactly the sign bit: stored value stays valid, exponent kept, sign flipped -/
theorem neg_spec (f : Fmt) (h : f.WF) (x : F) (hx : F.Valid f x) :
    F.Valid f (ineg f x) ∧ (ineg f x).e = x.e ∧ isNeg f (ineg f x) = !isNeg f x ∧
    manOf f (ineg f x) = manOf f x ∧ sign f (ineg f x) = - sign f x :=
  ineg_props f h x hx

/-- ABS(x) is x or -x, is never negative, and keeps magnitude (mantissa with implied bit, exponent) -/
theorem abs_spec (f : Fmt) (h : f.WF) (x : F) (hx : F.Valid f x) :
    (iabs f x = if isNeg f x then ineg f x else x) ∧ isNeg f (iabs f x) = false ∧
    0 ≤ sign f (iabs f x) ∧ manOf f (iabs f x) = manOf f x ∧ (iabs f x).e = x.e :=
  iabs_props f h x hx

/-- SGN(x) is -1, 0 or 1: 0 exactly for the zeros (exponent byte 0), else by the sign bit -/
theorem sgn_spec (f : Fmt) (x : F) :
    (sign f x = 0 ↔ x.e = 0) ∧ (sign f x = -1 ↔ x.e ≠ 0 ∧ isNeg f x = true) ∧
    (sign f x = 1 ↔ x.e ≠ 0 ∧ isNeg f x = false) ∧ (sign f x = -1 ∨ sign f x = 0 ∨ sign f x = 1) := by
  unfold sign
  by_cases he : x.e = 0 <;> cases hn : isNeg f x <;> simp [he]

/-! ### values.py level: type promotion (`PcbV.Promote`) -/

/-- the result type (also of the value substituted on Overflow / Division by zero) is the
    widest operand type, Integer counting as Single; SGN gives an Integer -/
theorem promotion_spec (a b : V) :
    (add a b).ty = resTy a.ty b.ty ∧ (sub a b).ty = resTy a.ty b.ty ∧
    (mul a b).ty = resTy a.ty b.ty ∧ (div a b).ty = resTy a.ty b.ty ∧
    (neg a).ty = unTy a.ty ∧ (abs a).ty = unTy a.ty ∧ (sgn a).ty = .int := by
  refine ⟨?_, ?_, matched_ty _ a b, matched_ty _ a b, ?_, ?_, rfl⟩
  · unfold add; rw [matched_ty]; cases a <;> cases b <;> rfl
  · unfold sub; rw [matched_ty]; cases a <;> cases b <;> rfl
  · cases a <;> rfl
  · cases a <;> rfl

/-- mixed operands are converted to the wider type BEFORE the operation is computed in that type -/
theorem promotes_before_computing (w v : Nat) (x y : F) :
    add (.int w) (.int v) = wrap .sng (iadd single (intToF single w) (intToF single v)) ∧
    add (.int w) (.sng y) = wrap .sng (iadd single (intToF single w) y) ∧
    add (.sng x) (.int v) = wrap .sng (iadd single x (intToF single v)) ∧
    add (.sng x) (.dbl y) = wrap .dbl (iadd double (fromSingle x) y) ∧
    add (.dbl x) (.sng y) = wrap .dbl (iadd double x (fromSingle y)) ∧
    add (.dbl x) (.int v) = wrap .dbl (iadd double x (intToF double v)) ∧
    add (.int w) (.dbl y) = wrap .dbl (iadd double (fromSingle (intToF single w)) y) ∧
    mul (.int w) (.int v) = wrap .sng (imulFixed single (intToF single w) (intToF single v)) ∧
    mul (.int w) (.dbl y) = wrap .dbl (imulFixed double (intToF double w) y) ∧
    mul (.sng x) (.dbl y) = wrap .dbl (imulFixed double (fromSingle x) y) ∧
    div (.sng x) (.dbl y) = wrap .dbl (idiv double (fromSingle x) y) ∧
    div (.int w) (.int v) = wrap .sng (idiv single (intToF single w) (intToF single v)) ∧
    sub (.int w) (.dbl y) = wrap .dbl (isub double (fromSingle (intToF single w)) y) := by
  refine ⟨rfl, rfl, rfl, rfl, rfl, rfl, rfl, rfl, rfl, rfl, rfl, rfl, rfl⟩

/-- x*y = y*x for every type pairing -/
theorem vmul_comm (a b : V) : mul a b = mul b a := by
  unfold mul matched
  rw [Bool.or_comm, mul_comm double, mul_comm single]

/-- x+y = y+x bit for bit for every type pairing of stored values.  For Integer with Double the
    left Integer goes Integer→Single→Double and the right one Integer→Double directly; both routes
    give the same bytes for all 65536 integers (`int_widen`). -/
theorem vadd_comm (a b : V) (ha : a.Stored) (hb : b.Stored) : add a b = add b a := by
  unfold add matched
  cases a <;> cases b <;>
    simp only [toFloat, isDbl, toSingleF, toDoubleF, V.Stored, Bool.or_false, Bool.or_true, Bool.or_self,
      Bool.false_eq_true, if_true, if_false] at ha hb ⊢ <;>
    first
      | (rw [int_widen _ ha, add_comm double double_wf])
      | (rw [int_widen _ hb, add_comm double double_wf])
      | rw [add_comm single single_wf]
      | rw [add_comm double double_wf]

/-- x-x = 0 (canonical zero of the promoted type) for every value of every type -/
theorem vsub_self (a : V) :
    sub a a = .ok (if a.ty = .dbl then .dbl zero else .sng zero) := by
  unfold sub matched
  cases a <;> simp [toFloat, isDbl, toSingleF, toDoubleF, V.ty, wrap, sub_self single single_wf,
    sub_self double double_wf]

/-- -(-x) = x for stored floats; an Integer comes back as the Single it was promoted to -/
theorem vneg_neg (a : V) (ha : a.Stored) : neg (neg a) = toFloat a := by
  cases a with
  | int w => simp [neg, toFloat, neg_neg single single_wf _ (intToF_single_valid w ha)]
  | sng x => simp [neg, toFloat, neg_neg single single_wf _ ha]
  | dbl x => simp [neg, toFloat, neg_neg double double_wf _ ha]

/-- x*1 = x and x/1 = x at the values level: a stored non-zero float keeps its bytes when the
    unit has the same or a narrower type (Integer 1, or 1 of its own type) -/
theorem vmul_one_div_one (x : F) (hs : F.Valid single x) (hd : F.Valid double x) (he : x.e ≠ 0) :
    mul (.sng x) (.int 1) = .ok (.sng x) ∧ mul (.int 1) (.sng x) = .ok (.sng x) ∧
    mul (.sng x) (.sng single.one) = .ok (.sng x) ∧
    mul (.dbl x) (.int 1) = .ok (.dbl x) ∧ mul (.int 1) (.dbl x) = .ok (.dbl x) ∧
    mul (.dbl x) (.sng single.one) = .ok (.dbl x) ∧ mul (.dbl x) (.dbl double.one) = .ok (.dbl x) ∧
    div (.sng x) (.int 1) = .ok (.sng x) ∧ div (.dbl x) (.int 1) = .ok (.dbl x) ∧
    div (.dbl x) (.dbl double.one) = .ok (.dbl x) := by
  have i1s : intToF single 1 = single.one := by decide
  have i1d : intToF double 1 = double.one := by decide
  have s1d : fromSingle single.one = double.one := by decide
  have ms := mul_one single single_wf (by decide) x hs he
  have md := mul_one double double_wf (by decide) x hd he
  have ds := div_one single single_wf (by decide) x hs
  have dd := div_one double double_wf (by decide) x hd
  refine ⟨?_, ?_, ?_, ?_, ?_, ?_, ?_, ?_, ?_, ?_⟩ <;>
    simp [mul, div, matched, isDbl, toSingleF, toDoubleF, wrap, i1s, i1d, s1d, ms, md, ds, dd]

/-- SGN of an Integer is the sign of its two's-complement value; the result is the Integer -1, 0 or 1 -/
theorem vsgn_spec (a : V) :
    (sgn a = .int 65535 ∨ sgn a = .int 0 ∨ sgn a = .int 1) ∧
    (∀ w, w < 65536 → a = .int w →
      sgnInt a = if IntOps.toInt w < 0 then -1 else if IntOps.toInt w = 0 then 0 else 1) := by
  constructor
  · have key : ∀ s : Int, (s = -1 ∨ s = 0 ∨ s = 1) →
        (V.int (IntOps.pack s) = .int 65535 ∨ V.int (IntOps.pack s) = .int 0 ∨ V.int (IntOps.pack s) = .int 1) := by
      intro s hs
      rcases hs with rfl | rfl | rfl <;> decide
    unfold sgn
    apply key
    cases a with
    | int w =>
      show intSign w = -1 ∨ intSign w = 0 ∨ intSign w = 1
      unfold intSign
      by_cases h1 : w / 256 % 256 ≥ 128
      · simp [h1]
      · by_cases h2 : w = 0 <;> simp [h1, h2]
    | sng x => exact (sgn_spec single x).2.2.2
    | dbl x => exact (sgn_spec double x).2.2.2
  · intro w hw ha
    subst ha
    show intSign w = _
    unfold intSign IntOps.toInt
    by_cases h1 : w / 256 % 256 ≥ 128
    · have : ¬ w < 32768 := by omega
      simp only [h1, this, if_true, if_false]
      have : (w : Int) - 65536 < 0 := by omega
      simp [this]
    · have h3 : w < 32768 := by omega
      by_cases h2 : w = 0
      · subst h2; simp
      · have h4 : ¬ ((w : Int) < 0) := by omega
        have h5 : ¬ ((w : Int) = 0) := by omega
        simp only [h1, h2, h3, h4, h5, if_true, if_false]

/-! ### non-vacuity: the hypotheses are satisfiable, the constants are as assumed -/
example : single.WF ∧ double.WF := ⟨single_wf, double_wf⟩
example : single.one = ⟨0, 129⟩ ∧ double.one = ⟨0, 129⟩ := by decide
example : F.Valid single ⟨0x490fdb, 130⟩ ∧ F.Valid double ⟨0, 31⟩ := by decide
example : imulFixed double ⟨0, 31⟩ double.one = .ok ⟨0, 31⟩ := by decide
example : imul double ⟨0, 31⟩ double.one = .ok zero := by decide
example : add (.int 65535) (.dbl ⟨0, 129⟩) = .ok (.dbl zero) := by decide
example : V.Stored (.int 65535) ∧ V.Stored (.dbl ⟨0, 31⟩) ∧ V.Stored (.sng ⟨0x490fdb, 130⟩) := by decide
example : toFloat (.int 32768) = .sng ⟨0x800000, 144⟩ ∧ F.Valid single ⟨0x800000, 144⟩ := by decide

end PcbV.C05
