import PcbV.Drv.MbfCommon
import PcbV.Drv.C05x
/-
  C04 driver: `v <op> <t> <hex> <t> <hex>` = values.add/sub/mul/div with type promotion and the
  value substituted on a soft error (protocol of Drv/C05x); everything else is the shared MBF
  protocol of Drv/MbfCommon (`add|sub|mul|div|mulold <s|d> <hex> <hex>`; "mul" is the repaired
  `Float.imul`, "mulold" the code before the repair of D5).
-/
namespace PcbV.Drv.C04

def handle : List String → String
  | "v" :: rest => PcbV.Drv.C05x.handle rest
  | req => PcbV.Drv.MbfCommon.handle req

end PcbV.Drv.C04
