import PcbV.Basic
import PcbV.Model.IntOps
import PcbV.Model.Mbf
/-
  Model of the relational operators of `pcbasic/basic/values/values.py`
  (`match_types`, `_bool_eq`, `_bool_gt`, `eq/neq/gt/gte/lte/lt`, `Values.from_bool`) on top of the
  comparison methods of `numbers.py` (`Integer.gt/eq` = `IntOps.gt/eq`, `Float.gt/eq/_abs_gt` =
  `Mbf.gt/eq/absGt`), and of the promotion branches inside those methods
  (`Integer.gt(Float)`, `Float.gt(Integer)`, `Single.gt(Double)`).

  A numeric value is its stored pattern: a 16-bit word, or the (mantissa integer, exponent byte)
  pair of a Single / Double.
-/
namespace PcbV.Compare
open PcbV PcbV.Mbf

inductive Num where
  | int (w : Nat)
  | sng (x : F)
  | dbl (x : F)
deriving DecidableEq, Repr

/-- the value an `FR` yields after `float_safe` / `FloatErrorHandler.handle` (the payload of the
    soft error is used instead); never needed for 16-bit integers, see `C06.fromInt_exact` -/
def unwrap : FR → F
  | .ok x => x
  | .error (_, x) => x

/-- `Float.from_integer(in_integer)` = `from_int(in_integer.to_int())` -/
def intToF (f : Fmt) (w : Nat) : F := unwrap (fromInt f (IntOps.toInt w))

/-- `values.to_single(num)` -/
def toSingleNum : Num → F
  | .int w => intToF single w
  | .sng x => x
  | .dbl x => unwrap (Mbf.toSingle x)     -- not reached from match_types

/-- `values.to_double(num)` -/
def toDoubleNum : Num → F
  | .int w => intToF double w
  | .sng x => fromSingle x
  | .dbl x => x

/-- the result of `match_types(left, right)` for two numbers -/
inductive Matched where
  | ints (a b : Nat)
  | sngs (x y : F)
  | dbls (x y : F)
deriving DecidableEq, Repr

def isDbl : Num → Bool
  | .dbl _ => true
  | _ => false

def isSng : Num → Bool
  | .sng _ => true
  | _ => false

/-- `match_types`: convert both to the highest precision present -/
def matchTypes (l r : Num) : Matched :=
  if isDbl l || isDbl r then .dbls (toDoubleNum l) (toDoubleNum r)
  else if isSng l || isSng r then .sngs (toSingleNum l) (toSingleNum r)
  else match l, r with
    | .int a, .int b => .ints a b
    | _, _ => .ints 0 0      -- unreachable: both are integers here

/-- `left.eq(right)` after `match_types` -/
def Matched.eq : Matched → Bool
  | .ints a b => IntOps.eq a b
  | .sngs x y => Mbf.eq x y
  | .dbls x y => Mbf.eq x y

/-- `left.gt(right)` after `match_types` -/
def Matched.gt : Matched → Bool
  | .ints a b => IntOps.gt a b
  | .sngs x y => Mbf.gt single x y
  | .dbls x y => Mbf.gt double x y

def boolEq (l r : Num) : Bool := (matchTypes l r).eq
def boolGt (l r : Num) : Bool := (matchTypes l r).gt

/-- `Values.from_bool`: Integer pattern ff ff (−1) or 00 00 -/
def fromBool (b : Bool) : Nat := if b then 65535 else 0

def eq (l r : Num) : Nat := fromBool (boolEq l r)
def neq (l r : Num) : Nat := fromBool (!boolEq l r)
def gt (l r : Num) : Nat := fromBool (boolGt l r)
def gte (l r : Num) : Nat := fromBool (!boolGt r l)
def lte (l r : Num) : Nat := fromBool (!boolGt l r)
def lt (l r : Num) : Nat := fromBool (boolGt r l)

/-! ### the promotion branches inside the methods themselves
    (`Integer.gt/eq` with a Float rhs, `Float.gt/eq` with an Integer rhs, `Single.gt/eq(Double)`).
    `Double.gt/eq(Single)` has no branch in the code (values.py always promotes first): `none`. -/

def methodGt : Num → Num → Option Bool
  | .int a, .int b => some (IntOps.gt a b)
  | .int a, .sng y => some (Mbf.gt single (intToF single a) y)
  | .int a, .dbl y => some (Mbf.gt double (intToF double a) y)
  | .sng x, .int b => some (Mbf.gt single x (intToF single b))
  | .dbl x, .int b => some (Mbf.gt double x (intToF double b))
  | .sng x, .sng y => some (Mbf.gt single x y)
  | .dbl x, .dbl y => some (Mbf.gt double x y)
  | .sng x, .dbl y => some (Mbf.gt double (fromSingle x) y)
  | .dbl _, .sng _ => none

def methodEq : Num → Num → Option Bool
  | .int a, .int b => some (IntOps.eq a b)
  | .int a, .sng y => some (Mbf.eq (intToF single a) y)
  | .int a, .dbl y => some (Mbf.eq (intToF double a) y)
  | .sng x, .int b => some (Mbf.eq x (intToF single b))
  | .dbl x, .int b => some (Mbf.eq x (intToF double b))
  | .sng x, .sng y => some (Mbf.eq x y)
  | .dbl x, .dbl y => some (Mbf.eq x y)
  | .sng x, .dbl y => some (Mbf.eq (fromSingle x) y)
  | .dbl _, .sng _ => none

end PcbV.Compare
