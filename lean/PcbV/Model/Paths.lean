/-
  PcbV.Model.Paths — BASIC path resolution of pcbasic/basic/devices/disk.py and device selection of
  pcbasic/basic/devices/files.py:
    ntpath.splitroot / split / normpath (CPython 3.12 pure-Python versions, bytes flavour),
    DiskDevice._get_native_reldir, _get_native_abspath, chdir, _split_pathmask,
    Files._get_diskdevice_and_path, Files._get_device_param.
  Host paths: see PcbV.Model.DosNames (split form relative to the mount root).
-/
import PcbV.Model.DosNames
namespace PcbV.Paths
open PcbV PcbV.Gen PcbV.Gen.DosTables PcbV.DosNames

def BSL : Nat := 92   -- backslash
def SL : Nat := 47    -- slash
def COLON : Nat := 58

/-! ### ntpath (bytes) -/

/-- `bytes.split(sep)` for a one-byte separator: never returns the empty list -/
def splitOn (c : Nat) : Bytes → List Bytes
  | [] => [[]]
  | b :: rest =>
    if b = c then [] :: splitOn c rest
    else match splitOn c rest with
      | h :: t => (b :: h) :: t
      | [] => [[b]]

/-- `sep.join(parts)` -/
def joinSep (c : Nat) : List Bytes → Bytes
  | [] => []
  | [a] => a
  | a :: rest => a ++ c :: joinSep c rest

/-- `s.find(c, start)` -/
def findFrom (c : Nat) (s : Bytes) (start : Nat) : Option Nat :=
  match (s.drop start).idxOf? c with
  | some i => some (start + i)
  | none => none

def slashToBsl (p : Bytes) : Bytes := p.map (fun b => if b = SL then BSL else b)

/-- b'\\\\?\\UNC\\' -/
def uncPrefix : Bytes := [92, 92, 63, 92, 85, 78, 67, 92]

/-- `ntpath.splitroot` (3.12) -/
def splitroot (p : Bytes) : Bytes × Bytes × Bytes :=
  let normp := slashToBsl p
  if normp.take 1 = [BSL] then
    if (normp.drop 1).take 1 = [BSL] then
      let start := if upper (normp.take 8) = uncPrefix then 8 else 2
      match findFrom BSL normp start with
      | none => (p, [], [])
      | some i =>
        match findFrom BSL normp (i + 1) with
        | none => (p, [], [])
        | some j => (p.take j, (p.drop j).take 1, p.drop (j + 1))
    else ([], p.take 1, p.drop 1)
  else if (normp.drop 1).take 1 = [COLON] then
    if (normp.drop 2).take 1 = [BSL] then (p.take 2, (p.drop 2).take 1, p.drop 3)
    else (p.take 2, [], p.drop 2)
  else ([], [], p)

def isSep (b : Nat) : Bool := b == BSL || b == SL

/-- `ntpath.split` -/
def ntsplit (p : Bytes) : Bytes × Bytes :=
  let drp := splitroot p
  let rest := drp.2.2
  let tailRev := rest.reverse.takeWhile (fun b => !isSep b)
  let headRev := rest.reverse.dropWhile (fun b => !isSep b)
  (drp.1 ++ drp.2.1 ++ (headRev.dropWhile isSep).reverse, tailRev.reverse)

/-- the `while i < len(comps)` loop of `ntpath.normpath`, as a stack machine
    (`acc` = the already processed components, reversed) -/
def normLoop (root : Bool) : List Bytes → List Bytes → List Bytes
  | [], acc => acc.reverse
  | c :: rest, acc =>
    if c = [] ∨ c = DOT then normLoop root rest acc
    else if c = DOTDOT then
      match acc with
      | top :: acc' =>
        if top ≠ DOTDOT then normLoop root rest acc' else normLoop root rest (c :: acc)
      | [] => if root then normLoop root rest [] else normLoop root rest [c]
    else normLoop root rest (c :: acc)

/-- `ntpath.normpath` (3.12 pure-Python version, used on POSIX hosts) -/
def normpath (p : Bytes) : Bytes :=
  let p := slashToBsl p
  let drp := splitroot p
  let pre := drp.1 ++ drp.2.1
  let comps := normLoop (!drp.2.1.isEmpty) (splitOn BSL drp.2.2) []
  let comps := if pre.isEmpty && comps.isEmpty then [DOT] else comps
  pre ++ joinSep BSL comps

/-! ### DiskDevice -/

/-- the `while dospath_elements and dospath_elements[0] in (b'', b'.', b'..')` loop -/
def dropLead : List Bytes → HostPath → List Bytes × HostPath
  | [], cwd => ([], cwd)
  | e :: rest, cwd =>
    if e = [] ∨ e = DOT then dropLead rest cwd
    else if e = DOTDOT then dropLead rest cwd.dropLast
    else (e :: rest, cwd)

/-- `for dos_elem in dospath_elements: path = join(path, _get_native_name(path, dos_elem, isdir=True))` -/
def walk (nn : HostPath → Bytes → R HostName) : List Bytes → HostPath → R HostPath
  | [], path => .ok path
  | e :: rest, path =>
    match nn path e with
    | .error n => .error n
    | .ok c => walk nn rest (joinC path c)

/-- the repair: trailing blanks of every element are dropped before `.`/`..` are recognised -/
def stripElems (dospath : Bytes) : Bytes :=
  joinSep BSL ((splitOn BSL dospath).map (fun e => if (rstrip e).isEmpty then e else rstrip e))

/-- common body of `_get_native_reldir`, parameterised by the element resolver, the pre-pass and `normpath` -/
def reldirWith (nn : HostPath → Bytes → R HostName) (pre np : Bytes → Bytes)
    (mounted : Bool) (cwd : HostPath) (dospath : Bytes) : R HostPath :=
  if dospath.contains SL then .error E.bad_file_number else
  if !mounted then .error E.path_not_found else
  let cwd0 : HostPath := if dospath.take 1 = [BSL] then [] else cwd
  let els := splitOn BSL (np (pre dospath))
  let ec := dropLead els cwd0
  -- os.path.join(self._native_root, *cwd)
  walk nn ec.1 (ec.2.foldl joinC [[]])

/-- `DiskDevice._get_native_reldir` (repaired code); `cwd` is `self._native_cwd.split(os.sep)` -/
def reldir (fs : FS) (mounted : Bool) (cwd : HostPath) (dospath : Bytes) : R HostPath :=
  reldirWith (fun path e => nativeName fs path e [] true false) stripElems normpath mounted cwd dospath

/-- the code before the repair -/
def reldirOld (fs : FS) (mounted : Bool) (cwd : HostPath) (dospath : Bytes) : R HostPath :=
  reldirWith (fun path e => nativeNameOld fs path e [] true false) id normpath mounted cwd dospath

/-- `DiskDevice._get_native_abspath` before `os.path.abspath` is applied -/
def abspathRaw (fs : FS) (mounted : Bool) (cwd : HostPath) (path defext : Bytes) (isdir create : Bool) :
    R HostPath :=
  let dn := ntsplit path
  match reldir fs mounted cwd dn.1 with
  | .error n => .error n
  | .ok rel =>
    if dn.2.isEmpty then .ok rel else
    match nativeName fs rel dn.2 defext isdir create with
    | .error n => .error n
    | .ok c => .ok (joinC rel c)

def abspathRawOld (fs : FS) (mounted : Bool) (cwd : HostPath) (path defext : Bytes) (isdir create : Bool) :
    R HostPath :=
  let dn := ntsplit path
  match reldirOld fs mounted cwd dn.1 with
  | .error n => .error n
  | .ok rel =>
    if dn.2.isEmpty then .ok rel else
    match nativeNameOld fs rel dn.2 defext isdir create with
    | .error n => .error n
    | .ok c => .ok (joinC rel c)

/-- `os.path.abspath` on a split form: (levels above the mount root, remaining components).
    This is where `.`/`..` get their POSIX (lexical) meaning. -/
def lexNorm : HostPath → Nat × HostPath → Nat × HostPath
  | [], st => (st.1, st.2.reverse)
  | c :: rest, (ups, acc) =>
    if c = [] ∨ c = [46] then lexNorm rest (ups, acc)
    else if c = [46, 46] then
      match acc with
      | _ :: acc' => lexNorm rest (ups, acc')
      | [] => lexNorm rest (ups + 1, [])
    else lexNorm rest (ups, c :: acc)

/-- `DiskDevice._get_native_abspath`: (levels above the mount root, components below) -/
def abspath (fs : FS) (mounted : Bool) (cwd : HostPath) (path defext : Bytes) (isdir create : Bool) :
    R (Nat × HostPath) :=
  match abspathRaw fs mounted cwd path defext isdir create with
  | .error n => .error n
  | .ok p => .ok (lexNorm p (0, []))

def abspathOld (fs : FS) (mounted : Bool) (cwd : HostPath) (path defext : Bytes) (isdir create : Bool) :
    R (Nat × HostPath) :=
  match abspathRawOld fs mounted cwd path defext isdir create with
  | .error n => .error n
  | .ok p => .ok (lexNorm p (0, []))

/-- `DiskDevice.chdir`: the new `_native_cwd` (unchanged when resolution fails) -/
def chdir (fs : FS) (mounted : Bool) (cwd : HostPath) (dospath : Bytes) : HostPath :=
  match reldir fs mounted cwd dospath with
  | .ok p => p
  | .error _ => cwd

/-- a history of CHDIR statements on one drive, starting at the root (`''.split('/') = ['']`) -/
def chdirs (fs : FS) (mounted : Bool) (hist : List Bytes) : HostPath :=
  hist.foldl (chdir fs mounted) [[]]

/-- `DiskDevice._split_pathmask` (KILL, FILES): listed directory and mask -/
def splitPathmask (fs : FS) (mounted : Bool) (cwd : HostPath) (pathmask : Bytes) : R (HostPath × Bytes) :=
  if pathmask.contains SL then .error E.file_not_found else
  let dm := ntsplit pathmask
  match reldir fs mounted cwd dm.1 with
  | .error _ => .error E.file_not_found
  | .ok rel => .ok (rel, dm.2)

/-! ### the file statements: host paths they operate on -/

inductive Stmt where
  | openIn (defext : Bytes)      -- OPEN FOR INPUT, LOAD, MERGE, CHAIN, RUN, BLOAD (create=False)
  | openOut (defext : Bytes)     -- OPEN FOR OUTPUT/APPEND/RANDOM, SAVE, BSAVE (create=True)
  | mkdir | rmdir
  | kill | files
  | nameOld | nameNew            -- the two arguments of NAME
  | chdir
deriving DecidableEq

/-- what a statement resolves its path argument to: the file or directory it then operates on;
    for KILL / FILES the directory that is listed (removed files are entries of that listing) -/
def target (fs : FS) (mounted : Bool) (cwd : HostPath) (s : Stmt) (arg : Bytes) : R HostPath :=
  match s with
  | .openIn d => abspathRaw fs mounted cwd arg d false false
  | .openOut d => abspathRaw fs mounted cwd arg d false true
  | .mkdir => abspathRaw fs mounted cwd arg [] true true
  | .rmdir => abspathRaw fs mounted cwd arg [] true false
  | .kill => match splitPathmask fs mounted cwd arg with | .ok dm => .ok dm.1 | .error n => .error n
  | .files => match splitPathmask fs mounted cwd arg with | .ok dm => .ok dm.1 | .error n => .error n
  | .nameOld => abspathRaw fs mounted cwd arg [] false false
  | .nameNew => abspathRaw fs mounted cwd arg [] false true
  | .chdir => reldir fs mounted cwd arg

/-! ### Files: device selection -/

/-- `Files._get_diskdevice_and_path` (repaired: the device name must be ONE drive letter);
    `current` is `self._current_device` (bytes, e.g. b'C' or b'CAS1') -/
def diskDeviceAndPath (current : Bytes) (spec : Bytes) : R (Nat × Bytes) :=
  let dv : Bytes × Bytes :=
    if spec.contains COLON then (upper (spec.takeWhile (· != COLON)), (spec.dropWhile (· != COLON)).drop 1)
    else (current, spec)
  match dv.1 with
  | [l] => if driveLetters.contains l then .ok (l, dv.2) else .error E.device_unavailable
  | _ => .error E.device_unavailable

/-- the code before the repair: `dev not in DRIVE_LETTERS` is a substring test on bytes;
    a name that passes it but is not a key of the device table raises KeyError (reply 0 here) -/
def isInfix (a b : Bytes) : Bool := (List.range (b.length + 1)).any (fun i => (b.drop i).take a.length == a)

def diskDeviceAndPathOld (current : Bytes) (spec : Bytes) : R (Nat × Bytes) :=
  let dv : Bytes × Bytes :=
    if spec.contains COLON then (upper (spec.takeWhile (· != COLON)), (spec.dropWhile (· != COLON)).drop 1)
    else (current, spec)
  if !isInfix dv.1 driveLetters then .error E.device_unavailable else
  match dv.1 with
  | [l] => .ok (l, dv.2)
  | _ => .error 0

/-- full resolution of a statement argument that names a disk path: device selection, then the drive's
    own resolution.  `mounted l` says whether drive letter `l` has a mount directory; `cwds l` is its cwd. -/
def resolve (fs : Nat → FS) (mounted : Nat → Bool) (cwds : Nat → HostPath) (current : Bytes)
    (s : Stmt) (spec : Bytes) : R (Nat × HostPath) :=
  match diskDeviceAndPath current spec with
  | .error n => .error n
  | .ok (l, rest) =>
    match target (fs l) (mounted l) (cwds l) s rest with
    | .error n => .error n
    | .ok p => .ok (l, p)

/-! ### a concrete file system given by its directory and file paths (used by the driver and by examples) -/

/-- directories / files are listed by their component lists below the mount root; everything above the
    root is a directory without visible content (only used by the model of the unrepaired code) -/
def treeFS (dirs files : List HostPath) : FS :=
  { isDir := fun p =>
      let uq := lexNorm p (0, [])
      if uq.1 > 0 then uq.2.isEmpty else uq.2.isEmpty || dirs.contains uq.2
    isFile := fun p =>
      let uq := lexNorm p (0, [])
      uq.1 == 0 && files.contains uq.2
    listdir := fun p =>
      let uq := lexNorm p (0, [])
      if uq.1 > 0 then none
      else if uq.2.isEmpty || dirs.contains uq.2 then
        some ((dirs ++ files).filterMap (fun e => if !e.isEmpty && e.dropLast == uq.2 then e.getLast? else none))
      else none }

end PcbV.Paths
