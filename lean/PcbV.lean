import PcbV.Basic
import PcbV.Drv.All
