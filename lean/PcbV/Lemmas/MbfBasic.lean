import PcbV.Model.Mbf
/-
  Shared definitions for the MBF theorems (C03–C07): well-formedness of the regenerated
  format constants, validity of a stored value, and the exact rational value of a pattern.
-/
namespace PcbV.Mbf

/-- the regenerated class attributes of the current source have the mask shapes the model relies on -/
theorem single_wf : single.WF := by decide
theorem double_wf : double.WF := by decide

theorem single_w : single.w = 24 := by decide
theorem double_w : double.w = 56 := by decide

/-- a stored value: mantissa bytes and exponent byte in range -/
def F.Valid (f : Fmt) (x : F) : Prop := x.m < 2 ^ f.w ∧ x.e < 256

instance (f : Fmt) (x : F) : Decidable (F.Valid f x) := by unfold F.Valid; exact inferInstance

/-- mantissa with the implied leading bit (2^(w-1) ≤ man < 2^w for valid x) -/
def manOf (f : Fmt) (x : F) : Nat := if isNeg f x then x.m else x.m + f.signMask

/-- 2^k for an integer exponent, as a rational -/
def pow2 (k : Int) : Rat := if k ≥ 0 then (2 : Rat) ^ k.toNat else 1 / (2 : Rat) ^ (-k).toNat

/-- exact value of a pattern: 0 iff the exponent byte is 0, else ±man·2^(e-bias) -/
def val (f : Fmt) (x : F) : Rat :=
  if x.e = 0 then 0
  else (if isNeg f x then -1 else 1) * (manOf f x : Rat) * pow2 ((x.e : Int) - f.bias)

end PcbV.Mbf
