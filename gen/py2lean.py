"""
Translator, part 2: mechanical translation of straight-line integer code from the /repo source into
Lean definitions over `Int` (Python's unbounded ints).  Supported subset: int constants, names,
`self._attr` / module-level constants (resolved to their current values, or turned into explicit
parameters of the Lean definition), tuple-constant indexing, + - * // % ^ & | unary -, `<<`/`>>` by a
constant (`* 2^k`, floor division by `2^k`), abs(), min(), max(), int() of an int, divmod() and tuple
assignment, comparisons (chained), and/or/not, truth value of an int, conditional expressions, and
statement lists made of Assign / AugAssign / If / Return / Raise (a `raise` listed in `raises` becomes
a sentinel value).  A local bound to a tuple-valued expression (e.g. `buf = bytearray(self._buffer)` when
the glue maps that view to the byte parameters) is an alias: `buf[i]` are those components.  A call of a
helper of the same class (`self.m(..)`, `cls.m(..)`, `ClassName.m(..)`; staticmethod, classmethod or
method) or of a function of the same module whose body is itself in the subset is inlined as a closed
Lean term: an argument that is a bare name or attribute is substituted textually (so that the glue's
source-text mappings `len(name)` .. still apply), any other argument must be an int expression and is
bound once to a fresh name; depth limit
and cycle check; free names of the callee must be module-level int constants.  A function returning a tuple is translated once per component.  Anything else
raises Unsupported; the
generator then emits `unsupported := true` for that function so that the tie is reported as lost
(the hand-written model + correspondence remain).
"""
import ast
import inspect
import textwrap


class Unsupported(Exception):
    pass


BINOPS = {
    ast.Add: '({} + {})', ast.Sub: '({} - {})', ast.Mult: '({} * {})',
    ast.FloorDiv: '(Int.fdiv {} {})', ast.Mod: '(Int.fmod {} {})',
    ast.BitXor: '(PcbV.PyInt.xor {} {})', ast.BitAnd: '(PcbV.PyInt.land {} {})', ast.BitOr: '(PcbV.PyInt.lor {} {})',
}
CMPOPS = {ast.Eq: '==', ast.NotEq: '!=', ast.Lt: '<', ast.LtE: '≤', ast.Gt: '>', ast.GtE: '≥'}


class Tr(object):
    def __init__(self, consts, calls=None, bool_names=(), bools=None, raises=None, component=None,
                 ret_bool=False, hooks=()):
        # name / 'self._x' -> python value: int or tuple of ints (resolved constant), str (Lean text: a
        # parameter of the definition or an already translated definition applied to parameters), or a
        # list of str (a tuple-valued attribute, e.g. self._rect -> [r0, r1, r2, r3])
        self.consts = consts
        # source text of an expression (call, subscript, attribute) -> Lean text, or list of Lean texts
        # for a tuple-valued call
        self.calls = calls or {}
        self.bool_names = set(bool_names)
        self.bools = bools or {}      # source text of a boolean-valued expression -> Lean Bool text
        self.raises = raises or {}    # source text of a raise statement -> Lean text of the sentinel
        self.component = component    # which component of a returned tuple this definition is
        self.ret_bool = ret_bool      # the function returns a truth value
        self.hooks = list(hooks)      # functions (tr, stmt, rest, result) -> Lean text or None
        self.tuples = {}              # local name bound to a tuple -> list of Lean names
        self.fresh = 0
        self.scope = None             # (class or None, module) of the function being translated
        self.stack = ()               # qualified names of the helpers being inlined (cycle check)

    MAX_INLINE_DEPTH = 3

    def set_scope(self, fn_obj):
        """Where helper calls are resolved: the module and (if any) class of the translated function."""
        fn = getattr(fn_obj, 'fget', None) or getattr(fn_obj, '__func__', None) or fn_obj
        module = inspect.getmodule(fn)
        cls = None
        parts = getattr(fn, '__qualname__', '').split('.')
        if len(parts) >= 2 and '<locals>' not in parts:
            cls = getattr(module, parts[-2], None)
            if not inspect.isclass(cls):
                cls = None
        self.scope = (cls, module)
        self.stack = (getattr(fn, '__qualname__', repr(fn)),)
        return self

    def fresh_name(self, base):
        self.fresh += 1
        return '%s__%d' % (base, self.fresh)

    def helper(self, n):
        """Resolve a call node to (function object, bound): a helper of the same class or module, else None."""
        if self.scope is None or n.keywords or any(isinstance(a, ast.Starred) for a in n.args):
            return None
        cls, module = self.scope
        f = n.func
        if isinstance(f, ast.Name):
            obj = getattr(module, f.id, None)
            if inspect.isfunction(obj) and inspect.getmodule(obj) is module:
                return obj, False
            return None
        if isinstance(f, ast.Attribute) and isinstance(f.value, ast.Name) and cls is not None \
                and f.value.id in ('self', 'cls', cls.__name__):
            try:
                raw = inspect.getattr_static(cls, f.attr)
            except AttributeError:
                return None
            if isinstance(raw, staticmethod):
                return raw.__func__, False
            if isinstance(raw, classmethod):
                return raw.__func__, True
            if inspect.isfunction(raw) and f.value.id == 'self':
                return raw, True       # ordinary method called on self: first parameter is self
        return None

    def inline(self, n, kind):
        """Inline the call `n` of a helper; kind: 'int' | 'bool'.  Returns Lean text or None if `n` is no helper."""
        found = self.helper(n)
        if found is None:
            return None
        fn, bound = found
        qual = fn.__qualname__
        if qual in self.stack:
            raise Unsupported('recursive helper ' + qual)
        if len(self.stack) > self.MAX_INLINE_DEPTH:
            raise Unsupported('helper calls nested too deeply at ' + qual)
        fa = function_ast(fn)
        a = fa.args
        if a.vararg or a.kwarg or a.kwonlyargs or a.posonlyargs or a.defaults:
            raise Unsupported('helper %s has a non-plain signature' % qual)
        params = [x.arg for x in a.args]
        if bound:
            params = params[1:]
        if len(params) != len(n.args):
            raise Unsupported('helper %s called with %d arguments' % (qual, len(n.args)))
        body = [st for st in fa.body if not (isinstance(st, ast.Expr) and isinstance(st.value, ast.Constant))]
        # free names of the callee: only parameters, its own locals, the supported builtins, int constants of its module
        assigned = {t.id for st in body for t in ast.walk(st) if isinstance(t, ast.Name) and isinstance(t.ctx, ast.Store)}
        module = inspect.getmodule(fn)
        sub = Tr(dict(self.consts), calls=dict(self.calls), bools=dict(self.bools), raises=dict(self.raises),
                 ret_bool=(kind == 'bool'), hooks=self.hooks)
        sub.scope = (self.scope[0] if bound or '.' in qual else None, module)
        if '.' in qual:
            owner = getattr(module, qual.split('.')[-2], None)
            sub.scope = (owner if inspect.isclass(owner) else None, module)
        sub.stack = self.stack + (qual,)
        sub.fresh = self.fresh + 100 * len(sub.stack)
        for node in (x for st in body for x in ast.walk(st)):
            if isinstance(node, ast.Name) and isinstance(node.ctx, ast.Load):
                nm = node.id
                if nm in params or nm in assigned or nm in ('self', 'cls', 'abs', 'min', 'max', 'int', 'bool', 'len', 'divmod') \
                        or nm == (sub.scope[0].__name__ if sub.scope[0] else None):
                    continue
                val = getattr(module, nm, None)
                if isinstance(val, int) and not isinstance(val, bool):
                    sub.consts.setdefault(nm, val)
                elif not inspect.isfunction(val):
                    raise Unsupported('helper %s uses the free name %s' % (qual, nm))
        # bind the arguments
        lets, rename, subst = '', {}, {}
        for prm, arg in zip(params, n.args):
            root = arg
            while isinstance(root, ast.Attribute):
                root = root.value
            if isinstance(arg, (ast.Name, ast.Attribute)) and isinstance(root, ast.Name) and root.id not in assigned \
                    and prm not in assigned:
                # a bare name / attribute (int or not, e.g. bytes): substituted textually, so that the
                # source-text mappings of the glue (`len(name)`, `self._x`) apply inside the helper;
                # no capture: the helper assigns neither that name nor the parameter
                subst[prm] = arg
            else:
                fresh = self.fresh_name(prm)
                lets += 'let %s : Int := %s\n  ' % (fresh, self.expr(arg))
                rename[prm] = fresh

        class Bind(ast.NodeTransformer):
            def visit_Name(self, node):
                if node.id in rename:
                    return ast.copy_location(ast.Name(id=rename[node.id], ctx=node.ctx), node)
                if node.id in subst and isinstance(node.ctx, ast.Load):
                    return ast.copy_location(ast.parse(ast.unparse(subst[node.id]), mode='eval').body, node)
                return node
        body = [ast.fix_missing_locations(Bind().visit(st)) for st in body]
        return '(%s%s)' % (lets, sub.stmts(body, 'false' if kind == 'bool' else '0'))

    def src(self, node):
        return ast.unparse(node)

    def const_int(self, n):
        """Value of an expression that is an int literal (possibly negated), else None."""
        if isinstance(n, ast.Constant) and isinstance(n.value, int) and not isinstance(n.value, bool):
            return n.value
        if isinstance(n, ast.UnaryOp) and isinstance(n.op, ast.USub):
            v = self.const_int(n.operand)
            return None if v is None else -v
        return None

    def expr(self, n):
        key = self.src(n)
        if key in self.calls and isinstance(self.calls[key], str):
            return self.calls[key]
        if isinstance(n, ast.Constant) and isinstance(n.value, int) and not isinstance(n.value, bool):
            return '(%d : Int)' % n.value
        if isinstance(n, ast.Name):
            if n.id in self.tuples:
                raise Unsupported('tuple %s used as a number' % n.id)
            if n.id in self.consts and isinstance(self.consts[n.id], int):
                return '(%d : Int)' % self.consts[n.id]
            if n.id in self.consts and isinstance(self.consts[n.id], str):
                return self.consts[n.id]
            # a module-level int constant of the translated function's module (constant naming convention only,
            # so that a local can never be mistaken for one)
            if self.scope is not None and n.id.upper() == n.id and any(ch.isalpha() for ch in n.id):
                v = getattr(self.scope[1], n.id, None)
                if isinstance(v, int) and not isinstance(v, bool):
                    return '(%d : Int)' % v
            return n.id
        if isinstance(n, ast.Attribute):
            if key in self.consts and isinstance(self.consts[key], int):
                return '(%d : Int)' % self.consts[key]
            if key in self.consts and isinstance(self.consts[key], str):
                return self.consts[key]
            raise Unsupported('attribute ' + key)
        if isinstance(n, ast.Call):
            fname = n.func.id if isinstance(n.func, ast.Name) else None
            if fname == 'abs' and len(n.args) == 1 and not n.keywords:
                return '((Int.natAbs %s : Nat) : Int)' % self.expr(n.args[0])
            if fname in ('min', 'max') and len(n.args) == 2 and not n.keywords:
                return '(%s %s %s)' % (fname, self.expr(n.args[0]), self.expr(n.args[1]))
            if fname == 'int' and len(n.args) == 1 and not n.keywords:
                # int() of a value that is already an int in this translation
                return self.expr(n.args[0])
            inl = self.inline(n, 'int')
            if inl is not None:
                return inl
            raise Unsupported('call ' + key)
        if isinstance(n, ast.Subscript):
            vkey = self.src(n.value)
            if vkey in self.consts and isinstance(self.consts[vkey], tuple):
                tab = '[' + ', '.join('(%d : Int)' % v for v in self.consts[vkey]) + ']'
                return '(%s.getD (Int.toNat %s) 0)' % (tab, self.expr(n.slice))
            try:
                items = self.tuple_expr(n.value)
            except Unsupported:
                items = None
            k = self.const_int(n.slice)
            if items is not None and k is not None and -len(items) <= k < len(items):
                return items[k]
            raise Unsupported('subscript ' + key)
        if isinstance(n, ast.BinOp):
            if isinstance(n.op, (ast.LShift, ast.RShift)):
                k = self.const_int(n.right)
                if k is None or k < 0:
                    raise Unsupported('shift by a non-constant')
                if isinstance(n.op, ast.LShift):
                    return '(%s * (%d : Int))' % (self.expr(n.left), 1 << k)
                # Python >> is floor division by 2^k, also for negative numbers
                return '(Int.fdiv %s (%d : Int))' % (self.expr(n.left), 1 << k)
            if type(n.op) not in BINOPS:
                raise Unsupported('operator ' + type(n.op).__name__)
            return BINOPS[type(n.op)].format(self.expr(n.left), self.expr(n.right))
        if isinstance(n, ast.UnaryOp) and isinstance(n.op, ast.USub):
            return '(- %s)' % self.expr(n.operand)
        if isinstance(n, ast.IfExp):
            return '(if %s then %s else %s)' % (self.cond(n.test), self.expr(n.body), self.expr(n.orelse))
        raise Unsupported('expression ' + self.src(n))

    def tuple_expr(self, n):
        """Tuple-valued expression -> list of Lean texts."""
        key = self.src(n)
        if key in self.calls and isinstance(self.calls[key], list):
            return list(self.calls[key])
        if key in self.consts and isinstance(self.consts[key], list):
            return list(self.consts[key])
        if isinstance(n, ast.Tuple):
            return [self.expr(e) for e in n.elts]
        if isinstance(n, ast.Name) and n.id in self.tuples:
            return list(self.tuples[n.id])
        if (isinstance(n, ast.Call) and isinstance(n.func, ast.Name) and n.func.id == 'divmod'
                and len(n.args) == 2 and not n.keywords):
            a, b = self.expr(n.args[0]), self.expr(n.args[1])
            return ['(Int.fdiv %s %s)' % (a, b), '(Int.fmod %s %s)' % (a, b)]
        raise Unsupported('tuple expression ' + key)

    def cond(self, n):
        """Boolean-valued expression as a Lean Bool."""
        key = self.src(n)
        if key in self.bools:
            return self.bools[key]
        if isinstance(n, ast.Constant) and isinstance(n.value, bool):
            return 'true' if n.value else 'false'
        if (isinstance(n, ast.Call) and isinstance(n.func, ast.Name) and n.func.id == 'bool'
                and len(n.args) == 1 and not n.keywords):
            return self.cond(n.args[0])
        if isinstance(n, ast.Compare):
            parts = []
            left = n.left
            for op, right in zip(n.ops, n.comparators):
                if type(op) not in CMPOPS:
                    raise Unsupported('comparison ' + type(op).__name__)
                lb, rb = self.is_bool(left), self.is_bool(right)
                if lb or rb:
                    if type(op) not in (ast.Eq, ast.NotEq):
                        raise Unsupported('ordering of booleans')
                    parts.append('(%s %s %s)' % (self.cond(left), CMPOPS[type(op)], self.cond(right)))
                else:
                    parts.append('(decide (%s %s %s))' % (self.expr(left), {'==': '=', '!=': '≠'}.get(
                        CMPOPS[type(op)], CMPOPS[type(op)]), self.expr(right)))
                left = right
            return '(' + ' && '.join(parts) + ')'
        if isinstance(n, ast.BoolOp):
            j = ' && ' if isinstance(n.op, ast.And) else ' || '
            return '(' + j.join(self.cond(v) for v in n.values) + ')'
        if isinstance(n, ast.UnaryOp) and isinstance(n.op, ast.Not):
            return '(!%s)' % self.cond(n.operand)
        if isinstance(n, ast.Name) and n.id in self.bool_names:
            return n.id
        if isinstance(n, ast.IfExp):
            return '(if %s then %s else %s)' % (self.cond(n.test), self.cond(n.body), self.cond(n.orelse))
        if isinstance(n, ast.Call) and self.helper(n) is not None and self.helper_returns_bool(n):
            return self.inline(n, 'bool')
        # truth value of an int
        return '(decide (%s ≠ (0 : Int)))' % self.expr(n)

    def helper_returns_bool(self, n):
        """Every `return` of the helper is syntactically a truth value."""
        fa = function_ast(self.helper(n)[0])
        rets = [x for x in ast.walk(fa) if isinstance(x, ast.Return)]
        probe = Tr({}, bools=self.bools)
        return bool(rets) and all(r.value is not None and probe.is_bool(r.value) for r in rets)

    def is_bool(self, n):
        return isinstance(n, (ast.Compare, ast.BoolOp)) or (isinstance(n, ast.UnaryOp) and isinstance(n.op, ast.Not)) \
            or (isinstance(n, ast.Name) and n.id in self.bool_names) or self.src(n) in self.bools \
            or (isinstance(n, ast.Constant) and isinstance(n.value, bool)) \
            or (isinstance(n, ast.Call) and isinstance(n.func, ast.Name) and n.func.id == 'bool') \
            or (isinstance(n, ast.Call) and self.helper(n) is not None and self.helper_returns_bool(n))

    def stmts(self, body, result):
        """Statement list -> Lean expression; `result` is the Lean text of the value if the list falls through."""
        if not body:
            return result
        s, rest = body[0], body[1:]
        for hook in self.hooks:
            r = hook(self, s, rest, result)
            if r is not None:
                return r
        if isinstance(s, ast.Return):
            return self.ret(s.value)
        if isinstance(s, ast.Raise):
            key = self.src(s)
            if key in self.raises:
                return self.raises[key]
            raise Unsupported('raise ' + key)
        if isinstance(s, ast.Assign) and len(s.targets) == 1 and isinstance(s.targets[0], ast.Tuple) \
                and all(isinstance(t, ast.Name) for t in s.targets[0].elts):
            names = [t.id for t in s.targets[0].elts]
            vals = self.tuple_expr(s.value)
            if len(vals) != len(names) or len(set(names)) != len(names):
                raise Unsupported('tuple assignment ' + self.src(s))
            # all right-hand sides are evaluated before any target is bound
            self.fresh += 1
            tmps = ['%s__%d' % (v, self.fresh) for v in names]
            for v in names:
                self.tuples.pop(v, None)
                self.bool_names.discard(v)
            out = ''.join('let %s : Int := %s\n  ' % (t, val) for t, val in zip(tmps, vals))
            out += ''.join('let %s : Int := %s\n  ' % (v, t) for v, t in zip(names, tmps))
            return out + self.stmts(rest, result)
        if isinstance(s, ast.Assign) and len(s.targets) == 1 and isinstance(s.targets[0], ast.Name):
            name = s.targets[0].id
            items = None
            if not self.is_bool(s.value):
                try:
                    items = self.tuple_expr(s.value)
                except Unsupported:
                    items = None
            if items is not None:
                # alias of a tuple-valued thing (a buffer view, a tuple): the components are bound once, here
                names = [self.fresh_name('%s_%d' % (name, i)) for i in range(len(items))]
                self.bool_names.discard(name)
                self.tuples[name] = names
                return ''.join('let %s : Int := %s\n  ' % (v, t) for v, t in zip(names, items)) \
                    + self.stmts(rest, result)
            self.tuples.pop(name, None)
            if self.is_bool(s.value):
                self.bool_names.add(name)
                return 'let %s : Bool := %s\n  %s' % (name, self.cond(s.value), self.stmts(rest, result))
            return 'let %s : Int := %s\n  %s' % (name, self.expr(s.value), self.stmts(rest, result))
        if isinstance(s, ast.AugAssign) and isinstance(s.target, ast.Name):
            name = s.target.id
            if type(s.op) not in BINOPS:
                raise Unsupported('augmented operator')
            val = BINOPS[type(s.op)].format(name, self.expr(s.value))
            return 'let %s : Int := %s\n  %s' % (name, val, self.stmts(rest, result))
        if isinstance(s, ast.If):
            returns = any(isinstance(x, (ast.Return, ast.Raise)) for x in ast.walk(s))
            if returns:
                return '(if %s then %s else %s)' % (self.cond(s.test), self.stmts(s.body + rest, result),
                                                     self.stmts(s.orelse + rest, result))
            assigned = sorted(set(self.assigned(s.body)) | set(self.assigned(s.orelse)))
            if not assigned or any(v in self.bool_names or v in self.tuples for v in assigned):
                raise Unsupported('if assigning %r' % (assigned,))
            if len(assigned) == 1:
                v = assigned[0]
                return 'let %s : Int := (if %s then %s else %s)\n  %s' % (
                    v, self.cond(s.test), self.stmts(s.body, v), self.stmts(s.orelse, v), self.stmts(rest, result))
            # several variables: each new value is computed from the old environment, then all are bound
            self.fresh += 1
            k = self.fresh
            test = self.cond(s.test)
            out = ''
            for v in assigned:
                out += 'let %s__%d : Int := (if %s then %s else %s)\n  ' % (
                    v, k, test, self.stmts(s.body, v), self.stmts(s.orelse, v))
            for v in assigned:
                out += 'let %s : Int := %s__%d\n  ' % (v, v, k)
            return out + self.stmts(rest, result)
        if isinstance(s, ast.Expr) and isinstance(s.value, ast.Constant):
            return self.stmts(rest, result)
        raise Unsupported('statement ' + self.src(s))

    def ret(self, value):
        # `return self.from_int(X)` -> X
        if isinstance(value, ast.Call) and self.src(value.func) == 'self.from_int' and len(value.args) == 1:
            return self.expr(value.args[0])
        if self.component is not None:
            items = self.tuple_expr(value)
            if not 0 <= self.component < len(items):
                raise Unsupported('returned tuple has no component %d' % self.component)
            return items[self.component]
        if self.ret_bool:
            return self.cond(value)
        return self.expr(value)

    @staticmethod
    def assigned(body):
        out = []
        for s in body:
            if isinstance(s, ast.Assign) and isinstance(s.targets[0], ast.Name):
                out.append(s.targets[0].id)
            elif isinstance(s, ast.AugAssign) and isinstance(s.target, ast.Name):
                out.append(s.target.id)
            else:
                raise Unsupported('statement in if-branch: ' + ast.unparse(s))
        return out


def function_ast(obj):
    src = textwrap.dedent(inspect.getsource(obj))
    return ast.parse(src).body[0]


def find_statements(fn_ast, first_pred, last_pred):
    """Consecutive statements (anywhere in the body tree) from the first matching first_pred up to and
    including the first following one matching last_pred."""
    for node in ast.walk(fn_ast):
        body = getattr(node, 'body', None)
        if not isinstance(body, list):
            continue
        for i, s in enumerate(body):
            if first_pred(s):
                for j in range(i, len(body)):
                    if last_pred(body[j]):
                        return body[i:j + 1]
    raise Unsupported('statement pattern not found')
