import PcbV.Lemmas.DecimalText
import PcbV.Model.Using
/-
  Support lemmas for PcbV.Props.C08: the character classes of what the digit-string producers
  `to_str_fixed` / `to_str_scientific` return — digits, commas, one point (fixed); the text starts with a
  digit, the point or the exponent letter, never with a sign (both).
-/
namespace PcbV.Using
open PcbV PcbV.Mbf PcbV.Decimal

def IsDigit (c : Nat) : Prop := 48 ≤ c ∧ c ≤ 57

/-- digit, comma or point -/
def FixedChar (c : Nat) : Prop := IsDigit c ∨ c = 44 ∨ c = 46

theorem head_mem {l : Bytes} {c : Nat} (h : l.head? = some c) : c ∈ l := by
  cases l with
  | nil => simp at h
  | cons a t => simp at h; subst h; exact List.mem_cons_self ..

/-! ### `_group_thousands` only adds commas -/

theorem chunks_mem : ∀ (fuel : Nat) (r : Bytes) (ch : Bytes), ch ∈ groupThousands.chunks fuel r → ∀ c ∈ ch, c ∈ r := by
  intro fuel
  induction fuel with
  | zero => intro r ch h; simp [groupThousands.chunks] at h
  | succ k ih =>
    intro r ch h c hc
    unfold groupThousands.chunks at h
    by_cases he : r.isEmpty
    · simp [he] at h
    · simp only [he, Bool.false_eq_true, if_false, List.mem_cons] at h
      rcases h with h | h
      · subst h; exact List.mem_of_mem_take hc
      · exact List.mem_of_mem_drop (ih (r.drop 3) ch h c hc)

theorem intersperse_flatten_mem (sep : Bytes) : ∀ (l : List Bytes) (c : Nat),
    c ∈ (l.intersperse sep).flatten → c ∈ sep ∨ ∃ ch ∈ l, c ∈ ch := by
  intro l
  induction l with
  | nil => intro c h; simp at h
  | cons x t ih =>
    intro c h
    cases t with
    | nil =>
      simp at h
      exact Or.inr ⟨x, List.mem_cons_self .., h⟩
    | cons y zs =>
      simp only [List.intersperse_cons₂, List.flatten_cons, List.mem_append] at h
      rcases h with h | h | h
      · exact Or.inr ⟨x, List.mem_cons_self .., h⟩
      · exact Or.inl h
      · rcases ih c h with h' | ⟨ch, hch, hc⟩
        · exact Or.inl h'
        · exact Or.inr ⟨ch, List.mem_cons_of_mem _ hch, hc⟩

theorem groupThousands_mem (s : Bytes) (c : Nat) (h : c ∈ groupThousands s) : c ∈ s ∨ c = 44 := by
  unfold groupThousands at h
  rcases intersperse_flatten_mem [44] _ c h with h | ⟨ch, hch, hc⟩
  · right; simpa using h
  · left
    by_cases hf : s.length % 3 ≠ 0
    · simp only [hf, ne_eq, not_false_eq_true, if_true, List.mem_cons] at hch
      rcases hch with hch | hch
      · subst hch; exact List.mem_of_mem_take hc
      · exact List.mem_of_mem_drop (chunks_mem _ _ ch hch c hc)
    · simp only [hf, if_false] at hch
      exact List.mem_of_mem_drop (chunks_mem _ _ ch hch c hc)

/-! ### `_decimal_notation` without type sign -/

theorem decimalNotation_chars (nf : NumFmt) (ds : Bytes) (e : Int) (fd g : Bool) (hds : ∀ c ∈ ds, IsDigit c) :
    ∀ c ∈ decimalNotation nf ds e false fd g, FixedChar c := by
  have hgrp : ∀ (s : Bytes), (∀ c ∈ s, IsDigit c) → ∀ c ∈ (if g then groupThousands s else s), FixedChar c := by
    intro s hs c hc
    cases g with
    | false => exact Or.inl (hs c (by simpa using hc))
    | true =>
      rcases groupThousands_mem s c (by simpa using hc) with h | h
      · exact Or.inl (hs c h)
      · exact Or.inr (Or.inl h)
  have h48 : IsDigit 48 := ⟨by decide, by decide⟩
  intro c hc
  unfold decimalNotation at hc
  simp only [Bool.false_eq_true, if_false, List.append_nil] at hc
  -- both branches of the final `if` are the same text
  simp only [ite_self] at hc
  have hc' := hc
  clear hc
  by_cases h1 : e + 1 ≥ (ds.length : Int)
  · simp only [h1, if_true] at hc'
    have hv : ∀ c ∈ ds ++ List.replicate ((e + 1).toNat - ds.length) 48, IsDigit c := by
      intro c hc
      rcases List.mem_append.1 hc with h | h
      · exact hds c h
      · rw [List.eq_of_mem_replicate h]; exact h48
    cases fd with
    | false => exact hgrp _ hv c (by simpa using hc')
    | true =>
      simp only [if_true, List.mem_append, List.mem_singleton] at hc'
      rcases hc' with h | h
      · exact hgrp _ hv c h
      · exact Or.inr (Or.inr h)
  · simp only [h1, if_false] at hc'
    by_cases h2 : e + 1 > 0
    · simp only [h2, if_true, List.mem_append, List.mem_singleton] at hc'
      rcases hc' with (h | h) | h
      · exact hgrp _ (fun c hc => hds c (List.mem_of_mem_take hc)) c h
      · exact Or.inr (Or.inr h)
      · exact Or.inl (hds c (List.mem_of_mem_drop h))
    · simp only [h2, if_false, List.mem_append, List.mem_singleton] at hc'
      rcases hc' with (h | h) | h
      · exact Or.inr (Or.inr h)
      · rw [List.eq_of_mem_replicate h]; exact Or.inl h48
      · exact Or.inl (hds c h)

theorem decStr_digits (n : Nat) : ∀ c ∈ decStr n, IsDigit c := (decStr_ok n).digits

theorem ljust0_digits (s : Bytes) (k : Nat) (hs : ∀ c ∈ s, IsDigit c) : ∀ c ∈ ljust0 s k, IsDigit c := by
  intro c hc
  unfold ljust0 at hc
  rcases List.mem_append.1 hc with h | h
  · exact hs c h
  · rw [List.eq_of_mem_replicate h]; exact ⟨by decide, by decide⟩

/-- `to_str_fixed` returns digits, commas and points only -/
theorem toStrFixed_chars (rework : Fmt → F → Int → Int → Nat → Option (Int × Int)) (nf : NumFmt) (x : F)
    (n : Nat) (fd g : Bool) (out : Bytes) (h : toStrFixedWith rework nf x n fd g = some out) :
    ∀ c ∈ out, FixedChar c := by
  have h48 : IsDigit 48 := ⟨by decide, by decide⟩
  unfold toStrFixedWith at h
  by_cases hz : x.isZero
  · simp only [hz, if_true] at h
    intro c hc
    split at h
    · simp only [Option.some.injEq] at h; subst h
      rcases List.mem_cons.1 hc with h | h
      · exact Or.inr (Or.inr h)
      · rw [List.eq_of_mem_replicate h]; exact Or.inl h48
    · split at h
      · simp only [Option.some.injEq] at h; subst h
        rw [List.eq_of_mem_replicate hc]; exact Or.inl h48
      · simp only [Option.some.injEq] at h; subst h
        simp at hc; subst hc; exact Or.inl h48
  · simp only [hz, Bool.false_eq_true, if_false] at h
    split at h
    · cases h
    · split at h
      · cases h
      · simp only [Option.some.injEq] at h
        subst h
        exact decimalNotation_chars nf _ _ fd g (ljust0_digits _ _ (decStr_digits _))

/-! ### `_scientific_notation` -/

theorem scientificNotation_head (nf : NumFmt) (ds : Bytes) (e : Int) (d : Nat) (fd : Bool)
    (hds : ∀ c ∈ ds, IsDigit c) :
    ∀ c, (scientificNotation nf ds e d fd).head? = some c → IsDigit c ∨ c = 46 ∨ c = nf.expSign := by
  intro c hc
  unfold scientificNotation at hc
  simp only at hc
  cases hd : ds.take d with
  | cons a t =>
    -- the text starts with the first digit
    have ha : a ∈ ds := List.mem_of_mem_take (by rw [hd]; exact List.mem_cons_self ..)
    have : c = a := by
      split at hc
      · simp [hd] at hc; exact hc.symm
      · split at hc
        · simp [hd] at hc; exact hc.symm
        · simp [hd] at hc; exact hc.symm
    subst this
    exact Or.inl (hds c ha)
  | nil =>
    split at hc
    · simp [hd] at hc; exact Or.inr (Or.inl hc.symm)
    · split at hc
      · simp [hd] at hc; exact Or.inr (Or.inl hc.symm)
      · simp [hd] at hc; exact Or.inr (Or.inr hc.symm)

/-- `to_str_scientific` starts with a digit, the point or the exponent letter -/
theorem toStrScientific_head (post : Nat → Int × Int → Int × Int) (nf : NumFmt) (x : F) (b a : Nat) (fd : Bool)
    (out : Bytes) (hE : nf.expSign = 69 ∨ nf.expSign = 68)
    (h : toStrScientificWith post nf x b a fd = some out) :
    ∀ c, out.head? = some c → c ≠ 43 ∧ c ≠ 45 := by
  intro c hc
  unfold toStrScientificWith at h
  by_cases hz : x.isZero
  · simp only [hz, if_true] at h
    split at h
    · simp only [Option.some.injEq] at h; subst h; simp at hc; omega
    · split at h
      · simp only [Option.some.injEq] at h; subst h; simp at hc; omega
      · simp only [Option.some.injEq] at h; subst h; simp at hc; omega
  · simp only [hz, Bool.false_eq_true, if_false] at h
    split at h
    · cases h
    · simp only [Option.some.injEq] at h
      subst h
      rcases scientificNotation_head nf _ _ b fd
        (fun c hc => ljust0_digits _ _ (getDigits_ok _ _).2.2.1 c (List.mem_of_mem_take hc)) c hc with h | h | h
      · unfold IsDigit at h; omega
      · omega
      · rcases hE with hE | hE <;> omega

/-! ### the digits of a PRINT USING field never start with a sign -/

theorem body_head_not_sign (fld : NumField) (v : Num) (body : Bytes)
    (h : bodyWith toStrScientific toStrFixed fld v = some body) :
    ∀ c, body.head? = some c → c ≠ 43 ∧ c ≠ 45 := by
  have hE : (toFloat v).1.expSign = 69 ∨ (toFloat v).1.expSign = 68 := by
    cases v <;> simp [toFloat] <;> decide
  unfold bodyWith at h
  simp only at h
  split at h
  · exact toStrScientific_head _ _ _ _ _ _ body hE h
  · intro c hc
    have := toStrFixed_chars _ _ _ _ _ _ body h c (head_mem hc)
    unfold FixedChar IsDigit at this
    omega

end PcbV.Using
