"""C40 — a suspended session resumes exactly where it stopped; an altered state file is rejected."""
import io
import os
import pickle
import re
import shutil
import tempfile
import zlib

LEVEL = 'proof'
RULE = ('(a) state files: every byte position x several new values of small files written by save_session, all 24 '
        'header bytes and sampled blob bytes of real session files, truncations, header fields one off; one case = one '
        '(file, position, value); (b) resume: generated and fixed BASIC programs (files of every kind held open across the '
        'suspension - sequential INPUT/OUTPUT/APPEND, RANDOM with FIELD, RANDOM used through PRINT#/WRITE#/INPUT#/LINE INPUT#/'
        'INPUT$ on its record buffer, SCRN: and LPT1: device files - with binary and text I/O on them after the resume, '
        'strings, arrays, FOR/WHILE, GOSUB, ON ERROR, DATA, screen output) suspended through the quit signal at the '
        'k-th executed line for every k (sampled when the run is long), at several points in one run, and at an inserted '
        'SYSTEM statement; one case = one (program, interruption schedule); non-trivial = the program was running '
        'when it was suspended')
EXPLANATION = ('theorems (PcbV.Props.C40): every single-byte alteration of an accepted file is rejected (header field '
               'comparisons + CRC-32 detects any one-byte change, any length), accepted files are exactly the saved '
               'ones, program pointer unchanged on resume between statements; correspondence: zlib.crc32, '
               'save_session/load_session decisions, TokenisedStream.skip_to and the pointer after Session.resume vs '
               'the Lean model; oracle: resumed run must equal the uninterrupted run in output, variables, files, '
               'screen; every altered file must raise ValueError from Session.resume')
TRUSTED_BASE = ['model PcbV.Model.StateFile is a hand transcription of state.py load_session/save_session, '
                'zlib CRC-32 (bit-serial) and Interpreter.__setstate__/TokenisedStream.skip_to',
                'pickle/zlib fidelity for the Python object graph is not modelled (runtime behaviour; exercised by the '
                'resume runs)']
ASSUMPTIONS = ['struct.pack/unpack <LIIIII and zlib.crc32 behave as documented (crc32 is also cross-checked against '
               'the model)', 'a suspension point is a point where the interpreter polls its event queue between two '
               'statements (the quit signal of the interface) or a SYSTEM statement']

SENTINEL = b'@@DONE'
LINE_LIMIT = 6000
WATCHDOG_S = 20
TIMEOUTS = [0]


def hx(b):
    return bytes(b).hex() if b else '-'


class Sink(object):
    """picklable byte sink used as the session's output stream"""
    def __init__(self):
        self.name = 'c40sink'
        self.buf = []

    def write(self, s):
        if not isinstance(s, bytes):
            raise TypeError('bytes only')
        self.buf.append(s)

    def flush(self):
        pass

    def value(self):
        return b''.join(self.buf)


class Runaway(Exception):
    pass


# ---------------------------------------------------------------------------------------------------
# (a) state files

def expected_header():
    from pcbasic.basic import state
    h = state.HEADER
    return (h['format_version'], h['python_major'], h['python_minor'], h['pcbasic_major'], h['pcbasic_minor'])


FIELDS = ['checksum', 'format_version', 'python_major', 'python_minor', 'pcbasic_major', 'pcbasic_minor']


class Loader(object):
    def __init__(self):
        self.dir = tempfile.mkdtemp(prefix='pcbv_c40s_')
        self.fn = os.path.join(self.dir, 'state')

    def close(self):
        shutil.rmtree(self.dir, ignore_errors=True)

    def save(self, obj):
        from pcbasic.basic import state
        state.save_session(obj, self.fn)
        with open(self.fn, 'rb') as f:
            return f.read()

    def load(self, data):
        """('ok', obj) | ('rej', message) | ('decode-error', exc name) | ('exc', name)"""
        from pcbasic.basic.api import Session
        with open(self.fn, 'wb') as f:
            f.write(data)
        try:
            return ('ok', Session.resume(self.fn))
        except ValueError as e:
            if type(e) is ValueError:
                return ('rej', str(e))
            return ('decode-error', type(e).__name__)
        except (zlib.error, pickle.UnpicklingError, EOFError) as e:
            # got past the header checks; the payload is not a pickle
            return ('decode-error', type(e).__name__)
        except Exception as e:  # noqa
            return ('decode-error', type(e).__name__)


def canon_load(res):
    return 'rej' if res[0] == 'rej' else 'ok'


def alteration_values(rng, old, n):
    vals = [old ^ 1, old ^ 0x80, old ^ 0xff, (old + 1) % 256, (old - 1) % 256, 0, 255]
    out = []
    for v in vals:
        if v != old and v not in out:
            out.append(v)
    while len(out) < n:
        v = rng.randrange(256)
        if v != old and v not in out:
            out.append(v)
    return out[:n]


def region(pos):
    return 'header:' + FIELDS[pos // 4] if pos < 24 else 'blob'


def check_alterations(ctx, loader, data, positions, nvals, label, pending, model_every=1):
    """oracle: every single-byte alteration must be rejected; correspondence: same decision as the model"""
    exp = expected_header()
    n = 0
    for pos in positions:
        old = data[pos]
        for v in alteration_values(ctx.rng, old, nvals):
            alt = data[:pos] + bytes([v]) + data[pos + 1:]
            res = loader.load(alt)
            ctx.case((label, pos, v))
            ctx.count('alter:' + region(pos).split(':')[0])
            ctx.count('alter-outcome:' + res[0])
            if res[0] != 'rej':
                ctx.fail('altered-accepted:' + region(pos),
                         {'kind': 'alter', 'file': hx(data), 'pos': pos, 'value': v},
                         'state file (%s, %d bytes) with byte %d changed %d -> %d was not rejected by Session.resume: %s'
                         % (label, len(data), pos, old, v, res[0] if res[0] != 'ok' else 'loaded'))
            n += 1
            if n % model_every == 0:
                pending.append(({'label': label, 'pos': pos, 'value': v}, canon_load(res),
                                'load %d %d %d %d %d %s' % (exp + (hx(alt),))))


def flush(ctx, pending, label='state-file'):
    if pending:
        cases, outs, lines = zip(*pending)
        ctx.compare(list(cases), list(outs), list(lines), label)
        del pending[:]


def small_objects(rng):
    objs = [{'a': 1}, [], b'', u'x', list(range(40)), {'k': b'\x00' * 64, 'n': [1.5, None, True]}, 0]
    objs.append([rng.randrange(1 << 30) for _ in range(rng.randrange(1, 30))])
    objs.append(bytes(rng.randrange(256) for _ in range(rng.randrange(1, 200))))
    return objs


def state_file_part(ctx):
    import struct
    rng = ctx.rng
    loader = Loader()
    pending = []
    exp = expected_header()
    try:
        # CRC-32 of the model against zlib
        cases, outs, lines = [], [], []
        lens = list(range(0, 20)) + [31, 32, 33, 63, 64, 65, 255, 256, 257, 1000]
        lens += [rng.randrange(0, 600) for _ in range(60 if ctx.quick else 600)]
        for ln in lens:
            kind = rng.random()
            if kind < 0.15:
                b = bytes([rng.choice([0, 255, 0x80, 1])]) * ln
            else:
                b = bytes(rng.randrange(256) for _ in range(ln))
            cases.append({'crc-of': hx(b)})
            outs.append('ok %d' % (zlib.crc32(b) & 0xffffffff))
            lines.append('crc ' + hx(b))
            ctx.case(('crc', b))
            ctx.count('crc')
        ctx.compare(cases, outs, lines, 'crc32')
        # small files: complete sweep
        for obj in small_objects(rng):
            data = loader.save(obj)
            res = loader.load(data)
            ctx.case(('roundtrip', data))
            if res[0] != 'ok' or res[1] != obj:
                ctx.fail('unaltered-not-loaded', {'kind': 'roundtrip', 'file': hx(data)},
                         'file written by save_session does not load back: %r' % (res,))
            pending.append(({'roundtrip': hx(data)}, canon_load(res), 'load %d %d %d %d %d %s' % (exp + (hx(data),))))
            # the writer: header ++ blob as the model builds it
            pending.append(({'save': hx(data[24:])}, 'ok ' + hx(data), 'save %d %d %d %d %d %s' % (exp + (hx(data[24:]),))))
            if len(data) <= 80 or not ctx.quick:
                positions = range(len(data))
            else:
                positions = sorted(set(list(range(40)) + rng.sample(range(len(data)), 40) + [len(data) - 1]))
            check_alterations(ctx, loader, data, positions, 3 if ctx.quick else 6, 'small', pending)
            # truncations and extensions (not single-byte alterations: correspondence only, plus must-not-load)
            for cut in sorted(set([0, 1, 23, 24, 25, len(data) - 1] + [rng.randrange(len(data)) for _ in range(4)])):
                t = data[:cut]
                res = loader.load(t)
                ctx.case(('truncate', data, cut))
                ctx.count('truncate-outcome:' + res[0])
                if res[0] != 'rej':
                    ctx.fail('truncated-accepted', {'kind': 'raw', 'file': hx(t)},
                             'state file truncated to %d of %d bytes was not rejected' % (cut, len(data)))
                pending.append(({'truncated': cut}, canon_load(res), 'load %d %d %d %d %d %s' % (exp + (hx(t),))))
            ext = data + bytes([rng.randrange(256)])
            res = loader.load(ext)
            ctx.case(('extend', data))
            if res[0] != 'rej':
                ctx.fail('extended-accepted', {'kind': 'raw', 'file': hx(ext)}, 'state file with one byte appended was not rejected')
            pending.append(({'extended': 1}, canon_load(res), 'load %d %d %d %d %d %s' % (exp + (hx(ext),))))
            # header fields one off / random, with the checksum kept right (correspondence of the comparisons)
            blob = data[24:]
            for _ in range(6 if ctx.quick else 40):
                fields = list(exp)
                i = rng.randrange(5)
                fields[i] = rng.choice([fields[i] + 1, max(fields[i] - 1, 0), fields[i] + 256, fields[i] + (1 << 24),
                                        rng.randrange(1 << 32), fields[i]])
                f = struct.pack('<LIIIII', zlib.crc32(blob) & 0xffffffff, *fields) + blob
                res = loader.load(f)
                ctx.case(('fields', tuple(fields), blob))
                ctx.count('fields-outcome:' + res[0])
                if tuple(fields) != exp and res[0] != 'rej':
                    ctx.fail('foreign-header-accepted:' + FIELDS[i + 1], {'kind': 'raw', 'file': hx(f)},
                             'header field %s = %d (this build: %d) was not rejected' % (FIELDS[i + 1], fields[i], exp[i]))
                pending.append(({'fields': fields}, canon_load(res), 'load %d %d %d %d %d %s' % (exp + (hx(f),))))
            flush(ctx, pending)
        # garbage with and without a matching checksum
        for _ in range(20 if ctx.quick else 200):
            blob = bytes(rng.randrange(256) for _ in range(rng.randrange(0, 40)))
            good = rng.random() < 0.5
            crc = zlib.crc32(blob) & 0xffffffff
            f = struct.pack('<LIIIII', crc if good else crc ^ (1 << rng.randrange(32)), *exp) + blob
            res = loader.load(f)
            ctx.case(('garbage', f))
            ctx.count('garbage-outcome:' + res[0])
            pending.append(({'garbage': hx(f)}, canon_load(res), 'load %d %d %d %d %d %s' % (exp + (hx(f),))))
        flush(ctx, pending)
        # a real session file: every header byte, sampled blob bytes
        from vlib import basic
        s = basic.new_session()
        s.execute(b'10 A$="state":DIM B(20)\r20 FOR I=1 TO 5:B(I)=I*I:NEXT\r30 PRINT A$;B(5)')
        s.execute(b'RUN')
        sfn = os.path.join(loader.dir, 'session')
        s.suspend(sfn)
        s.close()
        with open(sfn, 'rb') as f:
            data = f.read()
        res = loader.load(data)
        ctx.case(('session-roundtrip',))
        if res[0] != 'ok' or res[1].get_variable(b'A$') != b'state':
            ctx.fail('unaltered-not-loaded', {'kind': 'session-roundtrip'}, 'a suspended session does not load back: %r' % (res,))
        ctx.notes['session_file_bytes'] = len(data)
        nblob = 900 if ctx.quick else len(data) - 24
        blobpos = range(24, len(data)) if nblob >= len(data) - 24 else \
            sorted(set(rng.sample(range(24, len(data)), nblob) + [24, 25, len(data) - 1]))
        check_alterations(ctx, loader, data, range(24), 3 if ctx.quick else 8, 'session', pending, model_every=2)
        check_alterations(ctx, loader, data, blobpos, 1 if ctx.quick else 2, 'session', pending,
                          model_every=60 if ctx.quick else 400)
        flush(ctx, pending)
    finally:
        loader.close()


# ---------------------------------------------------------------------------------------------------
# (b) resume of running programs

VARS = [b'X!', b'Y%', b'D#', b'S$', b'T$', b'K!', b'EC!', b'I!', b'J!', b'W1!', b'W2!', b'R!', b'R$', b'L$', b'Q!',
        b'A!()', b'N$()', b'B%()', b'N$', b'Q!', b'A$', b'B$', b'T!', b'C!', b'A!', b'V$', b'F$', b'G$']

INFILE = b''.join(b'line %d of input, with "quotes", and commas\r\n' % i for i in range(1, 13))


class Gen(object):
    """structured program generator; all loops are bounded by construction"""

    def __init__(self, rng):
        self.rng = rng
        self.stmts = []      # list of lists of statements (one inner list = one unit that may share a line)
        self.depth = 0

    def unit(self, *stmts):
        self.stmts.append(list(stmts))

    def block(self, budget):
        rng = self.rng
        kinds = ['assign', 'string', 'print', 'file', 'gosub', 'ongosub', 'if', 'gotoskip', 'read', 'error',
                 'locate', 'swapdef', 'random', 'array', 'recordtext', 'recordtext', 'sound', 'softerror']
        if self.depth < 2 and budget > 0:
            kinds += ['for', 'while', 'for', 'while']
        k = rng.choice(kinds)
        self.unit('K=K+1')
        getattr(self, 'b_' + k)(budget)

    def b_assign(self, _):
        self.unit(self.rng.choice(['X=X*3+1', 'X=X/2+K', 'Y%=(Y%+K*7) MOD 100', 'D#=D#+1/3', 'X=SQR(K)+Y%',
                                   'Q=Q-K:X=ABS(Q)']))

    def b_string(self, _):
        rng = self.rng
        self.unit('S$=S$+CHR$(65+(K MOD 26))')
        self.unit(rng.choice(['IF LEN(S$)>20 THEN S$=RIGHT$(S$,5)', 'T$=MID$(S$,1,2)+STR$(K)', 'T$=S$+S$+"-"+T$:T$=LEFT$(T$,30)',
                              'N$(K MOD 6)=T$+S$', 'T$=STRING$(K MOD 9,"*")+HEX$(K)', 'MID$(S$,1,1)="z"',
                              'T$=SPACE$(200):T$=""']))

    def b_array(self, _):
        self.unit(self.rng.choice(['A(K MOD 11)=A(K MOD 11)+K', 'B%(K MOD 4,Y% MOD 4)=K', 'A(0)=A(1)+A(2):A(10)=X',
                                   'N$(5)=N$(0)+"!":IF LEN(N$(5))>40 THEN N$(5)=""']))

    def b_print(self, _):
        self.unit(self.rng.choice(['PRINT "v";X;Y%;TAB(30);S$', 'PRINT USING "###.##";D#', 'PRINT K,T$;', 'PRINT',
                                   'PRINT "k=";K;:PRINT " ec=";EC', 'PRINT A(K MOD 11);N$(K MOD 6);B%(1,1)',
                                   'PRINT CSRLIN;POS(0);FRE("")>0']))

    def b_locate(self, _):
        self.unit(self.rng.choice(['LOCATE 3+(K MOD 15),1+(K MOD 50):PRINT "at";K;', 'COLOR 1+(K MOD 7),0:PRINT "c";',
                                   'CLS:PRINT "cleared";K', 'LOCATE 24,1:PRINT "bottom":PRINT "scroll"']))

    def b_file(self, _):
        rng = self.rng
        self.unit(rng.choice(['PRINT #1,K;S$', 'WRITE #1,X,S$,Y%', 'PRINT #1,"partial";',
                              'IF NOT EOF(2) THEN LINE INPUT #2,L$:PRINT L$',
                              'IF NOT EOF(2) THEN INPUT #2,L$:PRINT "[";L$;"]"',
                              'LSET F$=S$:RSET G$=MKS$(X):PUT 3,(K MOD 4)+1',
                              'GET 3,1:PRINT F$;CVS(G$);LOC(3)',
                              'CLOSE 1:OPEN "OUT.TXT" FOR APPEND AS 1:PRINT #1,"reopened";LOF(1)>0',
                              'PRINT LOC(1);LOC(2);EOF(2)']))

    def b_recordtext(self, _):
        # text-mode I/O on the record buffer of the RANDOM files (#3 has a FIELD, #4 has none), split over
        # statements so that a suspension can fall between the text access and the PUT/GET around it
        rng = self.rng
        rec = '(K MOD 3)+1'
        kind = rng.randrange(8)
        if kind == 0:
            self.unit('GET 4,%s' % rec)
            self.unit('WRITE #4,K,LEFT$(S$,8)')
            self.unit('PUT 4,%s' % rec)
        elif kind == 1:
            self.unit('GET 4,%s:PRINT #4,"k";K;",";' % rec)
            self.unit('PRINT #4,Y%')
            self.unit('PUT 4,%s' % rec)
        elif kind == 2:
            self.unit('GET 4,%s' % rec)
            self.unit('LINE INPUT #4,L$:PRINT "<";L$;">"')
        elif kind == 3:
            self.unit('GET 4,%s' % rec)
            self.unit('INPUT #4,R')
            self.unit('INPUT #4,R$:PRINT R;R$')
        elif kind == 4:
            self.unit('GET 4,%s' % rec)
            self.unit('L$=INPUT$(5,#4):PRINT L$;LOC(4);LOF(4)')
        elif kind == 5:
            self.unit('GET 3,(K MOD 4)+1')
            self.unit('L$=INPUT$(3,#3):PRINT LEN(L$);F$')
        elif kind == 6:
            self.unit('GET 3,(K MOD 4)+1:PRINT #3,"ab";')
            self.unit('PRINT #3,"c";:PUT 3,(K MOD 4)+1')
            self.unit('GET 3,(K MOD 4)+1:PRINT F$;"|";G$')
        else:
            self.unit('PRINT #5,"scrn";K;')
            self.unit('PRINT #6,"lpt";K;S$')

    def b_sound(self, _):
        # sound queue states held across the suspension: empty, looping tone, finite notes pending (background),
        # after foreground music.  Only time-independent observations: pending notes last for minutes, the
        # queue is cleared first so that it never fills up, foreground music is a few 64th notes
        rng = self.rng
        kind = rng.randrange(6)
        if kind == 0:
            self.unit('SOUND 440,.01')
            self.unit('PRINT "loop";PLAY(0)')
        elif kind == 1:
            self.unit('SOUND 300,0:PLAY "MBT32L1C.........D.........E........."')
            self.unit('PRINT "pending";PLAY(0)>0')
        elif kind == 2:
            self.unit('SOUND 300,0')
            self.unit('PRINT "silent";PLAY(0)')
        elif kind == 3:
            self.unit('SOUND 300,0:PLAY "MFT255L64CDE"')
            self.unit('SOUND 523,.01')
        elif kind == 4:
            self.unit('SOUND 32767,.01:SOUND 660,.01')
            self.unit('PLAY "MB"')
        else:
            self.unit('SOUND 300,0:PLAY "MBT32L1' + 'C' + '.' * 80 + 'D"')
            self.unit('PRINT "forever";PLAY(0)>0')

    def b_gosub(self, _):
        self.unit('GOSUB %d' % self.rng.choice([8000, 8100, 8200]))

    def b_ongosub(self, _):
        self.unit(self.rng.choice(['ON (K MOD 3)+1 GOSUB 8000,8100,8200', 'ON (K MOD 4) GOSUB 8200,8000,8100']))

    def b_if(self, _):
        self.unit(self.rng.choice(['IF X>Y% THEN PRINT "gt";:X=0 ELSE PRINT "le";:X=X+50',
                                   'IF (K MOD 2)=0 THEN PRINT "even" ELSE PRINT "odd"',
                                   'IF S$="" THEN S$="init" ELSE IF LEN(S$)>3 THEN PRINT "long" ELSE PRINT "short"']))

    def b_gotoskip(self, _):
        # placeholders @A are replaced by line numbers when the program is laid out
        self.stmts.append(['GOTO @+2'])
        self.stmts.append(['!own', 'PRINT "never";K'])
        self.stmts.append(['!own', 'PRINT "target";K'])

    def b_read(self, _):
        self.unit(self.rng.choice(['READ R,R$:PRINT R;R$', 'READ R:READ R$', 'RESTORE:READ R', 'RESTORE 9500:READ R,R$:READ R']))

    def b_error(self, _):
        self.unit(self.rng.choice(['ERROR 5', 'A(11)=1', 'X=1/(Y%-Y%)', 'ERROR 77:PRINT "after-error"', 'T$=MID$(S$,0)',
                                   'Y%=32767:Y%=Y%+1:PRINT "ovf"', 'READ R,R$,R,R$,R,R$,R,R$,R,R$,R,R$']))

    def b_softerror(self, _):
        # floating-point errors that are handled softly unless ON ERROR GOTO (line 10, long before) is in force
        self.unit(self.rng.choice(['X=K/(Q-Q)', 'D#=D#/0#:PRINT D#', 'X=1E+30:X=X*X', 'X=1.7E+38+1.7E+38', 'X=EXP(89+K)',
                                   'D#=1D+30:D#=D#*D#*D#', 'X=10^(39+K)', 'X=VAL("1E"+STR$(40+K))', 'X=-K/(Q-Q):PRINT X',
                                   'Y%=1/(Q-Q)']))

    def b_swapdef(self, _):
        self.unit(self.rng.choice(['DEF FNA(Z)=Z*2+K:PRINT FNA(3)', 'SWAP X,Q', 'DEF FNS$(Z$)=Z$+"!"+S$:T$=LEFT$(FNS$("f"),25)',
                                   'SWAP S$,T$']))

    def b_random(self, _):
        self.unit(self.rng.choice(['X=INT(RND*1000)', 'RANDOMIZE K:PRINT INT(RND*100)', 'PRINT RND(0);']))

    def b_for(self, budget):
        rng = self.rng
        v = 'IJ'[self.depth]
        lo, hi, step = rng.choice([(1, 3, 1), (1, 2, 1), (3, 1, -1), (0, 4, 2), (1, 1, 1), (2, 1, 1)])
        self.stmts.append(['!own', 'FOR %s=%d TO %d STEP %d' % (v, lo, hi, step)])
        self.depth += 1
        for _ in range(rng.randrange(1, 3)):
            self.block(budget - 1)
        self.depth -= 1
        self.stmts.append([rng.choice(['NEXT %s' % v, 'NEXT'])])

    def b_while(self, budget):
        rng = self.rng
        v = 'W%d' % (self.depth + 1)
        self.unit('%s=0' % v)
        self.stmts.append(['!own', 'WHILE %s<%d' % (v, rng.randrange(0, 4))])
        self.depth += 1
        for _ in range(rng.randrange(1, 3)):
            self.block(budget - 1)
        self.depth -= 1
        self.unit('%s=%s+1' % (v, v))
        self.stmts.append(['WEND'])

    def program(self):
        rng = self.rng
        for _ in range(rng.randrange(4, 9)):
            self.block(2)
        join = rng.choice([0.0, 0.25, 0.6])
        body = []      # list of statement lists = lines
        for u in self.stmts:
            own = u and u[0] == '!own'
            u = [x for x in u if x != '!own']
            can_join = (body and not own and rng.random() < join and len(':'.join(body[-1] + u)) < 200
                        and not body[-1][0].startswith(('IF ', 'GOTO', 'FOR ', 'WHILE ', '!'))
                        and not any(x.startswith(('IF ', 'ON ', 'GOTO', 'ERROR')) or ' IF ' in x for x in body[-1])
                        and not u[0].startswith(('FOR ', 'WHILE ', 'WEND', 'NEXT')) and not getattr(self, '_lastown', False))
            if can_join:
                body[-1] = body[-1] + u
            else:
                body.append(list(u))
            self._lastown = own
        lines = ['10 ON ERROR GOTO 9000', '20 DIM A(10),N$(5),B%(3,3):RANDOMIZE 7',
                 '30 OPEN "OUT.TXT" FOR OUTPUT AS 1', '40 OPEN "IN.TXT" FOR INPUT AS 2',
                 '50 OPEN "R.DAT" FOR RANDOM AS 3 LEN=8:FIELD 3,4 AS F$,4 AS G$',
                 '60 OPEN "T.DAT" FOR RANDOM AS 4 LEN=32', '70 OPEN "SCRN:" FOR OUTPUT AS 5:OPEN "LPT1:" FOR OUTPUT AS 6']
        num = 100
        nums = [num + 10 * i for i in range(len(body))]
        for i, st in enumerate(body):
            text = ':'.join(st)
            text = re.sub(r'@\+(\d)', lambda m: str(nums[i + int(m.group(1))] if i + int(m.group(1)) < len(nums) else 7990), text)
            lines.append('%d %s' % (nums[i], text))
        lines += ['7990 GOTO 9800',
                  '8000 PRINT "sub0";K;:S$=S$+"a"', '8010 RETURN',
                  '8100 PRINT "sub1":GOSUB 8200', '8110 X=X+1:RETURN',
                  '8200 FOR J2=1 TO 2:Q=Q+J2', '8210 NEXT J2', '8220 RETURN',
                  '9000 EC=EC+1:PRINT "E";ERR;ERL', '9010 PRINT #1,"E";ERR', '9020 IF EC>40 THEN RESUME 9800',
                  '9030 RESUME NEXT',
                  '9500 DATA 1,one,2,"two, 2",3,three', '9510 DATA 4,four,5,five',
                  '9800 ON ERROR GOTO 0:CLOSE', '9810 PRINT "@@DONE";EC;K', '9820 SYSTEM']
        return lines


FIXED = [
    ['10 A=1:PRINT "L10";A', '20 FOR I=1 TO 3:PRINT "I=";I:NEXT', '30 GOTO 50', '40 PRINT "SKIPPED"',
     '50 GOSUB 100:PRINT "BACK"', '60 PRINT "@@DONE":SYSTEM', '100 PRINT "SUB"', '110 RETURN'],
    ['10 ON ERROR GOTO 100', '20 OPEN "IN.TXT" FOR INPUT AS 1:OPEN "OUT.TXT" FOR OUTPUT AS 2', '30 WHILE NOT EOF(1)',
     '40 LINE INPUT #1,L$', '50 N=N+1:PRINT #2,N;L$', '60 IF N MOD 4=0 THEN ERROR 50+N', '70 WEND', '80 CLOSE',
     '90 PRINT "@@DONE";N;EC:SYSTEM', '100 EC=EC+1', '110 PRINT "trap";ERR;ERL', '120 RESUME NEXT'],
    ['10 DIM P(30):FOR I=2 TO 30', '20 FOR J=2 TO I-1', '30 IF I MOD J=0 THEN 60', '40 NEXT J',
     '50 P(C)=I:C=C+1:PRINT I;', '60 NEXT I', '70 PRINT:PRINT "@@DONE";C', '80 SYSTEM'],
    ['10 GOSUB 100', '20 PRINT "@@DONE";D;S$', '30 SYSTEM', '100 D=D+1', '110 IF D<6 THEN GOSUB 100', '120 S$=S$+CHR$(48+D)',
     '130 D=D-1', '140 RETURN'],
    ['10 ON ERROR GOTO 200', '20 FOR I=1 TO 4', '30 READ V$', '40 PRINT V$;LEN(V$)', '50 NEXT', '60 RESTORE 310',
     '70 READ V$:PRINT V$', '80 READ V$:PRINT V$', '90 READ V$', '100 PRINT "@@DONE";EC', '110 SYSTEM',
     '200 EC=EC+1:PRINT "no more";ERR', '210 RESUME 100', '300 DATA a,"b c",d', '310 DATA last'],
    ['10 OPEN "R.DAT" FOR RANDOM AS 1 LEN=6', '20 FIELD 1,2 AS A$,4 AS B$', '30 FOR I=1 TO 5',
     '40 LSET A$=MKI$(I*I)', '50 LSET B$=MKS$(I/2)', '60 PUT 1,I', '70 NEXT', '80 FOR I=5 TO 1 STEP -2',
     '90 GET 1,I', '100 PRINT CVI(A$);CVS(B$)', '110 NEXT', '120 CLOSE', '130 PRINT "@@DONE"', '140 SYSTEM'],
    ['10 CLS:FOR R=1 TO 30', '20 PRINT "row";R;STRING$(R,"=")', '30 NEXT', '40 LOCATE 5,5:PRINT "mid";',
     '50 COLOR 4,2:PRINT "colour"', '60 PRINT "@@DONE"', '70 SYSTEM'],
    ['10 S$="":FOR I=1 TO 40', '20 S$=S$+CHR$(64+I MOD 26)', '30 T$=MID$(S$,I\\2+1)', '40 IF I MOD 10=0 THEN F=FRE(""):PRINT LEN(S$);T$',
     '50 NEXT', '60 PRINT "@@DONE";S$', '70 SYSTEM'],
    ['10 OPEN "LOG.TXT" FOR OUTPUT AS 1:PRINT #1,"first":CLOSE 1', '20 OPEN "LOG.TXT" FOR APPEND AS 1', '30 FOR I=1 TO 3',
     '40 PRINT #1,"entry";I', '50 NEXT', '60 OPEN "NEW.TXT" FOR APPEND AS 2', '70 X=X+1', '80 PRINT #2,"n";X', '90 CLOSE',
     '100 OPEN "LOG.TXT" FOR INPUT AS 1', '110 WHILE NOT EOF(1)', '120 LINE INPUT #1,L$:PRINT L$', '130 WEND', '140 CLOSE',
     '150 PRINT "@@DONE"', '160 SYSTEM'],
    ['10 OPEN "REC.DAT" FOR RANDOM AS 1 LEN=16:FIELD 1,16 AS R$', '20 OPEN "TXT.DAT" FOR RANDOM AS 2 LEN=24',
     '30 OPEN "SCRN:" FOR OUTPUT AS 3', '40 OPEN "LPT1:" FOR OUTPUT AS 4', '50 FOR I=1 TO 3', '60 GET 1,I',
     '70 PRINT #1,"IT";I;",";', '80 PRINT #1,I*I', '90 PUT 1,I', '100 GET 2,I:WRITE #2,I,"t"+STR$(I)', '110 PUT 2,I',
     '120 PRINT #3,"scr";I', '130 PRINT #4,"lpt";I', '140 NEXT', '150 FOR I=3 TO 1 STEP -1', '160 GET 1,I',
     '170 INPUT #1,N$,Q', '180 GET 2,I', '190 LINE INPUT #2,L$', '200 GET 1,I:A$=INPUT$(4,#1)',
     '210 PRINT N$;Q;L$;A$;LOC(1);LOF(2)', '220 T=T+Q', '230 NEXT', '240 CLOSE', '250 PRINT "@@DONE";T', '260 SYSTEM'],
    ['10 OPEN "SEQ.TXT" FOR OUTPUT AS 1:OPEN "IN.TXT" FOR INPUT AS 2', '20 OPEN "MIX.DAT" FOR RANDOM AS 3 LEN=12',
     '30 FIELD 3,2 AS N$,10 AS V$', '40 OPEN "APP.TXT" FOR APPEND AS 4', '50 WHILE C<4', '60 C=C+1', '70 LINE INPUT #2,L$',
     '80 PRINT #1,C;LEFT$(L$,6)', '90 PRINT #4,"a";C', '100 LSET N$=MKI$(C*3)', '110 LSET V$=L$', '120 PUT 3,C',
     '130 GET 3,C', '140 PRINT #3,"tx";C;', '150 PUT 3,C+4', '160 WEND', '170 FOR I=8 TO 1 STEP -1', '180 GET 3,I',
     '190 B$=INPUT$(6,#3)', '200 PRINT CVI(N$);V$;"/";B$;LOC(3)', '210 NEXT', '220 CLOSE 1:OPEN "SEQ.TXT" FOR INPUT AS 1',
     '230 INPUT #1,A,A$:PRINT A;A$;EOF(1);EOF(2)', '240 CLOSE', '250 PRINT "@@DONE";C', '260 SYSTEM'],
    ['10 PRINT "silent";PLAY(0)', '20 SOUND 440,.01', '30 X=X+1:PRINT "loop";PLAY(0)', '40 SOUND 880,.01', '50 X=X+1',
     '60 PLAY "MBT32L1C.........D.........E........."', '70 PRINT "pending";PLAY(0)>0', '80 X=X+1', '90 SOUND 300,0',
     '100 PRINT "stopped";PLAY(0)', '110 PLAY "MFT255L64CDE"', '120 SOUND 523,.01', '130 X=X+1',
     '140 PLAY "MBT32L1C' + '.' * 80 + 'D"', '150 PRINT "forever";PLAY(0)>0', '160 X=X+1', '170 SOUND 300,0',
     '180 PRINT "@@DONE";X', '190 SYSTEM'],
    ['#syntax=tandy', '10 SOUND ON', '20 SOUND 440,.01,15,0', '30 SOUND 660,.01,10,1', '40 NOISE 4,15,.01',
     '50 X=X+1:PRINT PLAY(0);PLAY(1);PLAY(2)', '60 SOUND 300,.01,15,2', '70 PRINT "A";X',
     '80 PLAY "MBT32L1C.........D.........","MBT32L1E.........F........."', '90 PRINT PLAY(0)>0;PLAY(1)>0;PLAY(2)>0',
     '100 X=X+1', '110 SOUND 300,0', '120 NOISE 5,8,.01', '130 X=X+1', '140 SOUND OFF', '150 PRINT "@@DONE";X', '160 SYSTEM'],
    # state armed BEFORE the suspension that is only exercised AFTER it
    # - ON ERROR GOTO, then every error class: soft float errors (division by zero, overflow in * + EXP ^ VAL), integer
    #   overflow and division by zero, hard errors; then ON ERROR GOTO 0 and a soft error handled without a trap
    ['10 ON ERROR GOTO 500', '20 Z=0:B#=0:BIG=1E+30:I%=32767', '30 X=1/Z', '40 PRINT "x";X', '50 D#=2#/B#', '60 PRINT "d";D#',
     '70 X=BIG*BIG', '80 X=BIG*BIG+BIG', '90 X=EXP(100)', '100 D#=1D+30:D#=D#*D#*D#', '110 PRINT X;D#',
     '120 I%=I%+1', '130 J%=5\\Z', '140 J%=5 MOD Z', '150 X=10^50', '160 Q$="a":X=Q$+1', '170 X=SQR(-1)', '180 X=LOG(0)',
     '190 DIM A(3):A(4)=1', '200 ERROR 200', '210 X=VAL("1E50")', '220 X=CINT(40000)', '230 X=-1/Z:PRINT X',
     '240 ON ERROR GOTO 0', '250 X=1/Z:PRINT X', '260 PRINT "@@DONE";EC', '270 SYSTEM',
     '500 EC=EC+1:PRINT "E";ERR;ERL;', '510 RESUME NEXT'],
    # - DEFtype, OPTION BASE, RND seed, DATA pointer, KEY definitions, WIDTH/COLOR/VIEW PRINT, DEF FN, DEF SEG, open
    #   GOSUB/FOR/WHILE frames
    ['10 DEFINT I-K:DEFSTR S:DEFDBL D', '20 OPTION BASE 1:DIM T(3)', '30 RANDOMIZE 4711:ON ERROR GOTO 500', '40 READ A,B',
     '50 KEY 1,"hello":KEY 3,"x"+CHR$(13)', '60 WIDTH 40:COLOR 3,1', '70 VIEW PRINT 5 TO 20', '80 DEF FNQ(X)=X*2+A', '90 DEF SEG=64',
     '100 GOSUB 300', '110 KEY LIST', '120 PRINT CSRLIN;POS(0)', '130 WIDTH 80:VIEW PRINT', '140 PRINT "@@DONE";I;S;D;EC', '150 SYSTEM',
     '300 FOR I=1 TO 2', '310 WHILE J<I', '320 J=J+1:K=7/2', '330 S="s"+STR$(K):D=1/3', '340 T(I)=K:T(0)=1', '350 WEND', '360 NEXT',
     '370 READ C,S2$:PRINT C;S2$;INT(RND*1000);FNQ(B);PEEK(0)>=0;T(1);T(2)', '380 RETURN', '400 DATA 1,2,3,"four"',
     '500 EC=EC+1:PRINT "E";ERR;ERL;', '510 RESUME NEXT'],
    # - event traps switched on (and one stopped with a remembered trigger) before, keys pressed after
    ['#keys=5:59,8:60,12:59,15:68,23:68', '10 ON KEY(1) GOSUB 200:KEY(1) ON', '20 ON KEY(2) GOSUB 300:KEY(2) ON:KEY(2) STOP', '25 ON KEY(10) GOSUB 400', '30 FOR I=1 TO 6', '40 X=X+1', '50 NEXT',
     '60 KEY(2) ON', '70 X=X+1', '80 KEY(1) OFF:KEY(10) ON', '85 X=X+1', '90 PRINT "@@DONE";X;T1;T2;T3', '100 SYSTEM',
     '200 T1=T1+1:PRINT "k1 at";I;X:RETURN', '300 T2=T2+1:PRINT "k2 at";I;X:RETURN', '400 T3=T3+1:RETURN'],
]

# programs that stop at their own SYSTEM statements (suspended and resumed every time), with the uninterrupted twin
FIXED_SYSTEM = [
    (['10 ON ERROR GOTO 100', '20 X=1/(Y%-Y%):PRINT "next"', '30 A(11)=1', '40 PRINT "after";EC', '50 PRINT "@@DONE";EC',
      '60 SYSTEM', '100 SYSTEM:EC=EC+1:PRINT "E";ERR;ERL', '110 RESUME NEXT'],
     ['10 ON ERROR GOTO 100', '20 X=1/(Y%-Y%):PRINT "next"', '30 A(11)=1', '40 PRINT "after";EC', '50 PRINT "@@DONE";EC',
      '60 SYSTEM', '100 EC=EC+1:PRINT "E";ERR;ERL', '110 RESUME NEXT']),
    (['10 FOR I=1 TO 3:SYSTEM:GOSUB 100:SYSTEM:NEXT', '20 IF I=4 THEN SYSTEM:PRINT "four" ELSE PRINT "not"', '30 PRINT "@@DONE";S',
      '40 SYSTEM', '100 S=S+I:SYSTEM', '110 RETURN:SYSTEM'],
     ['10 FOR I=1 TO 3:GOSUB 100:NEXT', '20 IF I=4 THEN PRINT "four" ELSE PRINT "not"', '30 PRINT "@@DONE";S',
      '40 SYSTEM', '100 S=S+I', '110 RETURN']),
    (['10 OPEN "LOG.TXT" FOR APPEND AS 1:SYSTEM', '20 PRINT #1,"a":SYSTEM:PRINT #1,"b";', '30 SYSTEM:PRINT #1,"c"', '40 CLOSE:SYSTEM',
      '50 OPEN "LOG.TXT" FOR INPUT AS 1:INPUT #1,A$,B$:SYSTEM:PRINT A$;B$;EOF(1)', '60 PRINT "@@DONE"', '70 SYSTEM'],
     ['10 OPEN "LOG.TXT" FOR APPEND AS 1', '20 PRINT #1,"a":PRINT #1,"b";', '30 PRINT #1,"c"', '40 CLOSE',
      '50 OPEN "LOG.TXT" FOR INPUT AS 1:INPUT #1,A$,B$:PRINT A$;B$;EOF(1)', '60 PRINT "@@DONE"', '70 SYSTEM']),
]


def session_options(lines):
    """lines starting with '#' are harness options (e.g. '#syntax=tandy'), not BASIC"""
    opts = {}
    for l in lines:
        if l.startswith('#'):
            k, _, v = l[1:].partition('=')
            opts[k] = v
    return opts


class Runner(object):
    """one session with a program loaded, a mount directory and a state directory"""

    def __init__(self, lines):
        from pcbasic.basic.api import Session
        self.dir = tempfile.mkdtemp(prefix='pcbv_c40m_')
        self.statedir = tempfile.mkdtemp(prefix='pcbv_c40s_')
        with open(os.path.join(self.dir, 'IN.TXT'), 'wb') as f:
            f.write(INFILE)
        self.sink = Sink()
        # the printer is a host file outside the mount (observed like the files on the mount)
        self.lptdir = tempfile.mkdtemp(prefix='pcbv_c40l_')
        self.session = Session(output_streams=self.sink, input_streams=None, peek_values={}, max_files=8,
                               devices={'C': self.dir, 'LPT1': 'FILE:' + os.path.join(self.lptdir, 'LPT1.OUT')},
                               current_device='C', **{k: v for k, v in session_options(lines).items() if k != 'keys'})
        # '#keys=<executed line count>:<scancode>,...': key presses posted to the input queue when that many
        # lines have been started (the same moments in the uninterrupted and in the resumed run)
        self.keys = {}
        for item in session_options(lines).get('keys', '').split(','):
            if item:
                at, _, scan = item.partition(':')
                self.keys[int(at)] = int(scan)
        for l in lines:
            if l.startswith('#'):
                continue
            self.session.execute(l.encode('latin-1'))
        self.lines_run = 0
        self.suspensions = 0
        self.linecount = {}
        self.lineseq = []
        self.trace = []       # (line count, line number) at which the quit signal was posted
        self.pointer_obs = []

    def close(self):
        try:
            self.session.close()
        except Exception:   # noqa
            pass
        shutil.rmtree(self.dir, ignore_errors=True)
        shutil.rmtree(self.statedir, ignore_errors=True)
        shutil.rmtree(self.lptdir, ignore_errors=True)

    def hook_for(self, schedule):
        import struct
        from pcbasic.basic.base import signals
        session = self.session

        def hook(token):
            self.lines_run += 1
            ln = struct.unpack('<H', token[2:4])[0]
            self.linecount[ln] = self.linecount.get(ln, 0) + 1
            self.lineseq.append(ln)
            if self.lines_run > LINE_LIMIT:
                raise Runaway()
            if self.lines_run in self.keys:
                # before a quit signal of the same moment: a key that is in the queue when the session quits is
                # lost with the queue, which is not what is being checked
                session._impl.queues.inputs.put(signals.Event(signals.KEYB_DOWN, (u'', self.keys[self.lines_run], [])))
            if self.lines_run in schedule:
                self.trace.append((self.lines_run, struct.unpack('<H', token[2:4])[0]))
                session._impl.queues.inputs.put(signals.Event(signals.QUIT))
        return hook

    def output(self):
        return self.session._impl.io_streams._output_streams[0].value()

    def go(self, schedule=(), pointer_check=False):
        """Run to completion, suspending+resuming whenever the session exits before the sentinel.
        Returns 'done' | 'prompt' | 'runaway' | 'exc <name>'."""
        from pcbasic.basic.api import Session
        from pcbasic.basic.base.error import Exit
        import threading
        from pcbasic.basic.base import signals
        first = True
        self.timed_out = False

        def fire():
            # watchdog: a resumed program that loops without reaching a line start, or waits for keys
            self.timed_out = True
            TIMEOUTS[0] += 1
            try:
                self.session._impl.queues.inputs.put(signals.Event(signals.QUIT))
            except Exception:   # noqa
                pass
        timer = threading.Timer(WATCHDOG_S, fire)
        timer.daemon = True
        timer.start()
        try:
            return self._go(schedule, pointer_check, first)
        finally:
            timer.cancel()

    def _go(self, schedule, pointer_check, first):
        from pcbasic.basic.api import Session
        from pcbasic.basic.base.error import Exit
        while True:
            self.session.set_hook(self.hook_for(schedule))
            if first:
                self.session.press_keys(u'RUN\rSYSTEM\r')
                first = False
            try:
                self.session.interact()
                return 'returned'
            except Exit:
                pass
            except Runaway:
                return 'runaway'
            except Exception as e:   # noqa
                return 'exc %s: %s' % (type(e).__name__, e)
            if self.timed_out:
                return 'runaway (no progress for %d s)' % WATCHDOG_S
            out = self.output()
            if SENTINEL in out or out.rstrip().endswith(b'SYSTEM'):
                return 'done' if SENTINEL in out else 'prompt'
            if self.suspensions > 150:
                return 'runaway'
            # suspend the way main.py does: save, then close; resume from the file
            fn = os.path.join(self.statedir, 'state%d' % self.suspensions)
            self.suspensions += 1
            before = self.pointer_state() if pointer_check else None
            try:
                self.session.suspend(fn)
                self.session.close()
                self.session = Session.resume(fn)
                # as main.py does after resuming: the event queues are not pickled
                self.session.attach()
            except Exception as e:   # noqa
                return 'exc in suspend/resume %s: %s' % (type(e).__name__, e)
            if before is not None:
                after = self.pointer_state()
                if after is not None:
                    self.pointer_obs.append((before, after[2]))

    def pointer_state(self):
        """(code, current_statement, pos, redo, between-statements flag) of the running program (anchored internals), or None"""
        try:
            interp = self.session._impl.interpreter
            if not interp.run_mode:
                return None
            code = self.session._impl.program.bytecode
            return (bytes(code.getvalue()), interp.current_statement, code.tell(), bool(interp.parser.redo_on_break),
                    bool(getattr(interp, '_quit_between_statements', False)))
        except AttributeError:
            return None

    def observe(self):
        """everything the statement talks about, after completion"""
        s = self.session
        obs = {'output': self.output()}
        vs = {}
        for name in VARS:
            try:
                v = s.get_variable(name)
            except Exception as e:   # noqa
                v = 'exc %s' % type(e).__name__
            vs[name.decode()] = repr(v)
        obs['variables'] = vs
        obs['screen'] = [b''.join(r) for r in s.get_chars()]
        s.close()
        files = {}
        for fn in sorted(os.listdir(self.dir)):
            with open(os.path.join(self.dir, fn), 'rb') as f:
                files[fn] = f.read()
        for fn in sorted(os.listdir(self.lptdir)):
            with open(os.path.join(self.lptdir, fn), 'rb') as f:
                files['(printer) ' + fn] = f.read()
        obs['files'] = files
        return obs


def first_diff(ref, got):
    for part in ('output', 'files', 'variables', 'screen'):
        if ref[part] != got[part]:
            a, b = ref[part], got[part]
            if isinstance(a, dict):
                for k in sorted(set(a) | set(b)):
                    if a.get(k) != b.get(k):
                        return part, '%s: uninterrupted %.160r, resumed %.160r' % (k, a.get(k), b.get(k))
            if isinstance(a, list):
                for i, (x, y) in enumerate(zip(a, b)):
                    if x != y:
                        return part, 'row %d: uninterrupted %.100r, resumed %.100r' % (i + 1, x.rstrip(), y.rstrip())
            return part, 'uninterrupted %.300r, resumed %.300r' % (a, b)
    return None


def keyword_at(lines, linenum):
    for l in lines:
        if l.startswith('#'):
            continue
        n, _, rest = l.partition(' ')
        if int(n) == linenum:
            m = re.match(r'[A-Z]+\$?', rest.split(':')[0].strip())
            w = m.group(0) if m else 'LET'
            return w if w in ('GOTO', 'GOSUB', 'RETURN', 'NEXT', 'WEND', 'FOR', 'WHILE', 'IF', 'ON', 'RESUME', 'ERROR',
                              'READ', 'RESTORE', 'PRINT', 'OPEN', 'CLOSE', 'SYSTEM', 'DATA', 'DIM', 'LOCATE', 'CLS',
                              'DEF', 'SWAP', 'PUT', 'GET', 'LSET', 'RSET', 'WRITE', 'LINE', 'INPUT', 'COLOR', 'RANDOMIZE',
                              'MID$') else 'LET'
    return '?'


JUMPS = ('GOTO', 'GOSUB', 'RETURN', 'NEXT', 'WEND', 'IF', 'ON', 'RESUME', 'ERROR', 'WHILE', 'READ')


def reference(lines):
    r = Runner(lines)
    try:
        status = r.go(())
        n = r.lines_run
        obs = r.observe() if status in ('done', 'prompt') else None
        if obs is not None:
            obs['linecount'] = dict(r.linecount)
            obs['lineseq'] = list(r.lineseq)
        return status, n, obs
    finally:
        r.close()


def scenario(ctx, lines, ref, schedule, mode, pending=None, base=None):
    """run `lines` with suspensions at `schedule`; compare with the uninterrupted observation `ref`"""
    r = Runner(lines)
    try:
        status = r.go(set(schedule), pointer_check=pending is not None)
        case = {'kind': 'resume', 'mode': mode, 'program': lines, 'schedule': sorted(schedule)}
        if base is not None:
            case['base'] = base
        ctx.case((mode, tuple(lines), tuple(sorted(schedule))))
        ctx.count('suspensions-in-run:%d' % min(r.suspensions, 5))
        after = keyword_at(lines, r.trace[0][1]) if r.trace else 'SYSTEM'
        if r.suspensions:
            ctx.count('suspended-after:' + after)
        what = None
        if status not in ('done', 'prompt'):
            what = 'resumed run did not finish: %s' % status
            part = 'finish'
        else:
            got = r.observe()
            d = first_diff(ref, got)
            if d:
                part, what = d[0], 'differs from the uninterrupted run in %s: %s' % d
        if what and r.suspensions:
            ctx.fail('resume:%s:after-%s:%s' % (mode, after, part), case,
                     'program suspended %d time(s) (quit posted at executed line(s) %s = BASIC line(s) %s) and resumed %s'
                     % (r.suspensions, [t[0] for t in r.trace], [t[1] for t in r.trace], what))
        elif what:
            ctx.fail('rerun-differs:%s' % part, case, 'a second uninterrupted run differs: %s' % what)
        if pending is not None:
            for (code, cs, pos, redo, btw), newpos in r.pointer_obs:
                pending.append(({'pointer': hx(code), 'cs': cs, 'pos': pos, 'redo': redo, 'between': btw}, 'ok %d' % newpos,
                                'resume %s %d %d %d %d' % (hx(code), cs, pos, int(redo), int(btw))))
                ctx.count('pointer-observed:%s' % ('between-statements' if btw else 'inside-statement'))
        return what
    finally:
        r.close()


def insert_system(rng, lines, linecount, lineseq=()):
    """the same program with a SYSTEM statement at a random statement boundary (before a statement of a body line)"""
    # a key press posted while a line is started must reach the interpreter's event poll before the session quits (a key
    # still in the input queue is lost with the queue): no SYSTEM on the lines at which the harness presses a key
    keylines = set()
    for item in session_options(lines).get('keys', '').split(','):
        if item and int(item.partition(':')[0]) <= len(lineseq):
            keylines.add(lineseq[int(item.partition(':')[0]) - 1])
    cand = []
    for i, l in enumerate(lines):
        if l.startswith('#'):
            continue
        n, _, rest = l.partition(' ')
        if int(n) < 100 and len(lines) > 20:
            continue
        if rest.startswith('DATA'):
            continue
        if 'SYSTEM' in rest or not 1 <= linecount.get(int(n), 0) <= 20 or int(n) in keylines:
            continue
        cand.append(i)
    out = list(lines)
    for i in rng.sample(cand, min(len(cand), rng.choice([1, 1, 2, 3]))):
        n, _, rest = out[i].partition(' ')
        parts = rest.split(':') if '"' not in rest and 'IF' not in rest and 'REM' not in rest else [rest]
        j = rng.randrange(len(parts) + 1)
        parts.insert(j, 'SYSTEM')
        out[i] = n + ' ' + ':'.join(parts)
    return out


def skip_to_part(ctx, programs):
    """TokenisedStream.skip_to(END_STATEMENT) from every position of real tokenised programs vs the model"""
    from pcbasic.basic.base import tokens as tk
    from pcbasic.basic.base.codestream import TokenisedStream
    from vlib import basic
    cases, outs, lines = [], [], []
    for prog in programs:
        s = basic.new_session()
        for l in prog:
            s.execute(l.encode('latin-1'))
        try:
            code = bytes(s._impl.program.bytecode.getvalue())
        except AttributeError:
            ctx.count('skip_to:skipped')
            continue
        finally:
            s.close()
        code = code[:400]
        ts = TokenisedStream()
        ts.write(code)
        for pos in range(len(code) + 1):
            ts.seek(pos)
            ts.skip_to(tk.END_STATEMENT)
            cases.append({'skip_to': pos})
            outs.append('ok %d' % ts.tell())
            lines.append('skip %s %d' % (hx(code), pos))
            ctx.case(('skip', code, pos))
            ctx.count('skip_to')
    ctx.compare(cases, outs, lines, 'skip_to')


def resume_part(ctx):
    rng = ctx.rng
    nprog = 7 if ctx.quick else 30
    per_prog = 16 if ctx.quick else 60
    programs = [list(p) for p in FIXED] + [Gen(rng).program() for _ in range(nprog)]
    skip_to_part(ctx, programs[:3] + programs[len(FIXED):len(FIXED) + (2 if ctx.quick else 10)])
    pending = []
    for withsys, base in FIXED_SYSTEM:
        status, n, ref = reference(base)
        ctx.case(('reference', tuple(base)))
        if ref is None:
            ctx.fail('reference-run:' + status.split()[0], {'kind': 'resume', 'mode': 'none', 'program': base, 'schedule': []},
                     'uninterrupted run did not finish: %s' % status)
            continue
        scenario(ctx, withsys, ref, (), 'system', pending, base=base)
    for pi, lines in enumerate(programs):
        if TIMEOUTS[0] >= 3:
            ctx.log('three runs hung (reported as failures); skipping the remaining programs')
            break
        status, n, ref = reference(lines)
        ctx.case(('reference', tuple(lines)))
        ctx.count('reference:' + status)
        ctx.count('lines-executed', n)
        if ref is None:
            ctx.fail('reference-run:' + status.split()[0], {'kind': 'resume', 'mode': 'none', 'program': lines, 'schedule': []},
                     'uninterrupted run did not finish: %s' % status)
            continue
        if pi == len(FIXED):
            ctx.sample({'program': lines, 'lines_executed': n})
        # determinism of the harness itself
        if pi % 5 == 0:
            scenario(ctx, lines, ref, (), 'none')
        # Q: quit signal at the k-th executed line, every k (sampled when long)
        ks = list(range(1, n + 1))
        if len(ks) > per_prog:
            # lines that start with a jump first (the statement executed last before the suspension), then a sample
            jumps = [k for k in ks if keyword_at(lines, ref['lineseq'][k - 1]) in JUMPS]
            rng.shuffle(jumps)
            jumps = jumps[:per_prog // 2]
            rest = [k for k in ks if k not in jumps]
            ks = sorted(jumps + rng.sample(rest, per_prog - len(jumps)))
        for k in ks:
            scenario(ctx, lines, ref, (k,), 'quit', pending if k % 3 == 0 else None)
        # several suspensions in one run
        for _ in range(3 if ctx.quick else 12):
            m = rng.choice([2, 3, 5])
            sched = rng.sample(range(1, n + 1), min(m, n))
            scenario(ctx, lines, ref, sched, 'quit-multi', pending)
        # S: SYSTEM statements inserted at statement boundaries (suspends every time one is reached)
        for _ in range(3 if ctx.quick else 12):
            scenario(ctx, insert_system(rng, lines, ref['linecount'], ref['lineseq']), ref, (), 'system', pending, base=lines)
        if len(pending) > 200:
            flush(ctx, pending, 'resume-pointer')
    flush(ctx, pending, 'resume-pointer')


def run(ctx):
    state_file_part(ctx)
    ctx.log('state files done')
    resume_part(ctx)
    ctx.log('resume done')


def replay(ctx, payload):
    case = payload.get('case', {})
    kind = case.get('kind')
    if kind in ('alter', 'raw'):
        loader = Loader()
        try:
            data = bytes.fromhex(case['file']) if case['file'] != '-' else b''
            if kind == 'alter':
                data = data[:case['pos']] + bytes([case['value']]) + data[case['pos'] + 1:]
            res = loader.load(data)
            return None if res[0] == 'rej' else 'the file was not rejected (%s)' % res[0]
        finally:
            loader.close()
    if kind == 'resume':
        lines = case['program']
        base = case.get('base', lines)
        status, n, ref = reference(base)
        if ref is None:
            return 'uninterrupted run did not finish: %s' % status

        class Sub(object):
            def __init__(self):
                self.what = None
            def case(self, k): pass
            def count(self, k, n=1): pass
            def fail(self, key, case, what):
                self.what = what
        sub = Sub()
        scenario(sub, lines, ref, case.get('schedule', ()), case.get('mode', 'quit'))
        return sub.what
    return None
