import PcbV.Basic
import PcbV.Gen.Errors
import PcbV.Gen.TextModes
/-
  PcbV.Model.TextScreen — transcription of the text-cursor machinery of
  pcbasic/basic/display/textscreen.py (TextScreen: set_pos, _wrap_around_and_scroll_as_needed,
  write_char, _consume_overflow_before_write, newline, scroll, scroll_down, clear_view, clear,
  view_print_, locate_, csrlin_, pos_, screen_fn_; ScrollArea), of the text part of
  display/buffers.py:VideoBuffer (put_char_attr, set_wrap/wraps, clear_rows, scroll_up, scroll_down),
  of pcbasic/basic/console.py:Console.write (control-character dispatch) and Console.start_line, of
  devices/devicebase.py:SCRNFile.write (master file: line break before a string that does not fit),
  of devices/formatter.py:Formatter.format for `PRINT A$` / `PRINT A$;`, of Implementation._handle_error
  (what an error message does to the screen) and of display.py:Display.screen/set_width/cls_ as far as
  they reset the text screen (VGA adapter, SCREEN 0/1/2/7/8/9, WIDTH 40/80, no VIEW, bottom bar off; and the
  Tandy/PCjr adapters, field `tandy`, SCREEN 0/1/2: VIEW PRINT up to row 25, kept over mode changes).

  The screen is 25 rows of `width` bytes (attributes, DBCS, pixels and the row `length` field do not
  influence anything modelled here and are left out) plus one `wrap` flag per row; rows and columns are
  1-based as in the Python code.  Python list indexing with a negative index (`_rows[row-2]` when
  `row = 1`) is modelled by `pyRow`.  Cursor coordinates are `Nat`: the code only ever subtracts 1
  from a coordinate that is ≥ 1 (theorem `PcbV.C36.cursor_in_screen`).

  This is the REPAIRED code (pending_fixes/C36-*.diff): `locate_` clears the pending-wrap (`overflow`)
  flag when a row or column is given, `_wrap_around_and_scroll_as_needed` clears it when the column
  wraps into the next row, and `view_print_` clears `_bottom_row_allowed`.  `Old.*` at the end of the
  file is the unrepaired behaviour.
-/
namespace PcbV.TextScreen
open PcbV

/-- `mode.height` of every mode modelled (theorem `constants_match` ties it to /repo) -/
def height : Nat := 25

structure St where
  /-- SCREEN number (0 = text) -/
  mode : Nat
  /-- `mode.width` -/
  width : Nat
  /-- `Display.colorswitch` (truthiness) -/
  colorswitch : Bool
  /-- `_TextRow.chars` of the 25 rows of the active page -/
  chars : List (List Nat)
  /-- `_TextRow.wrap` of the 25 rows -/
  wraps : List Bool
  /-- `current_row`, `current_col`, `overflow`, `_bottom_row_allowed` -/
  row : Nat
  col : Nat
  overflow : Bool
  bottomAllowed : Bool
  /-- `ScrollArea._top/_bottom/_active` -/
  top : Nat
  bottom : Nat
  active : Bool
  /-- `TextScreen._tandytext`: video adapter `tandy` or `pcjr` (a configuration constant; VIEW PRINT may then
      include row 25 and such a window survives a mode change) -/
  tandy : Bool
deriving Repr, DecidableEq

def blankRow (w : Nat) : List Nat := List.replicate w 32

/-- fresh pages of `Display._set_mode` -/
def blankChars (w : Nat) : List (List Nat) := List.replicate height (blankRow w)
def blankWraps : List Bool := List.replicate height false

/-- a new Session with `video='vga'`: SCREEN 0, WIDTH 80, colorswitch 1 -/
def init : St :=
  { mode := 0, width := 80, colorswitch := true, chars := blankChars 80, wraps := blankWraps,
    row := 1, col := 1, overflow := false, bottomAllowed := false, top := 1, bottom := 24, active := false,
    tandy := false }

/-- a new Session with `video='tandy'` or `video='pcjr'` (text mode, WIDTH 80, KEY OFF) -/
def initTandy : St := { init with tandy := true }

/-! ### list helpers (Python list semantics) -/

/-- Python `l.insert(i, x)` for `i ≥ 0` (appends when `i ≥ len`) -/
def pyInsert (i : Nat) (x : α) (l : List α) : List α := l.take i ++ x :: l.drop i
/-- Python `del l[i]` for `0 ≤ i < len` -/
def pyDel (i : Nat) (l : List α) : List α := l.take i ++ l.drop (i + 1)
/-- index of `_rows[r-1]` for a 1-based row `r ≥ 0`: `r = 0` is Python index −1, the last element -/
def pyRow (len r : Nat) : Nat := if r = 0 then len - 1 else r - 1

/-- `VideoBuffer.get_byte(row, col)` -/
def cell (ch : List (List Nat)) (r c : Nat) : Nat := (ch.getD (r - 1) []).getD (c - 1) 32

/-- `VideoBuffer.put_char_attr(row, col, char, …)` on the character buffer -/
def putCell (ch : List (List Nat)) (r c v : Nat) : List (List Nat) :=
  ch.modify (r - 1) (fun rw => rw.set (c - 1) v)

/-- `VideoBuffer.wraps(row)` -/
def getWrap (s : St) (r : Nat) : Bool := s.wraps.getD (pyRow s.wraps.length r) false
/-- `VideoBuffer.set_wrap(row, wrap)` -/
def setWrap (s : St) (r : Nat) (v : Bool) : St := { s with wraps := s.wraps.set (pyRow s.wraps.length r) v }

/-- `_clear_text_area(a, 1, b, width, …, clear_wrap=True)` on the character rows: `_rows[a-1:b]` -/
def clearRowsChars (w : Nat) (ch : List (List Nat)) (a b : Nat) : List (List Nat) :=
  ch.take (a - 1) ++ ((ch.drop (a - 1)).take (b - (a - 1))).map (fun _ => blankRow w) ++ ch.drop (max b (a - 1))
def clearRowsWraps (wr : List Bool) (a b : Nat) : List Bool :=
  wr.take (a - 1) ++ ((wr.drop (a - 1)).take (b - (a - 1))).map (fun _ => false) ++ wr.drop (max b (a - 1))

/-- `VideoBuffer.clear_rows(a, b, attr)` -/
def clearRows (s : St) (a b : Nat) : St :=
  { s with chars := clearRowsChars s.width s.chars a b, wraps := clearRowsWraps s.wraps a b }

/-- `VideoBuffer.scroll_up(from_row, to_row, attr)` on the character rows -/
def scrollUpChars (w : Nat) (ch : List (List Nat)) (fromRow toRow : Nat) : List (List Nat) :=
  pyDel (fromRow - 1) (pyInsert toRow (blankRow w) ch)

/-- … and on the wrap flags: "remove any wrap above/into deleted row, unless the deleted row wrapped
    into the next" uses `_rows[from_row-2]`, which for `from_row = 1` is the LAST element of the list
    after the insertion -/
def scrollUpWraps (wr : List Bool) (fromRow toRow : Nat) : List Bool :=
  let w1 := pyInsert toRow false wr
  let i := if fromRow ≤ 1 then w1.length - 1 else fromRow - 2
  let w2 := if w1.getD i false then w1.set i (w1.getD (fromRow - 1) false) else w1
  pyDel (fromRow - 1) w2

/-- `VideoBuffer.scroll_down(from_row, to_row, attr)` -/
def scrollDownChars (w : Nat) (ch : List (List Nat)) (fromRow toRow : Nat) : List (List Nat) :=
  pyDel (toRow - 1) (pyInsert (fromRow - 1) (blankRow w) ch)
def scrollDownWraps (wr : List Bool) (fromRow toRow : Nat) : List Bool :=
  let w1 := pyDel (toRow - 1) (pyInsert (fromRow - 1) false wr)
  let i := if fromRow ≤ 1 then w1.length - 1 else fromRow - 2
  if w1.getD i false then w1.set (fromRow - 1) true else w1

/-! ### TextScreen -/

/-- `TextScreen.scroll(from_row=None)` -/
def scroll (s : St) : St :=
  let s1 := { s with chars := scrollUpChars s.width s.chars s.top s.bottom,
                     wraps := scrollUpWraps s.wraps s.top s.bottom }
  if s1.row > s1.top then { s1 with row := s1.row - 1 } else s1

/-- `TextScreen.scroll_down(from_row)` -/
def scrollDown (s : St) (fromRow : Nat) : St :=
  let s1 := { s with chars := scrollDownChars s.width s.chars fromRow s.bottom,
                     wraps := scrollDownWraps s.wraps fromRow s.bottom }
  if s1.row ≥ fromRow then { s1 with row := s1.row + 1 } else s1

/-- `TextScreen._wrap_around_and_scroll_as_needed(scroll_ok)` (repaired: a column that wraps into the
    next row is a definite position, the pending-wrap flag is dropped) -/
def wrapAround (s : St) (scrollOk : Bool) : St :=
  if s.bottomAllowed ∧ s.row = height then
    let c := min s.width s.col
    { s with col := if c < 1 then c + 1 else c }
  else
    let s := { s with bottomAllowed := false }
    let s :=
      if s.col > s.width then
        if s.row < s.bottom ∨ scrollOk then
          { s with col := s.col - s.width, row := s.row + 1, overflow := false }
        else { s with col := s.width }
      else if s.col < 1 then
        if s.row > s.top then { s with col := s.col + s.width, row := s.row - 1 }
        else { s with col := 1 }
      else s
    if s.row > s.bottom then
      let s := if scrollOk then scroll s else s
      { s with row := s.bottom }
    else if s.row < s.top then { s with row := s.top }
    else s

/-- `TextScreen.set_pos(to_row, to_col, scroll_ok)` -/
def setPos (s : St) (r c : Nat) (scrollOk : Bool) : St :=
  let s := if c < s.width then { s with overflow := false } else s
  wrapAround { s with row := r, col := c } scrollOk

/-- `TextScreen._consume_overflow_before_write(do_scroll_down)` -/
def consumeOverflow (s : St) (doScrollDown : Bool) : St :=
  let s := if s.overflow then { s with col := s.col + 1, overflow := false } else s
  if s.col > s.width then
    if s.row < height then
      let s :=
        if ¬ getWrap s s.row then
          let s := if doScrollDown ∧ s.row < s.bottom then scrollDown s (s.row + 1) else s
          setWrap s s.row true
        else s
      { s with row := s.row + 1, col := 1 }
    else { s with col := s.width }
  else s

/-- `TextScreen.write_char(char, do_scroll_down)` -/
def writeChar (s : St) (ch : Nat) (doScrollDown : Bool) : St :=
  let s := consumeOverflow s doScrollDown
  let s := wrapAround s true
  let s := { s with chars := putCell s.chars s.row s.col ch }
  let s :=
    if s.col < s.width then { s with col := s.col + 1 }
    else if getWrap s s.row then { s with row := s.row + 1, col := 1 }
    else { s with overflow := true }
  wrapAround s true

/-- `TextScreen.write_chars(chars, do_scroll_down)` -/
def writeChars (s : St) (l : List Nat) (doScrollDown : Bool) : St :=
  l.foldl (fun s c => writeChar s c doScrollDown) s

/-- `TextScreen.clear_view()` -/
def clearView (s : St) : St := setPos (clearRows s s.top s.bottom) s.top 1 true

/-- `TextScreen.clear()` -/
def clearAll (s : St) : St := setPos (clearRows s 1 height) 1 1 true

/-- `TextScreen.newline(wrap)` -/
def newline (s : St) (wrap : Bool) : St := setPos (setWrap s s.row wrap) (s.row + 1) 1 true

/-! ### Console -/

/-- the bytes `Console.write` treats as control characters -/
def isControl (c : Nat) : Bool :=
  c == 9 || c == 10 || c == 13 || c == 7 || c == 11 || c == 12 || c == 28 || c == 29 || c == 30 || c == 31

/-- one byte of `Console.write` (buffering of `out_chars` is invisible: `write_chars` writes them one
    by one, and `row, col` are read after the buffer was dumped) -/
def consoleByte (s : St) (c : Nat) : St :=
  if c = 9 then writeChars s (List.replicate (8 - (s.col - 1) % 8) 32) false
  else if c = 10 ∨ c = 13 then newline s false
  else if c = 7 then s
  else if c = 11 then setPos s 1 1 false
  else if c = 12 then clearView s
  else if c = 28 then setPos s s.row (s.col + 1) false
  else if c = 29 then setPos s s.row (s.col - 1) false
  else if c = 30 then setPos s (s.row - 1) s.col false
  else if c = 31 then setPos s (s.row + 1) s.col false
  else writeChar s c false

/-- `Console.write(s)` -/
def consoleWrite (s : St) (l : List Nat) : St :=
  if l.isEmpty then s else l.foldl consoleByte (setWrap s s.row false)

/-- `Console.start_line()` -/
def startLine (s : St) : St :=
  let s := if s.col ≠ 1 then setPos s (s.row + 1) 1 true else s
  setWrap s (s.row - 1) false

/-- `Implementation._handle_error` for Illegal function call in direct mode -/
def printError (s : St) : St :=
  let s := startLine s
  let s := consoleWrite s Gen.TextModes.ifcMessage
  let s := consoleWrite s [255]
  consoleWrite s [13]

/-! ### SCRN: file and PRINT -/

/-- the scan of `SCRNFile.write` for the printable width of the first line; `(s_width, newline)` -/
def firstLineWidth : List Nat → Int × Bool
  | [] => (0, false)
  | c :: cs =>
    if c = 13 ∨ c = 10 then (0, true)
    else
      let r := firstLineWidth cs
      (r.1 + (if c = 8 then -1 else if c ≥ 32 then 1 else 0), r.2)

/-- the output loop of `SCRNFile.write` for the master file (`self.col` is the live console column,
    `self.width` the live screen width) -/
def scrnLoop (s : St) (out : List Nat) : List Nat → St
  | [] => consoleWrite s out
  | c :: cs =>
    let p : St × List Nat :=
      if s.col > s.width then (consoleWrite s (out ++ [13]), []) else (s, out)
    let out := p.2 ++ [c]
    if c = 10 ∨ c = 13 then scrnLoop (consoleWrite p.1 out) [] cs
    else scrnLoop p.1 out cs

/-- `SCRNFile.write(s, can_break=True)` on the master file -/
def scrnWrite (s : St) (l : List Nat) : St :=
  if l.isEmpty then s else
  let fw := firstLineWidth l
  let s :=
    if s.row ≠ height ∧ s.col ≠ 1 ∧ ((s.col : Int) - 1 + fw.1 > (s.width : Int)) ∧ ¬ fw.2
    then consoleWrite s [13] else s
  scrnLoop s [] l

/-- `PRINT A$` (`nl = true`) / `PRINT A$;` through `Formatter.format` -/
def printStr (s : St) (l : List Nat) (nl : Bool) : St :=
  let s := scrnWrite s l
  if nl then
    let s := if s.overflow then consoleWrite s [13] else s
    consoleWrite s [13]
  else s

/-! ### statements and functions -/

/-- `error.range_check(lo, hi, v)` -/
def inRange (lo hi v : Int) : Bool := decide (lo ≤ v) && decide (v ≤ hi)

/-- `TextScreen.locate_` with row/column arguments only (repaired: an explicit row or column ends a
    pending wrap) -/
def locate (s : St) (r c : Option Int) : R St :=
  let row : Int := r.getD s.row
  let col : Int := c.getD s.col
  if ¬ (if s.active then inRange s.top s.bottom row else inRange 1 height row) then .error Gen.E.ifc
  else if ¬ inRange 1 s.width col then .error Gen.E.ifc
  else
    let s := if row = height then { s with bottomAllowed := true } else s
    let s := if r.isSome ∨ c.isSome then { s with overflow := false } else s
    .ok (setPos s row.toNat col.toNat false)

/-- `TextScreen.csrlin_` -/
def csrlin (s : St) : Nat :=
  if s.overflow ∧ s.col = s.width ∧ s.row < s.bottom then s.row + 1 else s.row

/-- `TextScreen.pos_` -/
def pos (s : St) : Nat :=
  if s.col = s.width ∧ s.overflow then 1 else s.col

/-- `TextScreen.screen_fn_` without the attribute argument -/
def screenFn (s : St) (r c : Int) : R Nat :=
  if ¬ inRange 0 height r then .error Gen.E.ifc
  else if ¬ inRange 0 s.width c then .error Gen.E.ifc
  else if r = 0 ∧ c = 0 then .error Gen.E.ifc
  else
    let r := if r = 0 then 1 else r
    let c := if c = 0 then 1 else c
    if s.active ∧ ¬ inRange s.top s.bottom r then .error Gen.E.ifc
    else .ok (cell s.chars r.toNat c.toNat)

/-- `TextScreen.view_print_` with the bottom bar hidden: `max_line` is 25 on Tandy/PCjr, 24 elsewhere
    (repaired: setting a scroll area ends the permission to stay on row 25 that `LOCATE 25,c` gave) -/
def viewPrint (s : St) (a : Option (Int × Int)) : R St :=
  match a with
  | none => .ok { s with top := 1, bottom := height - 1, active := false }
  | some (t, b) =>
    let maxLine : Int := if s.tandy then 25 else 24
    if ¬ (inRange 1 maxLine t && inRange 1 maxLine b) then .error Gen.E.ifc
    else if b < t then .error Gen.E.ifc
    else .ok { s with top := t.toNat, bottom := b.toNat, active := true,
                      overflow := false, bottomAllowed := false, row := t.toNat, col := 1 }

/-- `Display.cls_` without argument, no graphics viewport -/
def cls (s : St) : St := if s.active then clearView s else clearRows (clearAll s) height height

/-- `Display._set_mode` → `TextScreen.init_mode`: new pages, cursor home; `ScrollArea.init_mode`: a scroll area
    that ends on row 25 (Tandy/PCjr) becomes `VIEW PRINT 1 TO 25`, any other one is unset -/
def resetMode (s : St) (m w : Nat) : St :=
  let keep := decide (s.bottom = height)
  let s1 : St := { s with mode := m, width := w, colorswitch := false, chars := blankChars w, wraps := blankWraps,
                          top := 1, bottom := if keep then height else height - 1, active := keep }
  setPos s1 s1.top 1 true

def lookup2 (l : List (Nat × Nat)) (k : Nat) : Option Nat := (l.find? (fun p => p.1 == k)).map (·.2)
def lookup3 (l : List (Nat × Nat × Nat)) (k1 k2 : Nat) : Option Nat :=
  (l.find? (fun p => p.1 == k1 && p.2.1 == k2)).map (·.2.2)

/-- text columns of SCREEN `m` when switching from width `cur` -/
def modeWidth (m cur : Nat) : Option Nat :=
  if m = 0 then some cur else lookup2 Gen.TextModes.graphicsWidth m

/-- `SCREEN m` (`Display.screen_` → `screen(m, None, None, None)`): full reset iff the mode or the
    colorswitch truth value changes -/
def screenStmt (s : St) (m : Nat) : R St :=
  match modeWidth m s.width with
  | none => .error Gen.E.ifc
  | some w => .ok (if m ≠ s.mode ∨ w ≠ s.width ∨ s.colorswitch then resetMode s m w else s)

/-- `WIDTH w` (`Display.set_width`) -/
def widthStmt (s : St) (w : Nat) : R St :=
  if w = s.width then .ok s
  else if s.mode = 0 then
    (if Gen.TextModes.textWidths.contains w then .ok (resetMode s 0 w) else .error Gen.E.ifc)
  else
    match lookup3 Gen.TextModes.toWidth s.mode w with
    | none => .error Gen.E.ifc
    | some m =>
      match modeWidth m w with
      | none => .error Gen.E.ifc
      | some w' => .ok (resetMode s m w')

/-! ### histories -/

inductive Op where
  | print (l : List Nat) (nl : Bool)
  | locate (r c : Option Int)
  | cls
  | viewPrint (a : Option (Int × Int))
  | width (w : Nat)
  | screen (m : Nat)
  /-- `S% = SCREEN(r, c)`: changes nothing unless it fails -/
  | screenFn (r c : Int)
deriving Repr, DecidableEq

/-- a failing statement prints its message -/
def orError (s : St) : R St → St × Nat
  | .ok s' => (s', 0)
  | .error e => (printError s, e)

/-- one direct-mode statement; second component: BASIC error number (0 = none) -/
def stepE (s : St) : Op → St × Nat
  | .print l nl => (printStr s l nl, 0)
  | .locate r c => orError s (locate s r c)
  | .cls => (cls s, 0)
  | .viewPrint a => orError s (viewPrint s a)
  | .width w => orError s (widthStmt s w)
  | .screen m => orError s (screenStmt s m)
  | .screenFn r c => orError s ((screenFn s r c).map (fun _ => s))

def step (s : St) (op : Op) : St := (stepE s op).1

def run (s : St) (ops : List Op) : St := ops.foldl step s

/-! ### the unrepaired code (for the counterexample theorems) -/
namespace Old

def wrapAround (s : St) (scrollOk : Bool) : St :=
  if s.bottomAllowed ∧ s.row = height then
    let c := min s.width s.col
    { s with col := if c < 1 then c + 1 else c }
  else
    let s := { s with bottomAllowed := false }
    let s :=
      if s.col > s.width then
        if s.row < s.bottom ∨ scrollOk then { s with col := s.col - s.width, row := s.row + 1 }
        else { s with col := s.width }
      else if s.col < 1 then
        if s.row > s.top then { s with col := s.col + s.width, row := s.row - 1 }
        else { s with col := 1 }
      else s
    if s.row > s.bottom then
      let s := if scrollOk then scroll s else s
      { s with row := s.bottom }
    else if s.row < s.top then { s with row := s.top }
    else s

def setPos (s : St) (r c : Nat) (scrollOk : Bool) : St :=
  let s := if c < s.width then { s with overflow := false } else s
  wrapAround { s with row := r, col := c } scrollOk

def writeChar (s : St) (ch : Nat) : St :=
  let s := consumeOverflow s false
  let s := wrapAround s true
  let s := { s with chars := putCell s.chars s.row s.col ch }
  let s :=
    if s.col < s.width then { s with col := s.col + 1 }
    else if getWrap s s.row then { s with row := s.row + 1, col := 1 }
    else { s with overflow := true }
  wrapAround s true

def locate (s : St) (r c : Option Int) : R St :=
  let row : Int := r.getD s.row
  let col : Int := c.getD s.col
  if ¬ (if s.active then inRange s.top s.bottom row else inRange 1 height row) then .error Gen.E.ifc
  else if ¬ inRange 1 s.width col then .error Gen.E.ifc
  else
    let s := if row = height then { s with bottomAllowed := true } else s
    .ok (setPos s row.toNat col.toNat false)

def viewPrint (s : St) (a : Option (Int × Int)) : R St :=
  match a with
  | none => .ok { s with top := 1, bottom := height - 1, active := false }
  | some (t, b) =>
    if ¬ (inRange 1 24 t && inRange 1 24 b) then .error Gen.E.ifc
    else if b < t then .error Gen.E.ifc
    else .ok { s with top := t.toNat, bottom := b.toNat, active := true,
                      overflow := false, row := t.toNat, col := 1 }

/-- `TextScreen.newline(False)` -/
def newline (s : St) : St := setPos (setWrap s s.row false) (s.row + 1) 1 true

end Old

end PcbV.TextScreen
