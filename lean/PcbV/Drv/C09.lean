import PcbV.Model.Strings
namespace PcbV.Drv.C09
open PcbV PcbV.Strings

/-- `s:<hex>` string, `n:<int>` number -/
def parseV (w : String) : Option V :=
  if w.startsWith "s:" then (ofHex (w.drop 2).toString).map V.str
  else if w.startsWith "n:" then ((w.drop 2).toString.toInt?).map V.num
  else none

/-- optional argument: `-` = omitted -/
def parseOptV (w : String) : Option (Option V) :=
  if w == "-" then some none else (parseV w).map some

def showB (r : R Bytes) : String := showR toHex r
def showN (r : R Nat) : String := showR toString r

def parseCmp : String → Option Cmp
  | "eq" => some .eq | "neq" => some .neq | "gt" => some .gt
  | "gte" => some .gte | "lte" => some .lte | "lt" => some .lt
  | _ => none

def handle : List String → String
  | [op, a] =>
    match parseV a with
    | none => "bad-op"
    | some a =>
      match op with
      | "space" => showB (space_ a)
      | "len" => showN (len_ a)
      | "asc" => showN (asc_ a)
      | "chr" => showB (chr_ a)
      | _ => "bad-op"
  | [op, a, b] =>
    match parseV a, parseV b with
    | some a, some b =>
      match op with
      | "left" => showB (left_ a b)
      | "right" => showB (right_ a b)
      | "string" => showB (string_ a b)
      | "add" => match add a b with
        | none => "na"
        | some r => showB r
      | "lset" => showB (lsetStmt a b false)
      | "rset" => showB (lsetStmt a b true)
      | _ => "bad-op"
    | _, _ => "bad-op"
  | ["mid", s, st, n] =>
    match parseV s, parseV st, parseOptV n with
    | some s, some st, some n => showB (mid_ s st n)
    | _, _, _ => "bad-op"
  | ["instr", st, big, small] =>
    match parseV big, parseV small with
    | some big, some small =>
      if st == "-" then showN (instr_ none big small)
      else match st.toInt? with
        | some i => showN (instr_ (some i) big small)
        | none => "bad-op"
    | _, _ => "bad-op"
  | ["cmp", op, a, b] =>
    match parseCmp op, parseV a, parseV b with
    | some op, some a, some b =>
      match cmp op a b with
      | none => "na"
      | some r => showR showBool r
    | _, _, _ => "bad-op"
  | ["midset", t, st, n, v] =>
    match ofHex t, parseV st, parseOptV n with
    | some t, some st, some n =>
      if v == "same" then showB (midStmt t st n none)
      else match parseV v with
        | some v => showB (midStmt t st n (some v))
        | none => "bad-op"
    | _, _, _ => "bad-op"
  | ["flset", b, toff, tlen, soff, slen, dir] =>
    match ofHex b, toff.toNat?, tlen.toNat?, soff.toNat?, slen.toNat? with
    | some b, some toff, some tlen, some soff, some slen =>
      showB (lsetField b toff tlen soff slen (dir == "r"))
    | _, _, _, _, _ => "bad-op"
  | ["fmid", b, toff, tlen, soff, slen, st, n] =>
    match ofHex b, toff.toNat?, tlen.toNat?, soff.toNat?, slen.toNat?, parseV st, parseOptV n with
    | some b, some toff, some tlen, some soff, some slen, some st, some n =>
      showB (midsetField b toff tlen soff slen st n)
    | _, _, _, _, _, _, _ => "bad-op"
  | _ => "bad-op"

end PcbV.Drv.C09
