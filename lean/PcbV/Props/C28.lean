/-
  C28 — DOS file names map to host files consistently.

  Models: PcbV.Model.DosNames (name functions and `_get_native_name`, shared with C27) and PcbV.Model.DosFiles
  (wildcard matcher, display names, FILES, KILL, NAME, OPEN on ONE host directory).  The host directory `d : Dir`
  (list of native names) is a PARAMETER: every theorem quantifies over all directories, names and capitalisations.
  `lookup d name defext create` is `DiskDevice._get_native_name` in that directory.
  The model is the REPAIRED code (KILL / FILES ignore trailing blanks of the mask); `killOld` / `filesOld` = before.
-/
import PcbV.Lemmas.DosFilesTail
namespace PcbV.C28
open PcbV PcbV.Gen PcbV.Gen.DosTables PcbV.DosNames PcbV.DosFiles PcbV.PathLemmas PcbV.DosFilesLemmas

/-! Definitions used by the statements (PcbV.Lemmas.DosFilesLookup / DosFilesTail, namespace PcbV.DosFilesLemmas):
  `undot n`   — `_get_native_name`'s single-trailing-dot rule, the name the 8.3 lookup is based on ("AB." → "AB");
  `dottedB n` — the name ends in a dot and has no other dot;
  `asIs d n`  — a host file of `d` is spelled exactly like the (extended) name: the as-is tests of `_get_native_name`;
  `partBad p` — a part of a name is bad: a blank at either edge or a character outside the allowable set;
  `illegal n` — the illegal names of the statement (decidable): after ignoring one trailing dot and cutting to 8 + 3
                characters, the name part or the extension is bad (a second dot is a character outside the set). -/

/-! ### dos_normalise_name -/

/-- normalising twice is normalising once, for every byte string -/
theorem normalise_idempotent (s : Bytes) : normalise (normalise s) = normalise s := normalise_idem s

/-- the normal form only depends on the upper-cased name -/
theorem normalise_case_insensitive (a b : Bytes) (h : upper a = upper b) : normalise a = normalise b :=
  normalise_of_upper_eq h

/-! ### default extension -/

/-- `_get_dos_name_defext`: trailing whitespace is dropped and a non-empty default extension is added exactly when
    the (stripped) name contains no dot; without default extension nothing is ever added -/
theorem defext_iff_no_dot (name x : Bytes) (hx : x ≠ []) :
    (dosNameDefext name x = rstrip name ++ 46 :: x ↔ 46 ∉ rstrip name) ∧
    (dosNameDefext name x = rstrip name ↔ 46 ∈ rstrip name) ∧
    dosNameDefext name [] = rstrip name := by
  have hx' : x.isEmpty = false := by cases x <;> simp_all
  refine ⟨?_, ?_, by simp [dosNameDefext]⟩
  · by_cases h : 46 ∈ rstrip name
    · simp [dosNameDefext, h]
    · simp [dosNameDefext, h, hx']
  · by_cases h : 46 ∈ rstrip name
    · simp [dosNameDefext, h]
    · simp [dosNameDefext, h, hx']

/-! ### wildcards -/

/-- the matcher of `dos_name_matches` (mask first, both upper-cased by `nameMatches`):
    the empty mask matches the empty name only; `?` matches exactly one character (never pads);
    `*` matches any run of characters, possibly empty; any other byte matches itself
    (no character matches a line feed, as in the regular expression the code builds) -/
theorem wildcard_spec (ms n : Bytes) :
    (wmatch [] n = true ↔ n = []) ∧
    (wmatch (63 :: ms) n = true ↔ ∃ c n', n = c :: n' ∧ c ≠ 10 ∧ wmatch ms n' = true) ∧
    (wmatch (42 :: ms) n = true ↔
      ∃ k, k ≤ n.length ∧ (∀ c ∈ n.take k, c ≠ 10) ∧ wmatch ms (n.drop k) = true) ∧
    (∀ m, m ≠ 63 → m ≠ 42 → (wmatch (m :: ms) n = true ↔ ∃ n', n = m :: n' ∧ wmatch ms n' = true)) := by
  refine ⟨by simp [wmatch_nil], ?_, wmatch_star ms n, ?_⟩
  · rw [wmatch_q]
    cases n with
    | nil => simp
    | cons c n' =>
      simp only [Bool.and_eq_true, bne_iff_ne, ne_eq, List.cons.injEq]
      constructor
      · rintro ⟨h1, h2⟩; exact ⟨c, n', ⟨rfl, rfl⟩, h1, h2⟩
      · rintro ⟨c1, n1, ⟨rfl, rfl⟩, h1, h2⟩; exact ⟨h1, h2⟩
  · intro m h1 h2
    rw [wmatch_lit ms n h1 h2]
    cases n with
    | nil => simp
    | cons c n' =>
      simp only [Bool.and_eq_true, beq_iff_eq, List.cons.injEq]
      constructor
      · rintro ⟨h, hm⟩; exact ⟨n', ⟨h, rfl⟩, hm⟩
      · rintro ⟨n'', ⟨h, hn⟩, hm⟩; exact ⟨h, hn ▸ hm⟩

/-- matching ignores the case of the name and of the mask -/
theorem match_case_insensitive (name name' mask mask' : Bytes) (h1 : upper name' = upper name)
    (h2 : upper mask' = upper mask) : nameMatches name' mask' = nameMatches name mask := by
  simp [nameMatches, h1, h2]

/-! ### illegal names -/

/-- `illegal` is what the code tests: the 8.3 form of the name fails `dos_is_legal_name` -/
theorem illegal_iff_code (n : Bytes) (hd : isDots (undot n) = false) :
    illegal n = !isLegal (normalise (undot n)) := by
  rw [isLegal_eq, normalise_not_dots hd, splitext_normalise hd]
  have h8 : (normT (undot n)).length ≤ 8 := by simp [normT, List.length_take]; omega
  have h3 : (normE (undot n)).length ≤ 3 := by simp [normE, List.length_take]; omega
  simp only [illegal, partBad, legalParts, h8, h3, decide_true, Bool.and_self, Bool.true_and,
    Bool.false_eq_true, ↓reduceIte, List.all_append]
  generalize normT (undot n) = T
  generalize normE (undot n) = E
  rw [List.all_eq_not_any_not (l := T), List.all_eq_not_any_not (l := E)]
  simp only [bne]
  generalize (T == strip T) = b1
  generalize (E == strip E) = b2
  generalize (T.any fun c => !allowable.contains c) = a1
  generalize (E.any fun c => !allowable.contains c) = a2
  cases b1 <;> cases b2 <;> cases a1 <;> cases a2 <;> rfl

/-- Bad file name is raised by the name lookup of OPEN / SAVE / LOAD / NAME exactly for the illegal names
    (when the name has no leading blank, is not "." / "..", and no host file is spelled exactly like it) -/
theorem illegal_bad_file_name (d : Dir) (name x : Bytes) (create : Bool) :
    lookup d name x create = .error E.bad_file_name ↔
      (name = lstrip name ∧ isDots (dosNameDefext name x) = false ∧ asIs d (dosNameDefext name x) = false ∧
        illegal (dosNameDefext name x) = true) := by
  unfold lookup nativeName
  simp only []
  by_cases h0 : name = lstrip name
  · have h0' : (name != lstrip name) = false := by simp [← h0]
    have hT : (name = lstrip name) = True := propext (iff_true_intro h0)
    simp only [h0', Bool.false_eq_true, ↓reduceIte]
    rw [hT, true_and]
    generalize dosNameDefext name x = n
    cases hd : isDots n with
    | true => simp [E.file_not_found, E.bad_file_name]
    | false =>
      simp only [Bool.false_eq_true, ↓reduceIte, true_and]
      rw [tail_eq]
      cases ha : asIs d n with
      | true => simp only [↓reduceIte]; split <;> simp [E.bad_file_name]
      | false =>
        simp only [Bool.false_eq_true, ↓reduceIte, true_and]
        have hu : isDots (undot n) = false := undot_not_dots hd
        rw [illegal_iff_code n hu]
        cases hl : isLegal (normalise (undot n)) with
        | false => simp
        | true =>
          simp only [Bool.not_true, Bool.false_eq_true, ↓reduceIte, iff_false]
          split
          · simp [E.bad_file_name]
          · cases create <;> simp [E.file_not_found, E.bad_file_name]
  · have h0' : (name != lstrip name) = true := by simpa using h0
    simp [h0', h0, E.file_not_found, E.bad_file_name]


/-! ### creation and lookup -/

/-- A legal name (after the default extension was applied; no leading blank) always resolves for OPEN FOR OUTPUT /
    SAVE / NAME … AS, and when the resolved host name is not already in the directory — the file is CREATED — it is
    the upper-case form of the name (without a bare trailing dot), which is also its normal form. -/
theorem legal_upper_created (d : Dir) (name x : Bytes) (h0 : name = lstrip name)
    (hl : isLegal (dosNameDefext name x) = true) (hd : isDots (dosNameDefext name x) = false) :
    ∃ c, lookup d name x true = .ok c ∧
      (c ∉ d → c = upper (undot (dosNameDefext name x)) ∧ c = normalise (dosNameDefext name x)) := by
  rw [lookup_eq h0 hd, tail_eq]
  generalize dosNameDefext name x = n at hl hd ⊢
  obtain ⟨hnu, hnl⟩ := legal_norm_undot hl hd
  have hnn := (legal_undot hl hd).2.2
  cases ha : asIs d n with
  | true =>
    simp only [↓reduceIte]
    have hm := asIs_mem ha
    split
    · rename_i h1; rw [if_pos h1] at hm; exact ⟨_, rfl, fun h => absurd hm h⟩
    · rename_i h1; rw [if_neg h1] at hm; exact ⟨_, rfl, fun h => absurd hm h⟩
  | false =>
    simp only [Bool.false_eq_true, ↓reduceIte, hnl, Bool.not_true]
    split
    · rename_i c f hdn
      refine ⟨_, rfl, fun hc => ?_⟩
      rcases dosToNative_some hdn with h | h
      · rw [h]; exact ⟨hnu, hnn⟩
      · simp only [scanMatch, Bool.and_eq_true] at h
        exact absurd (istype_mem h.2) hc
    · exact ⟨_, rfl, fun _ => ⟨hnu, hnn⟩⟩

/-- **Case-insensitive lookup.**  If OPEN FOR OUTPUT / SAVE under a legal DOS name created the host file `c`
    (the lookup resolved to a name that was not in the directory), then afterwards EVERY capitalisation `name'` of
    that name resolves to that same host file `c`, for reading and for writing, with the same default extension. -/
theorem case_insensitive_lookup (d : Dir) (name name' x : Bytes) (c : HostName) (create : Bool)
    (h0 : name = lstrip name) (hl : isLegal (dosNameDefext name x) = true)
    (hd : isDots (dosNameDefext name x) = false) (hne : dosNameDefext name x ≠ [])
    (hcreated : lookup d name x true = .ok c) (hnew : c ∉ d)
    (hcase : upper name' = upper name) :
    lookup (d ++ [c]) name' x create = .ok c := by
  have h0' : name' = lstrip name' := lstrip_self_of_upper hcase h0
  have hun := dosNameDefext_of_upper_eq x hcase
  have hd' : isDots (dosNameDefext name' x) = false := by rw [isDots_of_upper_eq hun]; exact hd
  have hl' : isLegal (dosNameDefext name' x) = true := by rw [isLegal_of_upper_eq hun]; exact hl
  rw [lookup_eq h0 hd] at hcreated
  rw [lookup_eq h0' hd']
  generalize dosNameDefext name x = n at hl hd hne hcreated hun
  generalize dosNameDefext name' x = n' at hl' hd' hun
  obtain ⟨_, hcn, hfresh⟩ := created_fresh hl hd hcreated hnew
  obtain ⟨hnu, hnl⟩ := legal_norm_undot hl hd
  obtain ⟨hlu', _, hnn'⟩ := legal_undot hl' hd'
  obtain ⟨hlu, _, hnn⟩ := legal_undot hl hd
  -- the two spellings have the same normal form, which is c
  have hum : upper (undot n') = upper (undot n) := by rw [← undot_upper, ← undot_upper, hun]
  have hnorm' : normalise (undot n') = c := by rw [normalise_of_upper_eq hum, hcn]
  have hcl : isLegal c = true := by rw [hcn]; exact hnl
  have hcne : c ≠ [] := by
    rw [hcn, hnu]
    intro h
    have hu : undot n = [] := by simpa [upper] using h
    unfold undot at hu
    split at hu
    · rename_i hdt
      obtain ⟨t, ht, _⟩ := dottedB_iff.mp hdt
      subst ht; simp at hu; subst hu; simp [isDots] at hd
    · exact hne hu
  -- a host file of the old directory spelled like a capitalisation would have answered to the name
  have hold : ∀ u : Bytes, isLegal u = true → normalise u = c → u ≠ [] → u ∈ d → False := by
    intro u hul hun hune hud
    have := hfresh u hud
    simp only [scanMatch, legal_ascii hul, hul, hun, beq_self_eq_true, istype_of_legal_mem hul hune hud,
      Bool.and_self] at this
    exact Bool.noConfusion this
  have hres : ∀ u : Bytes, isLegal u = true → normalise u = c → u ≠ [] →
      istype (dirFS (d ++ [c])) root (toUni u) false = true → toUni u = c := by
    intro u hul hun hune hi
    rw [legal_toUni hul] at hi ⊢
    have hm := istype_mem hi
    rcases List.mem_append.mp hm with hm | hm
    · exact absurd hm (fun hm => hold u hul hun hune hm)
    · simpa using hm
  have hne' : n' ≠ [] := by
    intro h; rw [h] at hun
    have : upper n = [] := by rw [← hun]; rfl
    exact hne (by simpa [upper] using this)
  have hune' : undot n' ≠ [] := by
    intro h
    have : upper (undot n) = [] := by rw [← hum, h]; rfl
    rw [← hnu, ← hcn] at this; exact hcne this
  rw [tail_eq]
  cases ha : asIs (d ++ [c]) n' with
  | true =>
    simp only [↓reduceIte]
    split
    · rename_i h1
      simp only [Bool.and_eq_true] at h1
      rw [hres n' hl' (hnn' ▸ hnorm') hne' h1.2]
    · rename_i h1
      simp only [asIs, Bool.or_eq_true] at ha
      rcases ha with ha | ha
      · exact absurd ha h1
      · rw [hres (undot n') hlu' hnorm' hune' ha]
  | false =>
    simp only [Bool.false_eq_true, ↓reduceIte, hnorm', hcl, Bool.not_true]
    rw [dosToNative_dir, not_any_ge (legal_ascii hcl),
      istype_of_legal_mem hcl hcne (List.mem_append_right d (List.mem_singleton.mpr rfl))]
    simp only [Bool.false_eq_true, ↓reduceIte]
    cases c with
    | nil => exact absurd rfl hcne
    | cons a r => rfl


/-! ### KILL / FILES masks -/

/-- KILL and FILES treat every capitalisation of a mask alike: the same files are removed / the same entries listed -/
theorem kill_files_case_insensitive (d : Dir) (mask mask' : Bytes) (h : upper mask' = upper mask) :
    kill d mask' = kill d mask ∧ files d (some mask') = files d (some mask) := by
  have hs := maskStrip_upper h
  have he : mask'.isEmpty = mask.isEmpty := by
    have := congrArg List.length h
    simp only [upper_length] at this
    cases h1 : mask' <;> cases h2 : mask <;> simp_all
  constructor
  · unfold kill killSet
    rw [he, maskMatches_upper hs]
  · have hse : (maskStrip mask').isEmpty = (maskStrip mask).isEmpty := by
      have := congrArg List.length hs
      simp only [upper_length] at this
      cases h1 : maskStrip mask' <;> cases h2 : maskStrip mask <;> simp_all
    have hm : maskMatches (if (maskStrip mask').isEmpty = true then [42, 46, 42] else maskStrip mask') =
        maskMatches (if (maskStrip mask).isEmpty = true then [42, 46, 42] else maskStrip mask) := by
      rw [hse]; split
      · rfl
      · exact maskMatches_upper hs
    have hl : listdir d mask' = listdir d mask := by
      unfold listdir listdirOld filterNames
      simp only [isDots_of_upper_eq hs, hm]
    cases mask' with
    | nil => cases mask with
      | nil => rfl
      | cons a r => simp at he
    | cons a' r' => cases mask with
      | nil => simp at he
      | cons a r => simp only [files, filesWith, Option.getD_some, hl]

/-- the defect repaired by pending_fixes/C28-mask-trailing-blanks: a file created as "ab " (host file AB) is found by
    OPEN "ab " FOR INPUT, but the old KILL "AB " / FILES "AB " did not find it; the repaired ones do -/
theorem kill_trailing_blank_counterexample :
    lookup [] [97, 98, 32] [] true = .ok [65, 66] ∧ lookup [[65, 66]] [97, 98, 32] [] false = .ok [65, 66] ∧
    killOld [[65, 66]] [65, 66, 32] = .error E.file_not_found ∧
    filesOld [[65, 66]] (some [65, 66, 32]) = .error E.file_not_found ∧
    kill [[65, 66]] [65, 66, 32] = .ok [[65, 66]] ∧
    files [[65, 66]] (some [65, 66, 32]) = .ok ([], [([65, 66], [])]) := by
  decide +kernel

/-! ### FILES entries open -/

/-- Every host file whose native name is itself a legal DOS name is listed by FILES under a name (its display name)
    that resolves to a host file listed under that same entry — to that very file when no other file of the
    directory shares the entry.
    PARTIAL: (1) covers host files with a legal ASCII native name (all files created from BASIC are such); that an
    illegal native name never gets a legal display name is not proved (checked by correspondence);
    (2) the two side conditions "the display name has no leading / trailing blank" hold for every legal name but are
    taken as hypotheses here. -/
theorem files_lists_openable_partial (d : Dir) (f : HostName) (hf : f ∈ d) (hasc : f.all (· < 128) = true)
    (hl : isLegal f = true) (hd : isDots f = false) (hne : f ≠ [])
    (hb : displayName f = lstrip (displayName f)) (hr : rstrip (displayName f) = displayName f) :
    ∃ g, lookup d (displayName f) [] false = .ok g ∧ g ∈ d ∧ displayName g = displayName f ∧
      ((∀ g' ∈ d, displayName g' = displayName f → g' = f) → g = f) := by
  have hdisp := display_legal hasc hl
  have hcl : isLegal (normalise f) = true := legal_normalise hl
  have hcd : isDots (normalise f) = false := normalise_not_dots hd
  suffices hmain : ∃ g, lookup d (displayName f) [] false = .ok g ∧ g ∈ d ∧ displayName g = displayName f by
    obtain ⟨g, h1, h2, h3⟩ := hmain
    exact ⟨g, h1, h2, h3, fun hu => hu g h2 h3⟩
  have hn : dosNameDefext (displayName f) [] = displayName f := by simp [dosNameDefext, hr]
  rw [lookup_eq hb (by rw [hn, hdisp]; exact hcd), hn, hdisp, tail_eq]
  obtain ⟨hlu, _, hnn⟩ := legal_undot hcl hcd
  have hnorm : normalise (undot (normalise f)) = normalise f := by rw [hnn, normalise_idem]
  have hself : displayName (normalise f) = normalise f := by
    rw [display_legal (legal_ascii hcl) hcl, normalise_idem]
  cases ha : asIs d (normalise f) with
  | true =>
    simp only [↓reduceIte]
    have hm := asIs_mem ha
    split
    · rename_i h1; rw [if_pos h1] at hm
      refine ⟨_, rfl, hm, ?_⟩
      rw [legal_toUni hcl, hself]
    · rename_i h1; rw [if_neg h1] at hm
      refine ⟨_, rfl, hm, ?_⟩
      rw [legal_toUni hlu, display_legal (legal_ascii hlu) hlu, hnorm]
  | false =>
    simp only [Bool.false_eq_true, ↓reduceIte, hnorm, hcl, Bool.not_true]
    rw [dosToNative_dir, not_any_ge (legal_ascii hcl)]
    simp only [Bool.false_eq_true, ↓reduceIte]
    by_cases hi : istype (dirFS d) root (normalise f) false = true
    · rw [if_pos hi]
      have hm := istype_mem hi
      cases hc : normalise f with
      | nil => rw [hc, istype_dir] at hi; simp at hi
      | cons a r => exact ⟨_, rfl, hc ▸ hm, by rw [← hc, hself]⟩
    · rw [if_neg hi]
      cases hfind : (d.mergeSort lexLe).find? (scanMatch (dirFS d) root (normalise f) false) with
      | none =>
        exfalso
        have := List.find?_eq_none.mp hfind f (List.mem_mergeSort.mpr hf)
        simp [scanMatch, hasc, hl, istype_of_legal_mem hl hne hf] at this
      | some r =>
        have hrs := List.find?_some hfind
        have hrd : r ∈ d := List.mem_mergeSort.mp (List.mem_of_find?_eq_some hfind)
        simp only [scanMatch, Bool.and_eq_true, beq_iff_eq] at hrs
        cases r with
        | nil => have := hrs.2; rw [istype_dir] at this; simp at this
        | cons a r' => exact ⟨_, rfl, hrd, by rw [display_legal hrs.1.1.1 hrs.1.1.2, hrs.1.2]⟩

/-! ### non-vacuity: the hypotheses are satisfiable -/

-- legal_upper_created / case_insensitive_lookup: "abc.txt" in an empty directory and next to a long host name
example : [97, 98, 99, 46, 116, 120, 116] = lstrip [97, 98, 99, 46, 116, 120, 116] ∧
    isLegal (dosNameDefext [97, 98, 99, 46, 116, 120, 116] []) = true ∧
    isDots (dosNameDefext [97, 98, 99, 46, 116, 120, 116] []) = false ∧
    lookup [[76, 111, 110, 103, 70, 105, 108, 101, 78, 97, 109, 101]] [97, 98, 99, 46, 116, 120, 116] [] true
      = .ok [65, 66, 67, 46, 84, 88, 84] := by decide +kernel
-- program file: "prog" with default extension BAS is created as PROG.BAS, "prog." as PROG
example : lookup [] [112, 114, 111, 103] [66, 65, 83] true = .ok [80, 82, 79, 71, 46, 66, 65, 83] ∧
    lookup [] [112, 114, 111, 103, 46] [66, 65, 83] true = .ok [80, 82, 79, 71] := by decide +kernel
-- an existing lower-case host file answers to the upper-case name: nothing new is created
example : lookup [[97, 98, 99]] [65, 66, 67] [] true = .ok [97, 98, 99] := by decide +kernel
-- illegal names: "a+b", "a.b.c" raise Bad file name; "LongFileName.text" is cut, not refused
example : lookup [] [97, 43, 98] [] true = .error E.bad_file_name ∧ illegal [97, 43, 98] = true ∧
    lookup [] [97, 46, 98, 46, 99] [] true = .error E.bad_file_name ∧
    illegal [76, 111, 110, 103, 70, 105, 108, 101, 78, 97, 109, 101, 46, 116, 101, 120, 116] = false := by
  decide +kernel
-- files_lists_openable_partial: the host file "abc.txt" is listed as ABC.TXT, which opens it
example : displayName [97, 98, 99, 46, 116, 120, 116] = [65, 66, 67, 46, 84, 88, 84] ∧
    lookup [[97, 98, 99, 46, 116, 120, 116]] [65, 66, 67, 46, 84, 88, 84] [] false = .ok [97, 98, 99, 46, 116, 120, 116] ∧
    rstrip [65, 66, 67, 46, 84, 88, 84] = [65, 66, 67, 46, 84, 88, 84] := by decide +kernel
-- wildcards: "A?*" matches "abc", "AB?" does not match "ab" (no padding)
example : nameMatches [97, 98, 99] [65, 63, 42] = true ∧ nameMatches [97, 98] [65, 66, 63] = false := by decide +kernel

end PcbV.C28
