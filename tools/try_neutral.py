#!/usr/bin/env python3
"""Run checks against /repo HEAD + a behaviour-preserving patch (scratch worktree): every check must exit 0.
usage: try_neutral.py <patch.diff> PID [PID…]   -> prints one JSON line per property; nonzero exits are false alarms
(exit 1) or checks that depend on internals the refactoring touched (exit 2)."""
import json, os, subprocess, sys, tempfile
ROOT = os.path.dirname(os.path.dirname(os.path.abspath(__file__)))
patch = os.path.abspath(sys.argv[1])
pids = sys.argv[2:]
def sh(cmd):
    p = subprocess.run(cmd, shell=True, stdout=subprocess.PIPE, stderr=subprocess.STDOUT, text=True)
    return p.returncode, p.stdout
wt = tempfile.mkdtemp(prefix='neutralrepo_')
os.rmdir(wt)
sh('git -C /repo worktree add --detach %s HEAD' % wt)
results = []
try:
    rc, out = sh('git -C %s apply %s' % (wt, patch))
    if rc != 0:
        print(json.dumps({'patch': patch, 'error': 'does not apply: ' + out[-300:]}))
        sys.exit(3)
    for pid in pids:
        ev = ROOT + '/evidence/%s.json' % pid
        saved = open(ev).read() if os.path.exists(ev) else None
        rc, out = sh('cd %s && PCBV_REPO=%s nice ./check %s --tier quick' % (ROOT, wt, pid))
        if saved is not None:
            open(ev, 'w').write(saved)
        r = {'patch': os.path.basename(os.path.dirname(patch)) + '/' + os.path.basename(patch), 'property': pid, 'exit': rc,
             'lines': [l[:300] for l in out.splitlines() if l.startswith(('VIOLATION', 'BROKEN', 'broken'))][:4],
             'tail': out.strip().splitlines()[-1][:200] if out.strip() else ''}
        results.append(r)
        print(json.dumps(r), flush=True)
finally:
    sh('git -C /repo worktree remove --force %s' % wt)
    sh('cd %s && PYTHONPATH=/repo:%s /venv/bin/python gen/gen_tables.py' % (ROOT, ROOT))
sys.exit(1 if any(r['exit'] != 0 for r in results) else 0)
