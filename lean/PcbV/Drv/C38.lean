import PcbV.Model.Events
namespace PcbV.Drv.C38
open PcbV PcbV.Events

/-- digits of a word as trap indices ("-" = none) -/
def digits (s : String) : Option (List Nat) :=
  if s == "-" then some [] else
  s.toList.mapM (fun c => if '0' ≤ c ∧ c ≤ '9' then some (c.toNat - 48) else none)

def parseStmt (w : String) : Option Stmt :=
  match w.toList with
  | 'm' :: rest => some (.mark (String.ofList rest))
  | ['n', c] => (digits (String.singleton c)).bind (fun l => l.head?.map Stmt.on)
  | ['f', c] => (digits (String.singleton c)).bind (fun l => l.head?.map Stmt.off)
  | ['s', c] => (digits (String.singleton c)).bind (fun l => l.head?.map Stmt.stop)
  | ['h', c] => (digits (String.singleton c)).bind (fun l => l.head?.map (Stmt.seth · true))
  | ['z', c] => (digits (String.singleton c)).bind (fun l => l.head?.map (Stmt.seth · false))
  | ['e', '1'] => some (.onerr true)
  | ['e', '0'] => some (.onerr false)
  | ['x'] => some .err
  | ['g'] => some .gosub
  | ['r'] => some .ret
  | ['u'] => some .resumeNext
  | ['d'] => some .end_
  | ['c'] => some .clear
  | ['t'] => some .cont
  | 'j' :: rest => (String.ofList rest).toNat?.map Stmt.goto
  | 'q' :: rest => (String.ofList rest).toNat?.map Stmt.retTo
  | _ => none

/-- `T<deliver>/<order>` or `D<deliver>/<order>/<stmt>` -/
def parseItem (w : String) : Option Item :=
  match w.toList with
  | 'T' :: rest =>
    match (String.ofList rest).splitOn "/" with
    | [a, b] => do
      let x ← digits a
      let y ← digits b
      pure (.line x y)
    | _ => none
  | 'D' :: rest =>
    match (String.ofList rest).splitOn "/" with
    | [a, b, c] => do
      let x ← digits a
      let y ← digits b
      let st ← parseStmt c
      pure (.direct x y st)
    | _ => none
  | _ => none

def parseNats (w : String) : Option (List Nat) :=
  if w == "-" then some [] else (w.splitOn ",").mapM String.toNat?

def parseEv (w : String) : Option Ev :=
  match w.toList with
  | ['o', c] => (digits (String.singleton c)).bind (fun l => l.head?.map Ev.occur)
  | ['n', c] => (digits (String.singleton c)).bind (fun l => l.head?.map Ev.on)
  | ['f', c] => (digits (String.singleton c)).bind (fun l => l.head?.map Ev.off)
  | ['s', c] => (digits (String.singleton c)).bind (fun l => l.head?.map Ev.stop)
  | ['h', c] => (digits (String.singleton c)).bind (fun l => l.head?.map (Ev.setHandler · true))
  | ['z', c] => (digits (String.singleton c)).bind (fun l => l.head?.map (Ev.setHandler · false))
  | 'D' :: rest => (digits (if rest.isEmpty then "-" else String.ofList rest)).map Ev.dispatch
  | ['g'] => some .gosub
  | ['r'] => some .ret
  | ['x'] => some .errTrap
  | ['u'] => some .resume
  | ['d'] => some .endProg
  | ['t'] => some .cont
  | ['R'] => some .runCmd
  | ['c'] => some .clear
  | _ => none

def showFires (l : List Nat) : String := if l.isEmpty then "-" else String.join (l.map toString)

/-- run an event list through the code machine and the specification machine side by side -/
def evRun : St → SSt → List Ev → List String → String
  | _, _, [], acc => joinWith "," acc.reverse
  | c, s, e :: es, acc =>
    let rc := step c e
    let rs := sstep s e
    evRun rc.1 rs.1 es ((showFires rc.2 ++ "|" ++ showFires rs.2) :: acc)

def handle : List String → String
  | ["vm", code, handlers, errStart, subStart, sched] =>
    match (code.splitOn ";").mapM parseStmt, parseNats handlers, errStart.toNat?, subStart.toNat?,
          (sched.splitOn ";").mapM parseItem with
    | some code, some handlers, some e, some g, some sched =>
      let p : Prog := { code := code, handler := handlers, errStart := e, subStart := g }
      let v := runVm p sched Vm.init
      "ok " ++ (if v.out.isEmpty then "-" else joinWith "," v.out.reverse) ++ " " ++
        showNats v.lines.reverse ++ " " ++ showBool v.halted
    | _, _, _, _, _ => "bad-op"
  | ["ev", evs] =>
    match (evs.splitOn ";").mapM parseEv with
    | some evs => "ok " ++ evRun St.init SSt.init evs []
    | none => "bad-op"
  | _ => "bad-op"

end PcbV.Drv.C38
