"""Entry point: ./check Cxx [--tier quick|thorough] [--replay FILE]"""
import argparse
import importlib
import json
import os
import signal
import sys
import time
import traceback

from . import core


def main():
    ap = argparse.ArgumentParser()
    ap.add_argument('prop')
    ap.add_argument('--tier', default=os.environ.get('VERIF_TIER') or 'quick', choices=['quick', 'thorough'])
    ap.add_argument('--replay')
    ap.add_argument('--no-proof', action='store_true', help='skip the Lean build (development only)')
    args = ap.parse_args()
    prop = args.prop.upper()
    try:
        seed = int(os.environ.get('VERIF_SEED', '0') or 0)
    except ValueError:
        seed = 0
    limit = int(os.environ.get('VERIF_TIMEOUT', '1500' if args.tier == 'quick' else '14000'))

    def on_alarm(signum, frame):
        sys.stderr.write('[%s] time limit of %d s reached: infrastructure timeout, exit 2\n' % (prop, limit))
        os._exit(2)
    signal.signal(signal.SIGALRM, on_alarm)
    signal.alarm(limit)

    ctx = core.Ctx(prop, args.tier, seed)
    try:
        mod = importlib.import_module('props.' + prop.lower())
    except ImportError:
        traceback.print_exc()
        sys.stderr.write('no check module for %s\n' % prop)
        sys.exit(2)

    if args.replay:
        payload = json.load(open(args.replay))
        ctx.replay_mode = True
        pr = core.prove(prop, ctx.log)
        ctx.model_ok = pr['driver_ok']
        still = mod.replay(ctx, payload)
        if still:
            print('replay: property %s still fails on this input: %s' % (prop, still))
            print('VIOLATION property=%s replay=%s' % (prop, args.replay))
            sys.exit(1)
        print('replay: property %s holds on this input' % prop)
        sys.exit(0)

    # 1. proof obligations
    if args.no_proof:
        pr = dict(ok=True, broken=[], theorems=[], discharged=[], axioms={}, cmd='(skipped)',
                  driver_ok=os.path.exists(core.DRIVER), translator='skipped')
    else:
        ctx.log('building Lean model and theorems')
        pr = core.prove(prop, ctx.log, args.tier)
    ctx.model_ok = pr['driver_ok']
    ctx.log('proof: %d/%d theorems discharged, broken=%d' % (len(pr['discharged']), len(pr['theorems']),
                                                              len(pr['broken'])))
    # 2. correspondence + oracle
    infra_error = None
    try:
        mod.run(ctx)
    except Exception:
        infra_error = traceback.format_exc()
        sys.stderr.write(infra_error)

    # 3. triage
    known = core.load_known_findings()
    findings = known.get('findings', [])
    violations = []
    known_hits = {}
    for f in ctx.failures:
        hit = core.match_finding(findings, prop, f['key'])
        if hit:
            known_hits.setdefault(hit['id'], (hit, f))
        else:
            violations.append(f)
    exit_code = 0
    out_lines = []
    for fid, (hit, f) in sorted(known_hits.items()):
        out_lines.append('KNOWN-FINDING: property=%s %s: %s' % (prop, fid, hit.get('what_fails', '')))
    if violations:
        # group by key prefix to avoid a flood; one replay per distinct key (max 5)
        seen = set()
        for f in violations:
            k = f['key']
            if k in seen or len(seen) >= 5:
                continue
            seen.add(k)
            payload = {'property': prop, 'kind': 'failing-input', 'key': k, 'case': f['case'], 'what': f['what'],
                       'seed': seed, 'tier': args.tier}
            rp = core.replay_path(prop, payload)
            core.write_json(os.path.join(core.VERIF, rp), payload)
            out_lines.append('VIOLATION property=%s replay=%s' % (prop, rp))
        exit_code = 1
    elif pr['broken'] or ctx.disagreements:
        # proof or correspondence broken and the search found no failing input
        payload = {'property': prop, 'kind': 'no-failing-input-found', 'seed': seed, 'tier': args.tier,
                   'broken_obligations': pr['broken'],
                   'correspondence_disagreements': ctx.disagreements[:10],
                   'searched': dict(ctx.stats), 'evaluations': ctx.evaluations}
        rp = core.replay_path(prop, payload)
        core.write_json(os.path.join(core.VERIF, rp), payload)
        out_lines.append('VIOLATION property=%s replay=%s no-failing-input-found' % (prop, rp))
        exit_code = 1

    # 4. evidence
    wall = time.time() - ctx.t0
    level = getattr(mod, 'LEVEL', 'proof')
    coverage = {
        'obligations': max(len(pr['theorems']), 1) if not args.no_proof else 1,
        'discharged': len(pr['discharged']),
        'obligation_names': pr['theorems'],
        'axioms': pr['axioms'],
        'checker_cmd': pr['cmd'],
        'trusted_base': getattr(mod, 'TRUSTED_BASE', []) + [
            'Lean 4.33.0 kernel/elaborator; axioms allowed: propext, Classical.choice, Quot.sound (audited)',
            'translator gen/gen_tables.py (status: %s)' % pr.get('translator'),
            'correspondence harness props/%s.py + vlib/ (agreement on generated cases only)' % prop.lower(),
        ],
        'evaluations': ctx.evaluations,
        'distinct_nontrivial': len(ctx.distinct),
        'rule': getattr(mod, 'RULE', ''),
        'samples': ctx.samples or ['(no cases run)'],
        'stats': dict(ctx.stats),
        'disagreements_checked': len(ctx.disagreements),
        'oracle_failures': len(ctx.failures),
        'known_findings_hit': sorted(known_hits),
        'failure_keys': sorted(set(f['key'] for f in ctx.failures))[:100],
        'exhaustive': bool(ctx.exhaustive),
        'explanation': getattr(mod, 'EXPLANATION', ''),
        'broken_obligations': pr['broken'],
        'model_driver_available': bool(ctx.model_ok),
        'leanchecker': pr.get('leanchecker', 'not run (thorough tier only)'),
    }
    coverage.update(ctx.notes)
    ev = {
        'property_id': prop, 'tier': args.tier, 'seed': seed, 'level': level,
        'coverage': coverage,
        'assumptions': getattr(mod, 'ASSUMPTIONS', []) + ctx.assumptions,
        'wall_s': round(wall, 2),
        'violations': len(violations) if violations else (1 if exit_code else 0),
    }
    os.makedirs(os.path.join(core.VERIF, 'evidence'), exist_ok=True)
    core.write_json(os.path.join(core.VERIF, 'evidence', prop + '.json'), ev)

    for l in out_lines:
        print(l)
    if infra_error and exit_code == 0:
        sys.stderr.write('[%s] harness error (infrastructure), exit 2\n' % prop)
        sys.exit(2)
    ctx.log('done: %d evaluations, %d distinct, %d disagreements, %d oracle failures, exit %d'
            % (ctx.evaluations, len(ctx.distinct), len(ctx.disagreements), len(ctx.failures), exit_code))
    sys.exit(exit_code)


if __name__ == '__main__':
    main()
