"""Generate lean/PcbV/Gen/MbfConsts.lean: the class attributes of numbers.Single / numbers.Double."""
from gen_tables import generator, HEADER, lean_bytes


@generator('MbfConsts')
def gen_mbf():
    from pcbasic.basic.values import numbers
    out = [HEADER, 'namespace PcbV.Gen.MbfConsts\n',
           'structure Consts where',
           '  size : Nat', '  bias : Nat', '  shift : Nat', '  denMask : Nat', '  denUpper : Nat', '  carryMask : Nat',
           '  signMask : Nat', '  mask : Nat', '  posMask : Nat', '  digits : Nat',
           '  one : List Nat', '  ten : List Nat', '  limTop : List Nat', '  limBot : List Nat',
           '  posMax : List Nat', '  negMax : List Nat', '']
    for name, cls in (('single', numbers.Single), ('double', numbers.Double)):
        out.append('def %s : Consts :=' % name)
        out.append('  { size := %d, bias := %d, shift := %d, denMask := %d, denUpper := %d, carryMask := %d,'
                   % (cls.size, cls._bias, cls._shift, cls._den_mask, cls._den_upper, cls._carrymask))
        out.append('    signMask := %d, mask := %d, posMask := %d, digits := %d,'
                   % (cls._signmask, cls._mask, cls._posmask, cls.digits))
        out.append('    one := %s, ten := %s, limTop := %s, limBot := %s,'
                   % tuple(lean_bytes(getattr(cls, a)) for a in ('_one', '_ten', '_lim_top', '_lim_bot')))
        out.append('    posMax := %s, negMax := %s }\n' % (lean_bytes(cls.pos_max), lean_bytes(cls.neg_max)))
    out.append('end PcbV.Gen.MbfConsts\n')
    return '\n'.join(out)
