import PcbV.Model.Arrays
import Mathlib.Tactic.Linarith
import Mathlib.Tactic.Ring
/-
  Lemmas for C12 about PcbV.Model.Arrays: the flat index in Horner form, association-list
  facts for find/update/remove, the well-formedness invariant.
-/
namespace PcbV.Arrays

/-- same rank, and `b ≤ i ≤ d` in every position -/
inductive InBounds (b : Int) : List Int → List Int → Prop
  | nil : InBounds b [] []
  | cons {i d : Int} {is ds : List Int} :
      b ≤ i → i ≤ d → InBounds b is ds → InBounds b (i :: is) (d :: ds)

/-- the flat index written as a mixed-radix number (first subscript = least significant digit) -/
def horner (b : Int) : List Int → List Int → Int
  | i :: is, d :: ds => (i - b) + (d + 1 - b) * horner b is ds
  | _, _ => 0

/-- number of elements: product of the extents `d + 1 - b` -/
def size (b : Int) : List Int → Int
  | [] => 1
  | d :: ds => (d + 1 - b) * size b ds

theorem indexLoop_eq (b : Int) (idx : List Int) : ∀ (area big : Int) (dims : List Int),
    indexLoop b area big idx dims = big + area * horner b idx dims := by
  induction idx with
  | nil => intro area big dims; simp [indexLoop, horner]
  | cons i is ih =>
    intro area big dims
    cases dims with
    | nil => simp [indexLoop, horner]
    | cons d ds => simp only [indexLoop, horner]; rw [ih]; ring

theorem index_eq_horner (b : Int) (idx dims : List Int) : index b idx dims = horner b idx dims := by
  unfold index; rw [indexLoop_eq]; ring

theorem horner_self (b : Int) (dims : List Int) : horner b dims dims + 1 = size b dims := by
  induction dims with
  | nil => simp [horner, size]
  | cons d ds ih => simp only [horner, size]; rw [← ih]; ring

theorem InBounds.length_eq {b : Int} {idx dims : List Int} (h : InBounds b idx dims) :
    idx.length = dims.length := by
  induction h with
  | nil => rfl
  | cons _ _ _ ih => simp [ih]

theorem size_pos {b : Int} {dims : List Int} (h : ∀ d ∈ dims, b ≤ d) : 0 < size b dims := by
  induction dims with
  | nil => simp [size]
  | cons d ds ih =>
    simp only [size]
    have h1 : b ≤ d := h d (by simp)
    have h2 := ih (fun x hx => h x (by simp [hx]))
    have : 0 < d + 1 - b := by omega
    positivity

theorem horner_bounds {b : Int} {idx dims : List Int} (h : InBounds b idx dims) :
    0 ≤ horner b idx dims ∧ horner b idx dims < size b dims := by
  induction h with
  | nil => simp [horner, size]
  | @cons i d is ds h1 h2 _ ih =>
    simp only [horner, size]
    obtain ⟨ih1, ih2⟩ := ih
    have hn : 0 < d + 1 - b := by omega
    constructor
    · have : 0 ≤ (d + 1 - b) * horner b is ds := Int.mul_nonneg (by omega) ih1
      omega
    · have : (d + 1 - b) * (horner b is ds + 1) ≤ (d + 1 - b) * size b ds :=
        Int.mul_le_mul_of_nonneg_left (by omega) (by omega)
      have e : (d + 1 - b) * (horner b is ds + 1) = (d + 1 - b) * horner b is ds + (d + 1 - b) := by ring
      omega

theorem horner_injective {b : Int} {i1 dims : List Int} (h1 : InBounds b i1 dims) :
    ∀ {i2 : List Int}, InBounds b i2 dims → horner b i1 dims = horner b i2 dims → i1 = i2 := by
  induction h1 with
  | nil => intro i2 h2 _; cases h2; rfl
  | @cons i d is ds hl hu _ ih =>
    intro i2 h2 he
    cases h2 with
    | @cons j _ js _ hl2 hu2 hr2 =>
      simp only [horner] at he
      have hn : 0 < d + 1 - b := by omega
      have hxy : horner b is ds = horner b js ds := by
        by_contra hne
        rcases Int.lt_or_gt_of_ne hne with hlt | hgt
        · have : (d + 1 - b) * (horner b is ds + 1) ≤ (d + 1 - b) * horner b js ds :=
            Int.mul_le_mul_of_nonneg_left (by omega) (by omega)
          have e : (d + 1 - b) * (horner b is ds + 1) = (d + 1 - b) * horner b is ds + (d + 1 - b) := by ring
          omega
        · have : (d + 1 - b) * (horner b js ds + 1) ≤ (d + 1 - b) * horner b is ds :=
            Int.mul_le_mul_of_nonneg_left (by omega) (by omega)
          have e : (d + 1 - b) * (horner b js ds + 1) = (d + 1 - b) * horner b js ds + (d + 1 - b) := by ring
          omega
      have := ih hr2 hxy
      subst this
      rw [hxy] at he
      have : i = j := by omega
      subst this; rfl


/-! ### association list -/

theorem find_update_same {n : Nat} {a a' : Arr} {l : List (Nat × Arr)} (h : find n l = some a) :
    find n (update n a' l) = some a' := by
  induction l with
  | nil => simp [find] at h
  | cons x xs ih =>
    obtain ⟨m, y⟩ := x
    by_cases hm : m = n
    · simp [update, find, hm]
    · simp only [find, hm, if_false] at h
      simp [update, find, hm, ih h]

theorem find_update_other {m n : Nat} (a' : Arr) (l : List (Nat × Arr)) (h : m ≠ n) :
    find m (update n a' l) = find m l := by
  induction l with
  | nil => simp [update]
  | cons x xs ih =>
    obtain ⟨k, y⟩ := x
    by_cases hk : k = n
    · subst hk
      have : ¬ k = m := fun e => h e.symm
      simp [update, find, this]
    · by_cases hkm : k = m
      · subst hkm; simp [update, find, hk]
      · simp [update, find, hk, hkm, ih]

theorem find_remove_same (n : Nat) (l : List (Nat × Arr)) : find n (remove n l) = none := by
  induction l with
  | nil => simp [remove, find]
  | cons x xs ih =>
    obtain ⟨k, y⟩ := x
    by_cases hk : k = n <;> simp [remove, find, hk, ih]

theorem find_remove_other {m n : Nat} (l : List (Nat × Arr)) (h : m ≠ n) :
    find m (remove n l) = find m l := by
  induction l with
  | nil => simp [remove]
  | cons x xs ih =>
    obtain ⟨k, y⟩ := x
    by_cases hk : k = n
    · subst hk
      have : ¬ k = m := fun e => h e.symm
      simp [remove, find, this, ih]
    · by_cases hkm : k = m
      · subst hkm; simp [remove, find, hk]
      · simp [remove, find, hk, hkm, ih]

theorem find_append_new {n : Nat} (a : Arr) {l : List (Nat × Arr)} (h : find n l = none) :
    find n (l ++ [(n, a)]) = some a := by
  induction l with
  | nil => simp [find]
  | cons x xs ih =>
    obtain ⟨k, y⟩ := x
    by_cases hk : k = n
    · simp [find, hk] at h
    · simp only [find, hk, if_false] at h
      simp [find, hk, ih h]

theorem find_append_other {m n : Nat} (a : Arr) (l : List (Nat × Arr)) (h : m ≠ n) :
    find m (l ++ [(n, a)]) = find m l := by
  induction l with
  | nil =>
    have : ¬ n = m := fun e => h e.symm
    simp [find, this]
  | cons x xs ih =>
    obtain ⟨k, y⟩ := x
    by_cases hk : k = m <;> simp [find, hk, ih]

theorem find_append_old {m n : Nat} (a : Arr) {l : List (Nat × Arr)} {x : Arr} (h : find m l = some x) :
    find m (l ++ [(n, a)]) = some x := by
  induction l with
  | nil => simp [find] at h
  | cons y ys ih =>
    obtain ⟨k, y⟩ := y
    by_cases hk : k = m
    · simp only [find, hk, if_true] at h
      simp [find, hk, h]
    · simp only [find, hk, if_false] at h
      simp [find, hk, ih h]

theorem find_none_of_nil {n : Nat} {l : List (Nat × Arr)} (h : l = []) : find n l = none := by
  subst h; rfl

theorem ne_nil_of_find {n : Nat} {a : Arr} {l : List (Nat × Arr)} (h : find n l = some a) : l ≠ [] := by
  intro e; subst e; simp [find] at h

theorem anyLt_false_iff (k : Int) (l : List Int) : anyLt k l = false ↔ ∀ d ∈ l, k ≤ d := by
  induction l with
  | nil => simp [anyLt]
  | cons d ds ih =>
    simp only [anyLt, Bool.or_eq_false_iff, decide_eq_false_iff_not, ih, List.mem_cons, forall_eq_or_imp]
    constructor
    · rintro ⟨h1, h2⟩; exact ⟨by omega, h2⟩
    · rintro ⟨h1, h2⟩; exact ⟨by omega, h2⟩


/-! ### the invariant -/

structure ArrOK (b : Int) (a : Arr) : Prop where
  dims_ne : a.dims ≠ []
  dims_ge : ∀ d ∈ a.dims, b ≤ d
  len : a.cells.length = (size b a.dims).toNat

/-- what every reachable state satisfies: the base is unset, 0 or 1; arrays exist only while a
    base is set; a base marked "set by DIM" is 0; every array has rank ≥ 1, upper bounds ≥ base
    and a buffer of exactly `∏ (d+1-base)` cells. -/
structure WF (st : State) : Prop where
  base01 : st.base = none ∨ st.base = some 0 ∨ st.base = some 1
  baseSome : st.arrs ≠ [] → st.base ≠ none
  byDim0 : st.byDim = true → st.base = some 0
  arrOK : ∀ n a, find n st.arrs = some a → ArrOK st.b a

theorem flatLength_eq_size (b : Int) (dims : List Int) : flatLength b dims = size b dims := by
  unfold flatLength; rw [index_eq_horner, horner_self]

theorem WF.b01 {st : State} (h : WF st) : st.b = 0 ∨ st.b = 1 := by
  rcases h.base01 with e | e | e <;> simp [State.b, e]

theorem WF.arrs_nil {st : State} (h : WF st) (hb : st.base = none) : st.arrs = [] := by
  by_contra hne; exact h.baseSome hne hb

theorem wf_init : WF State.init :=
  ⟨Or.inl rfl, fun h => absurd rfl h, fun h => by simp [State.init] at h,
   fun n a h => by simp [State.init, find] at h⟩

theorem wf_of_arrs_nil {st : State} (h0 : st.arrs = [])
    (h1 : st.base = none ∨ st.base = some 0 ∨ st.base = some 1)
    (h2 : st.byDim = true → st.base = some 0) : WF st :=
  ⟨h1, fun h => absurd h0 h, h2, fun n a h => by rw [h0] at h; simp [find] at h⟩

theorem wf_optionBase {st : State} (h : WF st) (b : Int) (hb : b = 0 ∨ b = 1) :
    WF (optionBase st b).1 := by
  unfold optionBase
  split
  · next cur hc =>
    split
    · exact h
    · next hne =>
      have e : b = cur := by simpa using hne
      subst e
      have : ({ st with base := some b } : State) = st := by cases st; simp_all
      rw [this]; exact h
  · next hc =>
    have h0 := h.arrs_nil hc
    apply wf_of_arrs_nil
    · exact h0
    · rcases hb with e | e <;> simp [e]
    · intro hd; have := h.byDim0 hd; rw [hc] at this; cases this

theorem wf_addArray {st : State} (h : WF st) (b : Int) (hb : st.b = b) (hbs : st.base ≠ none)
    {name : Nat} {dims : List Int} (hne : dims ≠ []) (hge : ∀ d ∈ dims, b ≤ d) :
    WF (addArray st b name dims) := by
  refine ⟨h.base01, fun _ => hbs, h.byDim0, ?_⟩
  intro n a hf
  show ArrOK st.b a
  simp only [addArray] at hf
  by_cases hn : n = name
  · subst hn
    cases hfo : find n st.arrs with
    | some x =>
      rw [find_append_old _ hfo] at hf
      have e : x = a := by simpa using hf
      subst e; exact h.arrOK n x hfo
    | none =>
      rw [find_append_new _ hfo] at hf; cases hf
      exact ⟨hne, by rw [hb]; exact hge, by simp [flatLength_eq_size, hb]⟩
  · rw [find_append_other _ _ hn] at hf; exact h.arrOK n a hf

theorem wf_allocate {st : State} (h : WF st) (name : Nat) (dims : List Int) :
    WF (allocate st name dims).1 := by
  unfold allocate
  split
  · exact h
  · next hne =>
    split
    · exact h
    · split
      · exact h
      · next hneg =>
        have hneg' : anyLt 0 dims = false := by simpa using hneg
        split
        · next hb =>
          have h0 := h.arrs_nil hb
          have hw : WF { st with base := some 0, byDim := true } :=
            wf_of_arrs_nil h0 (by simp) (by simp)
          exact wf_addArray hw 0 rfl (by simp) hne ((anyLt_false_iff 0 dims).1 hneg')
        · next b hb =>
          split
          · exact h
          · next hlt =>
            have hlt' : anyLt b dims = false := by simpa using hlt
            exact wf_addArray h b (by simp [State.b, hb]) (by simp [hb]) hne
              ((anyLt_false_iff b dims).1 hlt')

theorem wf_dim {st : State} (h : WF st) (l : List (Nat × List Int)) : WF (dim st l).1 := by
  induction l generalizing st with
  | nil => exact h
  | cons x xs ih =>
    obtain ⟨n, d⟩ := x
    unfold dim
    have hw := wf_allocate h n d
    split
    · next st' e he => rw [he] at hw; exact hw
    · next st' he => rw [he] at hw; exact ih hw

theorem wf_checkDim {st : State} (h : WF st) (name : Nat) (idx : List Int) :
    WF (checkDim st name idx).1 := by
  unfold checkDim
  split
  · split <;> exact h
  · have hw := wf_allocate h name (idx.map fun _ => (10:Int))
    simp only
    split
    · next st' e he => rw [he] at hw; exact hw
    · next st' he =>
      rw [he] at hw
      split
      · exact hw
      · split <;> exact hw

theorem checkDim_ok_find {st st' : State} {name : Nat} {idx : List Int} {a : Arr}
    (h : checkDim st name idx = (st', .ok a)) : find name st'.arrs = some a := by
  unfold checkDim at h
  split at h
  · next a0 hf =>
    split at h
    · cases h
    · cases h; exact hf
  · simp only at h
    split at h
    · cases h
    · split at h
      · cases h
      · next a1 hf1 =>
        split at h
        · cases h
        · cases h; exact hf1

theorem wf_get {st : State} (h : WF st) (name : Nat) (idx : List Int) : WF (get st name idx).1 := by
  have hw := wf_checkDim h name idx
  unfold get
  split
  · next st' e he => rw [he] at hw; exact hw
  · next st' a he => rw [he] at hw; exact hw

theorem wf_set {st : State} (h : WF st) (name : Nat) (idx : List Int) (v : Int) :
    WF (set st name idx v).1 := by
  have hw := wf_checkDim h name idx
  unfold set
  split
  · next st' e he => rw [he] at hw; exact hw
  · next st' a he =>
    rw [he] at hw
    have hf := checkDim_ok_find he
    refine ⟨hw.base01, fun _ => hw.baseSome (ne_nil_of_find hf), hw.byDim0, ?_⟩
    intro n x hx
    show ArrOK st'.b x
    simp only at hx
    by_cases hn : n = name
    · subst hn
      rw [find_update_same hf] at hx; cases hx
      have ok := hw.arrOK n a hf
      exact ⟨ok.dims_ne, ok.dims_ge, by simp [ok.len]⟩
    · rw [find_update_other _ _ hn] at hx; exact hw.arrOK n x hx

theorem wf_remove {st : State} (h : WF st) (n : Nat) : WF { st with arrs := remove n st.arrs } := by
  refine ⟨h.base01, ?_, h.byDim0, ?_⟩
  · intro hne hb
    have := h.arrs_nil hb
    simp [this, remove] at hne
  · intro m a hf
    show ArrOK st.b a
    simp only at hf
    by_cases hm : m = n
    · subst hm; rw [find_remove_same] at hf; cases hf
    · rw [find_remove_other _ hm] at hf; exact h.arrOK m a hf

theorem wf_eraseLoop {st : State} (h : WF st) (l : List Nat) : WF (eraseLoop st l).1 := by
  induction l generalizing st with
  | nil => exact h
  | cons n ns ih =>
    unfold eraseLoop
    split
    · exact h
    · exact ih (wf_remove h n)

theorem wf_erase {st : State} (h : WF st) (l : List Nat) : WF (erase st l).1 := by
  have hw := wf_eraseLoop h l
  unfold erase
  split
  · next st' e he => rw [he] at hw; exact hw
  · next st' he =>
    rw [he] at hw
    split
    · next hc =>
      simp only [Bool.and_eq_true, List.isEmpty_iff] at hc
      exact wf_of_arrs_nil (by simpa [clearBase] using hc.1) (by simp [clearBase]) (by simp [clearBase])
    · exact hw


/-! ### unfolding lemmas for accesses -/

theorem checkDim_existing {st : State} {name : Nat} {a : Arr} (hf : find name st.arrs = some a)
    (idx : List Int) :
    checkDim st name idx =
      (st, match checkBounds st.b idx a.dims with | some e => .error e | none => .ok a) := by
  unfold checkDim
  rw [hf]
  simp only
  cases checkBounds st.b idx a.dims <;> rfl

theorem get_existing {st : State} {name : Nat} {a : Arr} (hf : find name st.arrs = some a)
    (idx : List Int) :
    get st name idx =
      (st, match checkBounds st.b idx a.dims with
           | some e => .error e
           | none => .ok (a.cells.getD (index st.b idx a.dims).toNat 0)) := by
  unfold get
  rw [checkDim_existing hf]
  cases checkBounds st.b idx a.dims <;> rfl

theorem set_existing {st : State} {name : Nat} {a : Arr} (hf : find name st.arrs = some a)
    (idx : List Int) (v : Int) :
    set st name idx v =
      match checkBounds st.b idx a.dims with
      | some e => (st, some e)
      | none => ({ st with arrs := update name ⟨a.dims, a.cells.set (index st.b idx a.dims).toNat v⟩ st.arrs },
                 none) := by
  unfold set
  rw [checkDim_existing hf]
  cases checkBounds st.b idx a.dims <;> rfl

theorem checkLoop_none_of_inBounds {b : Int} (hb : 0 ≤ b) {idx dims : List Int}
    (h : InBounds b idx dims) : checkLoop b idx dims = none := by
  induction h with
  | nil => rfl
  | @cons i d is ds h1 h2 _ ih =>
    have c1 : ¬ i < 0 := by omega
    have c2 : ¬ (i < b ∨ i > d) := by omega
    simp [checkLoop, c1, c2, ih]

theorem inBounds_of_checkLoop_none {b : Int} {idx : List Int} : ∀ {dims : List Int},
    idx.length = dims.length → checkLoop b idx dims = none → InBounds b idx dims := by
  induction idx with
  | nil => intro dims hl _; cases dims with
    | nil => exact .nil
    | cons d ds => simp at hl
  | cons i is ih =>
    intro dims hl hc
    cases dims with
    | nil => simp at hl
    | cons d ds =>
      simp only [checkLoop] at hc
      split at hc
      · cases hc
      · split at hc
        · cases hc
        · next c1 c2 =>
          exact .cons (by omega) (by omega) (ih (by simpa using hl) hc)

theorem checkBounds_none_iff {b : Int} (hb : 0 ≤ b) (idx dims : List Int) :
    checkBounds b idx dims = none ↔ InBounds b idx dims := by
  unfold checkBounds
  constructor
  · intro h
    split at h
    · cases h
    · next hl => exact inBounds_of_checkLoop_none (by simpa using hl) h
  · intro h
    have hl := h.length_eq
    simp [hl, checkLoop_none_of_inBounds hb h]

/-! ### frame and base-preservation helpers -/

def isClear : Op → Bool
  | .clear => true
  | _ => false

theorem eraseLoop_base (st : State) (l : List Nat) :
    (eraseLoop st l).1.base = st.base ∧ (eraseLoop st l).1.byDim = st.byDim := by
  induction l generalizing st with
  | nil => exact ⟨rfl, rfl⟩
  | cons n ns ih =>
    unfold eraseLoop
    split
    · exact ⟨rfl, rfl⟩
    · exact ih _

theorem allocate_keeps (st : State) (name : Nat) (dims : List Int) (n : Nat) (a : Arr)
    (hf : find n st.arrs = some a) : find n (allocate st name dims).1.arrs = some a := by
  unfold allocate
  split
  · exact hf
  · split
    · exact hf
    · split
      · exact hf
      · split
        · exact find_append_old _ hf
        · split
          · exact hf
          · exact find_append_old _ hf

theorem checkDim_keeps (st : State) (name : Nat) (idx : List Int) (n : Nat) (a : Arr)
    (hf : find n st.arrs = some a) : find n (checkDim st name idx).1.arrs = some a := by
  have hk := allocate_keeps st name (idx.map fun _ => (10:Int)) n a hf
  unfold checkDim
  split
  · split <;> exact hf
  · simp only
    split
    · next he => rw [he] at hk; exact hk
    · next he =>
      rw [he] at hk
      split
      · exact hk
      · split <;> exact hk

theorem optionBase_arrs (st : State) (b : Int) : (optionBase st b).1.arrs = st.arrs := by
  unfold optionBase
  split
  · split <;> rfl
  · rfl

theorem dim_keeps (st : State) (l : List (Nat × List Int)) (n : Nat) (a : Arr)
    (hf : find n st.arrs = some a) : find n (dim st l).1.arrs = some a := by
  induction l generalizing st with
  | nil => exact hf
  | cons x xs ih =>
    obtain ⟨m, d⟩ := x
    have hk := allocate_keeps st m d n a hf
    unfold dim
    split
    · next he => rw [he] at hk; exact hk
    · next he => rw [he] at hk; exact ih _ hk

theorem get_state (st : State) (m : Nat) (idx : List Int) :
    (Arrays.get st m idx).1 = (checkDim st m idx).1 := by
  unfold Arrays.get
  split <;> next he => rw [he]

theorem step_get_state (st : State) (m : Nat) (idx : List Int) :
    (step st (.get m idx)).1 = (Arrays.get st m idx).1 := by
  simp only [step]
  split <;> next he => rw [he]

theorem allocate_base_keep (st : State) (name : Nat) (dims : List Int) (b : Int)
    (hb : st.base = some b) (hd : st.byDim = false) :
    (allocate st name dims).1.base = some b ∧ (allocate st name dims).1.byDim = false := by
  unfold allocate
  split
  · exact ⟨hb, hd⟩
  · split
    · exact ⟨hb, hd⟩
    · split
      · exact ⟨hb, hd⟩
      · split
        · next hn => rw [hb] at hn; cases hn
        · split
          · exact ⟨hb, hd⟩
          · exact ⟨hb, hd⟩

theorem checkDim_base_keep (st : State) (name : Nat) (idx : List Int) (b : Int)
    (hb : st.base = some b) (hd : st.byDim = false) :
    (checkDim st name idx).1.base = some b ∧ (checkDim st name idx).1.byDim = false := by
  have hk := allocate_base_keep st name (idx.map fun _ => (10:Int)) b hb hd
  unfold checkDim
  split
  · split <;> exact ⟨hb, hd⟩
  · simp only
    split
    · next he => rw [he] at hk; exact hk
    · next he =>
      rw [he] at hk
      split
      · exact hk
      · split <;> exact hk

theorem optionBase_base_keep (st : State) (b' b : Int) (hb : st.base = some b) (hd : st.byDim = false) :
    (optionBase st b').1.base = some b ∧ (optionBase st b').1.byDim = false := by
  unfold optionBase
  rw [hb]
  simp only
  split
  · exact ⟨hb, hd⟩
  · next hne =>
    have e : b' = b := by simpa using hne
    exact ⟨by simp [e], hd⟩

theorem step_base_keep (st : State) (b : Int) (hb : st.base = some b) (hd : st.byDim = false)
    (op : Op) (hc : isClear op = false) :
    (step st op).1.base = some b ∧ (step st op).1.byDim = false := by
  cases op with
  | optionBase one =>
    simp only [step]
    exact optionBase_base_keep st _ b hb hd
  | dim l =>
    simp only [step]
    clear hc
    induction l generalizing st with
    | nil => exact ⟨hb, hd⟩
    | cons x xs ih =>
      obtain ⟨m, d⟩ := x
      have hk := allocate_base_keep st m d b hb hd
      unfold dim
      split
      · next he => rw [he] at hk; exact hk
      · next he => rw [he] at hk; exact ih _ hk.1 hk.2
  | erase l =>
    obtain ⟨e1, e2⟩ := eraseLoop_base st l
    simp only [step, erase]
    split
    · next he => rw [he] at e1 e2; exact ⟨by rw [e1]; exact hb, by rw [e2]; exact hd⟩
    · next s he =>
      rw [he] at e1 e2
      simp only at e1 e2
      have : s.byDim = false := by rw [e2]; exact hd
      have hif : (if (s.arrs.isEmpty && s.byDim) = true then (clearBase s, (none : Option Nat)) else (s, none)) = (s, none) := by
        simp [this]
      rw [hif]
      exact ⟨by rw [e1]; exact hb, this⟩
  | get m idx =>
    rw [step_get_state, get_state]
    exact checkDim_base_keep st m idx b hb hd
  | set m idx v =>
    have hk := checkDim_base_keep st m idx b hb hd
    simp only [step, Arrays.set]
    split
    · next he => rw [he] at hk; exact hk
    · next he => rw [he] at hk; exact hk
  | clear => simp [isClear] at hc

/-! ### the base alone (whatever the "set by DIM" flag says) -/

theorem optionBase_base_some (st : State) (b' b : Int) (hb : st.base = some b) :
    (optionBase st b').1.base = some b := by
  unfold optionBase
  rw [hb]
  simp only
  split
  · exact hb
  · next hne =>
    have e : b' = b := by simpa using hne
    simp [e]

theorem allocate_base_some (st : State) (name : Nat) (dims : List Int) (b : Int)
    (hb : st.base = some b) : (allocate st name dims).1.base = some b := by
  unfold allocate
  split
  · exact hb
  · split
    · exact hb
    · split
      · exact hb
      · split
        · next hn => rw [hb] at hn; cases hn
        · split
          · exact hb
          · exact hb

theorem dim_base_some (st : State) (l : List (Nat × List Int)) (b : Int)
    (hb : st.base = some b) : (dim st l).1.base = some b := by
  induction l generalizing st with
  | nil => exact hb
  | cons x xs ih =>
    obtain ⟨m, d⟩ := x
    have hk := allocate_base_some st m d b hb
    unfold dim
    split
    · next he => rw [he] at hk; exact hk
    · next he => rw [he] at hk; exact ih _ hk

theorem checkDim_base_some (st : State) (name : Nat) (idx : List Int) (b : Int)
    (hb : st.base = some b) : (checkDim st name idx).1.base = some b := by
  have hk := allocate_base_some st name (idx.map fun _ => (10:Int)) b hb
  unfold checkDim
  split
  · split <;> exact hb
  · simp only
    split
    · next he => rw [he] at hk; exact hk
    · next he =>
      rw [he] at hk
      split
      · exact hk
      · split <;> exact hk

/-! ### statements with several array references -/

theorem get_keeps (st : State) (m : Nat) (idx : List Int) (n : Nat) (a : Arr)
    (hf : find n st.arrs = some a) : find n (Arrays.get st m idx).1.arrs = some a := by
  rw [get_state]; exact checkDim_keeps st m idx n a hf

theorem evalSrcs_keeps (srcs : List (Nat × List Int)) : ∀ (st : State) (n : Nat) (a : Arr),
    find n st.arrs = some a → find n (evalSrcs st srcs).1.arrs = some a := by
  induction srcs with
  | nil => intro st n a hf; exact hf
  | cons x xs ih =>
    intro st n a hf
    obtain ⟨m, idx⟩ := x
    have hk := get_keeps st m idx n a hf
    unfold evalSrcs
    split
    · next he => rw [he] at hk; exact hk
    · next st' v he =>
      rw [he] at hk
      have hk2 := ih st' n a hk
      split
      · next he2 => rw [he2] at hk2; exact hk2
      · next he2 => rw [he2] at hk2; exact hk2

theorem set_keeps_dims (st : State) (m : Nat) (idx : List Int) (v : Int) (n : Nat) (a : Arr)
    (hf : find n st.arrs = some a) :
    ∃ a', find n (Arrays.set st m idx v).1.arrs = some a' ∧ a'.dims = a.dims := by
  have hk := checkDim_keeps st m idx n a hf
  unfold Arrays.set
  split
  · next he => rw [he] at hk; exact ⟨a, hk, rfl⟩
  · next st' b he =>
    rw [he] at hk
    have hb := checkDim_ok_find he
    by_cases hn : n = m
    · subst hn
      rw [hk] at hb
      have : a = b := by simpa using hb
      subst this
      exact ⟨_, find_update_same hk, rfl⟩
    · exact ⟨a, by simp only; rw [find_update_other _ _ hn]; exact hk, rfl⟩

end PcbV.Arrays
