"""Generate lean/PcbV/Gen/StateHeader.lean: the layout of the session state file header (state.py)."""
import struct

from gen_tables import generator, HEADER, lean_list, lean_str


@generator('StateHeader')
def gen_stateheader():
    from pcbasic.basic import state
    out = [HEADER, 'namespace PcbV.Gen.StateHeader\n']
    fmt = state.HEADER_FORMAT
    out.append('def format : String := %s' % lean_str(fmt))
    out.append('def size : Nat := %d' % struct.calcsize(fmt))
    # byte width of each field in order, little-endian flag
    out.append('def littleEndian : Bool := %s' % ('true' if fmt[0] == '<' else 'false'))
    out.append('def fieldWidths : List Nat := %s' % lean_list(struct.calcsize('<' + c) for c in fmt[1:]))
    out.append('def keys : List String := [%s]' % ', '.join(lean_str(k) for k in state.HEADER_KEYS))
    out.append('def formatVersion : Nat := %d' % state.HEADER['format_version'])
    out.append('\nend PcbV.Gen.StateHeader\n')
    return '\n'.join(out)
