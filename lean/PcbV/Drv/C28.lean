import PcbV.Model.DosFiles
namespace PcbV.Drv.C28
open PcbV PcbV.DosNames PcbV.DosFiles

def showName (c : HostName) : String :=
  if c.isEmpty then "e" else ".".intercalate (c.map toString)

def parseName (s : String) : Option HostName :=
  if s == "e" then some [] else (s.splitOn ".").mapM (·.toNat?)

def parseDir (s : String) : Option Dir :=
  if s == "-" then some [] else (s.splitOn ",").mapM parseName

def showDir (d : Dir) : String :=
  if d.isEmpty then "-" else ",".intercalate ((d.mergeSort lexLe).map showName)

def ljust (k : Nat) (b : Bytes) : Bytes := b ++ List.replicate (k - b.length) 32

/-- one column of the FILES output without the `<DIR>` / blank suffix -/
def entry (te : Bytes × Bytes) : Bytes :=
  ljust 8 te.1 ++ [if !te.2.isEmpty || te.1.isEmpty then 46 else 32] ++ ljust 3 te.2

def showListing (r : List (Bytes × Bytes) × List (Bytes × Bytes)) : String :=
  let es := r.1.map (fun te => "D" ++ toHex (entry te)) ++ r.2.map (fun te => "F" ++ toHex (entry te))
  if es.isEmpty then "-" else ",".intercalate es

def noSep (b : Bytes) : Bool := !(b.contains 47 || b.contains 92 || b.contains 58)

def stepOp (d : Dir) : List String → Option (String × Dir)
  | ["o", n, x] =>
    match ofHex n, ofHex x with
    | some n, some x =>
      if noSep n then some (showR showName (openFile d n x true), afterOpen d n x true) else none
    | _, _ => none
  | ["i", n, x] =>
    match ofHex n, ofHex x with
    | some n, some x => if noSep n then some (showR showName (openFile d n x false), d) else none
    | _, _ => none
  | ["k", m] =>
    match ofHex m with
    | some m =>
      if noSep m then
        some (showR (fun (k : List HostName) => showDir k) (kill d m), afterKill d m)
      else none
    | none => none
  | ["n", a, b] =>
    match ofHex a, ofHex b with
    | some a, some b =>
      if noSep a && noSep b && !a.isEmpty && !b.isEmpty then
        some (showR (fun (oc : HostName × HostName) => showName oc.1 ++ " " ++ showName oc.2) (rename d a b),
              afterRename d a b)
      else none
    | _, _ => none
  | ["f", m] =>
    match ofHex m with
    | some m => if noSep m then some (showR showListing (files d (some m)), d) else none
    | none => none
  | ["F"] => some (showR showListing (files d none), d)
  | _ => none

def handle : List String → String
  | ["norm", a] => match ofHex a with
    | some a => "ok " ++ toHex (normalise a)
    | none => "bad-op"
  | ["legal", a] => match ofHex a with
    | some a => "ok " ++ showBool (isLegal a)
    | none => "bad-op"
  | ["split", a] => match ofHex a with
    | some a => "ok " ++ toHex (splitext a).1 ++ " " ++ toHex (splitext a).2
    | none => "bad-op"
  | ["match", a, m] => match ofHex a, ofHex m with
    | some a, some m => "ok " ++ showBool (nameMatches a m)
    | _, _ => "bad-op"
  | ["defext", a, x] => match ofHex a, ofHex x with
    | some a, some x => "ok " ++ toHex (dosNameDefext a x)
    | _, _ => "bad-op"
  | ["disp", n] => match parseName n with
    | some n => "ok " ++ toHex (displayName n)
    | none => "bad-op"
  | "step" :: dir :: op =>
    match parseDir dir with
    | some d =>
      match stepOp d op with
      | some (reply, d') => reply ++ " | " ++ showDir d'
      | none => "bad-op"
    | none => "bad-op"
  | _ => "bad-op"

end PcbV.Drv.C28
