import PcbV.Lemmas.Heap
/-
  C10 — String variables keep their values through any memory history.

  Theorems about `PcbV.Heap` (model of strings.py StringSpace, memory.py DataSegment, scalars.py,
  arrays.py and the evaluation-stack discipline of expressions.py, *with* the pending repairs C10-*).

  `WF s`  : every pointer cell (string scalars, string array elements, own pointers on the evaluation
            stacks) with non-zero length pointing into string space is a key of the string map with that
            length; the blocks are non-empty, pairwise disjoint, above `current`, not above the top.
  abstract state : `absScalars`, `absArrays`, `absStack` (name ↦ bytes read through the pointers).

  Proved at full strength: the compacting collector (both loops, the stable sort, the write-back
  through views including several views of one cell) never crashes on a well-formed heap, preserves
  well-formedness and every readable value, never moves `current` down, and leaves string space
  exactly filled (FRE accounting); `check_free` fails only when the free space after a collection is
  insufficient and leaves every value unchanged in that case; storing a new string.
  Gap (named in `reset_temporaries_partial`): that `reset_temporaries` never deletes a string that
  is still referenced rests on the boundary invariant "every variable-owned string lies above
  `_temp`" through a collection (monotonicity of the relocation); it is an explicit hypothesis here
  and is validated on every run by the step-by-step correspondence of whole statement histories
  (`step`, `run`) with the real interpreter.
-/
namespace PcbV.C10
open PcbV PcbV.Heap

/-- On a well-formed heap the collector never meets a detached string (no Python KeyError). -/
theorem collect_total (s : Heap) (hs : WF s) : ∃ s', collect s = .ok s' := by
  obtain ⟨es, he⟩ := entriesOf_total s hs (rootLocs s)
  obtain ⟨tmp, h⟩ := collect_shape s es he
  exact ⟨_, h⟩

/-- **Garbage collection never changes a live value.**  The compacting collector keeps the heap
    well-formed and every scalar, every array element and every value on the evaluation stacks reads
    back exactly what it read before (also when several roots are views of the same cell). -/
theorem gc_preserves (s s' : Heap) (hs : WF s) (h : collect s = .ok s') :
    WF s' ∧ absScalars s' = absScalars s ∧ absArrays s' = absArrays s ∧ absStack s' = absStack s := by
  obtain ⟨t, last, hr, hsh, e1, e2, e3, e4, e5, e6, e7, e8, e9, e10, _, _⟩ := collect_facts s s' hs h
  obtain ⟨hb, hl, hv⟩ := hr.final
  have hg : ∀ l, getLoc s' l = getLoc t l := getLoc_congr s' t e8 e9 e10
  have hd : ∀ p, deref s' p = deref t p := fun p => deref_congr t s' p e5 e6 e7 e1
  refine ⟨⟨?_, ?_⟩, ?_⟩
  · rw [e2, e1, top_congr s' t e3 e4]; exact hb
  · intro l p hp h0 hvs
    rw [hg] at hp
    rw [e5] at hvs
    obtain ⟨b, hb1, hb2⟩ := hl l p hp h0 hvs
    exact ⟨b, by rw [e1]; exact hb1, hb2⟩
  · apply abs_eq_of_cells
    · exact ⟨by rw [e8]; exact hsh.sc, by rw [e9]; exact hsh.ar, by rw [e10]; exact hsh.st⟩
    · intro l
      rw [hg, ← hv l]
      cases getLoc t l with
      | none => rfl
      | some p => simp [hd]

/-- A collection never loses space: `current` does not move down (strings only move up). -/
theorem gc_never_loses_space (s s' : Heap) (hs : WF s) (h : collect s = .ok s') :
    s.current ≤ s'.current ∧ free s ≤ free s' := by
  obtain ⟨t, last, hr, _, _, e2, _, _, e5, _, _, _, _, _, e11, e12⟩ := collect_facts s s' hs h
  have := hr.current_ge hs
  refine ⟨by omega, ?_⟩
  unfold free used
  rw [e2, e5, hr.vs, e11, e12]
  omega

/-- **FRE accounting.**  After a collection string space is filled without gaps from the top:
    `current + (bytes stored) = stack_start`, so FRE = memory top − program/variables/arrays (`used`)
    − string bytes. -/
theorem fre_accounting (s s' : Heap) (hs : WF s) (h : collect s = .ok s') :
    s'.top = s.top ∧ used s' = used s ∧ s'.current + sumLen s'.strs = s'.top ∧
    (used s' ≤ s'.current → free s' + used s' + sumLen s'.strs = s'.top) := by
  obtain ⟨t, last, hr, _, e1, e2, e3, e4, e5, _, _, _, _, _, e11, e12⟩ := collect_facts s s' hs h
  have htop : s'.top = s.top := by rw [top_congr s' t e3 e4, top_congr t s hr.tot hr.stk]
  have hfill : s'.current + sumLen s'.strs = s'.top := by rw [e2, e1, htop]; exact hr.fill
  have hused : used s' = used s := by unfold used; rw [e5, hr.vs, e11, e12]
  refine ⟨htop, hused, hfill, fun hu => ?_⟩
  unfold free
  omega

/-- `check_free`: success leaves room, failure happens only after a collection; in both cases the
    heap stays well-formed and no value changes. -/
theorem checkFree_sound (size err : Nat) (s : Heap) (hs : WF s) :
    match checkFree size err s with
    | .ok s' => WF s' ∧ lowMem s' size = false ∧
        absScalars s' = absScalars s ∧ absArrays s' = absArrays s ∧ absStack s' = absStack s
    | .error (e, s') => e = err ∧ collect s = .ok s' ∧ lowMem s' size = true ∧ WF s' ∧
        absScalars s' = absScalars s ∧ absArrays s' = absArrays s ∧ absStack s' = absStack s := by
  unfold checkFree
  by_cases hlow : lowMem s size = true
  · rw [if_pos hlow]
    obtain ⟨s1, h1⟩ := collect_total s hs
    rw [h1]
    simp only
    obtain ⟨hw, ha⟩ := gc_preserves s s1 hs h1
    by_cases hlow1 : lowMem s1 size = true
    · rw [if_pos hlow1]; exact ⟨rfl, rfl, hlow1, hw, ha⟩
    · rw [if_neg hlow1]; exact ⟨hw, by simpa using hlow1, ha⟩
  · rw [if_neg hlow]
    exact ⟨hs, by simpa using hlow, rfl, rfl, rfl⟩

/-- **Out of memory / Out of string space only when needed**: `check_free` raises its error only
    if, after a collection (which never loses space and fills string space exactly), the free space
    `current − used` is still not larger than the requested size. -/
theorem oom_only_when_needed (size err e : Nat) (s s' : Heap) (hs : WF s)
    (h : checkFree size err s = .error (e, s')) :
    e = err ∧ collect s = .ok s' ∧ free s' ≤ size ∧ s'.current + sumLen s'.strs = s'.top := by
  have := checkFree_sound size err s hs
  rw [h] at this
  obtain ⟨h1, h2, h3, _⟩ := this
  refine ⟨h1, h2, ?_, (fre_accounting s s' hs h2).2.2.1⟩
  unfold lowMem at h3
  unfold free
  simp at h3
  omega

/-- Storing a new string (`StringSpace.store`, pointer left on the evaluation stack): on success the
    heap is well-formed, no variable changes and the new stack item reads the stored bytes; on failure
    (String too long / Out of string space) nothing readable changes. -/
theorem allocPush_sound (b : Bytes) (s : Heap) (hs : WF s) :
    match allocPush b s with
    | .ok s' => WF s' ∧ absScalars s' = absScalars s ∧ absArrays s' = absArrays s ∧
        absStack s' = absStack s ++ [b]
    | .error (_, s') => WF s' ∧ absScalars s' = absScalars s ∧ absArrays s' = absArrays s ∧
        absStack s' = absStack s := by
  unfold allocPush
  by_cases hlen : b.length > 255
  · rw [if_pos hlen]; exact ⟨hs, rfl, rfl, rfl⟩
  · rw [if_neg hlen]
    have hc := checkFree_sound b.length Gen.E.out_of_string_space s hs
    cases hcf : checkFree b.length Gen.E.out_of_string_space s with
    | error x =>
      obtain ⟨e, s1⟩ := x
      rw [hcf] at hc
      exact ⟨hc.2.2.2.1, hc.2.2.2.2⟩
    | ok s1 =>
      rw [hcf] at hc
      obtain ⟨hw, hlow, ha1, ha2, ha3⟩ := hc
      simp only
      unfold lowMem used at hlow
      simp at hlow
      have hn : b.length ≤ s1.current := by omega
      have hv : s1.varStart ≤ s1.current - b.length + 1 := by omega
      have hwf := hw.storeRaw_push b hn hv
      have hd : ∀ l p, getLoc s1 l = some p →
          deref (push (storeRaw s1 b).1 (.own (storeRaw s1 b).2)) p = deref s1 p := by
        intro l p hp
        rw [← deref_storeRaw s1 b p hw.blocks hn (hw.live l p hp)]
        exact deref_congr _ _ p rfl rfl rfl rfl
      refine ⟨hwf, ?_, ?_, ?_⟩
      · rw [← ha1]
        refine absScalars_eq (s := s1) (show _ = _ from rfl) ?_
        intro i
        rw [getLoc_push_v, getLoc_storeRaw]
        cases hp : getLoc s1 (.v (.sc i)) with
        | none => rfl
        | some p => simp [hd _ p hp]
      · rw [← ha2]
        refine absArrays_eq (s := s1) (show _ = _ from rfl) ?_
        intro a i
        rw [getLoc_push_v, getLoc_storeRaw]
        cases hp : getLoc s1 (.v (.el a i)) with
        | none => rfl
        | some p => simp [hd _ p hp]
      · rw [← ha3]
        show ((storeRaw s1 b).1.stack ++ [Item.own (storeRaw s1 b).2]).map _ = _
        rw [List.map_append]
        congr 1
        · apply List.map_congr_left
          intro it hit
          obtain ⟨k, hk⟩ := List.getElem?_of_mem hit
          cases it with
          | own p =>
            have : getLoc s1 (.s k) = some p := by
              simp only [getLoc]
              have : s1.stack[k]? = some (Item.own p) := hk
              rw [this]
            exact hd _ p this
          | ref l =>
            simp only [itemVal, itemPtr]
            have hgv : getV (push (storeRaw s1 b).1 (.own (storeRaw s1 b).2)) l = getV s1 l := by
              have := getLoc_push_v (storeRaw s1 b).1 (.own (storeRaw s1 b).2) l
              rw [getLoc_storeRaw] at this
              exact this
            rw [hgv]
            cases hp : getV s1 l with
            | none => simp; rw [deref_zero _ _ rfl, deref_zero _ _ rfl]
            | some p => simp; exact hd (.v l) p hp
        · simp only [List.map, itemVal, itemPtr]
          congr 1
          by_cases h0 : b.length = 0
          · rw [deref_zero _ _ (by exact h0)]
            exact (List.length_eq_zero_iff.mp h0).symm
          · apply deref_live _ _ _ (by exact h0)
            · exact hv
            · show lookup (storeRaw s1 b).1.strs _ = some b
              rw [(storeRaw_fields s1 b).2.1, if_pos (by omega)]
              exact lookup_cons_self _ _ _

/-- `reset_temporaries` (delete the temporary left at the top of string space by the previous
    expression, move the boundary): **partial** — safe under the explicit hypothesis that no cell
    still references the block at `current + 1` when the boundary differs from `current`.  Missing for
    the full statement: the boundary invariant (every variable-owned string lies above `_temp`, also
    after a collection re-addresses `_temp`), which makes the hypothesis true in every reachable
    state; see the header. -/
theorem reset_temporaries_partial (s : Heap) (hs : WF s)
    (hsafe : s.temp ≠ s.current → ∀ l p, getLoc s l = some p → 0 < p.len → p.addr ≠ s.current + 1) :
    WF (resetTemps s) ∧ (resetTemps s).temp = (resetTemps s).current ∧
    absScalars (resetTemps s) = absScalars s ∧ absArrays (resetTemps s) = absArrays s ∧
    absStack (resetTemps s) = absStack s := by
  unfold resetTemps
  by_cases ht : s.temp ≠ s.current
  · rw [if_pos ht]
    obtain ⟨hw, hg, hd, hsh, _⟩ := deleteLast_sound s hs (hsafe ht)
    have hg' : ∀ l, getLoc { deleteLast s with temp := (deleteLast s).current } l = getLoc s l :=
      fun l => (getLoc_congr _ (deleteLast s) rfl rfl rfl l).trans (hg l)
    refine ⟨⟨hw.blocks, fun l p hp => ?_⟩, rfl, ?_⟩
    · rw [hg'] at hp
      rw [← hg] at hp
      exact hw.live l p hp
    · apply abs_eq_of_cells (t := { deleteLast s with temp := (deleteLast s).current }) ⟨hsh.sc, hsh.ar, hsh.st⟩
      intro l
      rw [hg']
      cases hp : getLoc s l with
      | none => rfl
      | some p =>
        simp only [Option.map]
        congr 1
        exact (deref_congr (deleteLast s) _ p rfl rfl rfl rfl).trans (hd l p hp)
  · rw [if_neg ht]
    refine ⟨⟨hs.blocks, fun l p hp => hs.live l p hp⟩, rfl, rfl, rfl, rfl⟩

/-! ### non-vacuity -/

/-- a fresh session is well-formed -/
theorem init_WF (cs vs total stk : Nat) (code : List (Nat × Bytes)) : WF (init cs vs total stk code) := by
  constructor
  · exact Nat.le_refl _
  · intro l p hp
    cases l with
    | v l => cases l <;> simp [getLoc, getV, init] at hp
    | s k => simp [getLoc, init] at hp

/-- the default GW-BASIC configuration with no program -/
def demo : Heap := init 4717 4720 65534 512 []

def aS : Bytes := [65, 36]     -- A$
def bS : Bytes := [66, 36]     -- B$

/-- A$="ab" : B$=A$+A$+STR$(FRE("")) : PRINT FRE("") — the values and the FRE result of the model -/
example :
    let s := run demo [.letE (.sc aS) (.lit [97, 98]),
                        .letE (.sc bS) (.cat (.cat (.var (.sc aS)) (.var (.sc aS))) .frestr)]
    readDst s (.sc aS) = [97, 98] ∧ readDst s (.sc bS) = [97, 98, 97, 98, 32, 54, 48, 50, 56, 48]
      ∧ (step s .freStr).2 = .val 60274 := by decide +kernel

/-- the collector really runs (and is satisfiable with aliased roots): a state with a variable, a
    view of it and a temporary on the stack -/
def demo2 : Heap :=
  { demo with scalars := [(aS, ⟨2, 65000⟩)], scalBytes := 7, strs := [(64990, [120]), (65000, [97, 98])],
              current := 64989, temp := 64999, stack := [.ref (.sc 0), .own ⟨1, 64990⟩] }

example : (match collect demo2 with
           | .ok s => (absScalars s, absStack s, s.current, s.temp, s.strs.length)
           | .error _ => ([], [], 0, 0, 0))
    = ([(aS, [97, 98])], [[97, 98], [120]], 65017, 65018, 2) := by decide +kernel

/-! ### the code before the repairs -/

/-- D16: `Y$="c"+STR$(FRE(""))` with no permanent string: the old collector sets `_temp = None` and
    the next `is_permanent` comparison raises a Python TypeError. -/
def d16 : Heap := { demo with strs := [(65020, [99])], current := 65019, temp := 65020, stack := [.own ⟨1, 65020⟩] }

theorem D16_counterexample :
    (collectOld d16).map (·.2) = some none ∧ isPermanentOld none 65020 = none := by decide +kernel

/-- the same with a permanent variable whose one-byte string sits at the very top of string space:
    the old sentinel search (`addr < stack_start`) does not see it -/
def d16b : Heap := { demo with scalars := [(aS, ⟨1, 65020⟩)], scalBytes := 7, strs := [(65020, [99])],
                               current := 65019, temp := 65019 }

theorem sentinel_at_top_counterexample :
    (collectOld d16b).map (·.2) = some none ∧
    (match collect d16b with | .ok s => s.temp | .error _ => 0) = 65019 := by decide +kernel

/-- a view of a variable on the evaluation stack made the old collector store the string twice; in a
    nearly full memory the second copy lands below the variable area and the variable reads garbage
    (here: the empty string) — "garbage collection never changes a live value" was false -/
def dup : Heap :=
  { (init 10 96 614 512 []) with
    scalars := [(aS, ⟨3, 98⟩)]
    strs := [(98, [65, 66, 67])]
    current := 97
    temp := 97
    stack := [.ref (.sc 0)] }

theorem duplicate_view_counterexample :
    (collectOld dup).map (fun r => absScalars r.1) = some [(aS, [])] ∧
    (match collect dup with | .ok s => absScalars s | .error _ => []) = [(aS, [65, 66, 67])] := by
  decide +kernel

/-- the old `get_stack` left the evaluation stack of a failed statement in place: the dead temporary
    stays a root, and after CLEAR the next collection dereferences a detached string (KeyError) -/
theorem stack_leak_counterexample :
    let s1 := (stepOld demo (.letE (.sc aS) (.cat (.lit [120]) (.var (.el [82, 36] 50))))).1
    let s2 := (stepOld s1 (.clear 65534)).1
    (stepOld demo (.letE (.sc aS) (.cat (.lit [120]) (.var (.el [82, 36] 50))))).2 = .err 9 ∧
    s1.stack = [.own ⟨1, 65020⟩] ∧ (stepOld s2 .freStr).2 = .err crash ∧
    (step (step (step demo (.letE (.sc aS) (.cat (.lit [120]) (.var (.el [82, 36] 50))))).1 (.clear 65534)).1
       .freStr).2 = .val 60300 := by decide +kernel

end PcbV.C10
