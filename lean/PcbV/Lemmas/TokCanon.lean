import PcbV.Lemmas.TokRound
import PcbV.Lemmas.TokFloat
/-
  Lemmas for C17: respelled items and their canonical form; number literals of the float / &H / &O
  classes as well-formed `num` items.
-/
namespace PcbV.TokL
open PcbV PcbV.Gen PcbV.Gen.Tokens PcbV.Tok PcbV.Lst

def kwPrint : Bytes := [80, 82, 73, 78, 84]

/-- what the lister prints for an item: respelled keywords in upper case, `?` as PRINT, `GO TO` as GOTO -/
def canon : Item → Item
  | .kwAs _ k tok => .kw k tok
  | .qmark => .kw kwPrint [tPRINT]
  | .goTo _ k tok => .kw k tok
  | i => i

theorem enc_canon (i : Item) : (canon i).enc = i.enc := by
  cases i <;> first | rfl | (simp only [canon, Item.enc]; decide)

theorem encAll_canon : ∀ is : List Item, encAll (is.map canon) = encAll is := by
  intro is
  induction is with
  | nil => rfl
  | cons i is ih => simp only [List.map_cons, encAll, enc_canon, ih]

/-- canonical items are fixed by `canon` -/
def isCanon : Item → Bool
  | .kwAs _ _ _ => false
  | .qmark => false
  | .goTo _ _ _ => false
  | _ => true

/-! ## number literals as items -/

theorem float_tokNumber (cd : Codec) (txt tok R : Bytes) (hshape : floatText txt = true)
    (hstart : headIs (fun c => isDigit c || c == 46) txt = true)
    (hnotint : ¬ (txt.all isDigit = true ∧ readBase 10 txt ≤ 32767))
    (hread : cd.readFloat txt = some tok)
    (hf : (match txt.getLast? with
           | some l => l == 33 || l == 35
           | none => false) = true ∨ decFollowOK R = true) :
    tokNumber false cd (txt ++ R) = .ok (tok, R) := by
  obtain ⟨c, txt', rfl, hc⟩ := headIs_ex hstart
  have h38 : c ≠ 38 := by
    simp only [Bool.or_eq_true, beq_iff_eq] at hc
    rcases hc with hc | rfl
    · exact (isDigit_facts hc).2.2.2.2.2.2.2.1
    · decide
  have hr := readDec_floatText (c :: txt') R hshape hf
  have e : tokNumber false cd (c :: txt' ++ R) =
      (match decToken cd (readDec (c :: txt' ++ R)).1 with
       | .ok tok => .ok (tok, (readDec (c :: txt' ++ R)).2)
       | .error e => .error e) := by
    unfold tokNumber
    split
    · rename_i heq; simp at heq; exact absurd heq.1 h38
    · rfl
  rw [e, hr]
  have hd : decToken cd (c :: txt') = .ok tok := by
    unfold decToken
    have : ((c :: txt').all isDigit && !(c :: txt').isEmpty && decide (readBase 10 (c :: txt') ≤ 32767)) = false := by
      cases h1 : (c :: txt').all isDigit with
      | false => simp
      | true =>
        have : ¬ readBase 10 (c :: txt') ≤ 32767 := fun h => hnotint ⟨h1, h⟩
        simp [this]
    simp only [this, Bool.false_eq_true, if_false, hread]
  simp [hd]

theorem float_listNumber (old : Bool) (cd : Codec) (txt : Bytes) (lead : Nat) (pay E : Bytes)
    (hlead : (lead = tTSINGLE ∧ pay.length = 4) ∨ (lead = tTDOUBLE ∧ pay.length = 8))
    (hshow : cd.showFloat (lead :: pay) = some txt) :
    listNumber old cd lead (pay ++ E) = .ok (txt, E) := by
  unfold listNumber
  rcases hlead with ⟨rfl, hl⟩ | ⟨rfl, hl⟩
  · have h1 : ¬ ((pay ++ E).length < plusBytes tTSINGLE) := by simp [plusBytes, tTSINGLE, hl]
    have h2 : (pay ++ E).take (plusBytes tTSINGLE) = pay := by simp [plusBytes, tTSINGLE, ← hl]
    have h3 : (pay ++ E).drop (plusBytes tTSINGLE) = E := by simp [plusBytes, tTSINGLE, ← hl]
    rw [if_neg h1]
    simp only [h2, h3, hshow]
    simp [tTSINGLE, tTOCT, tTHEX, tTBYTE, tC0, tC10, lineNumberLeads, tTINT]
  · have h1 : ¬ ((pay ++ E).length < plusBytes tTDOUBLE) := by simp [plusBytes, tTDOUBLE, hl]
    have h2 : (pay ++ E).take (plusBytes tTDOUBLE) = pay := by simp [plusBytes, tTDOUBLE, ← hl]
    have h3 : (pay ++ E).drop (plusBytes tTDOUBLE) = E := by simp [plusBytes, tTDOUBLE, ← hl]
    rw [if_neg h1]
    simp only [h2, h3, hshow]
    simp [tTDOUBLE, tTSINGLE, tTOCT, tTHEX, tTBYTE, tC0, tC10, lineNumberLeads, tTINT]

end PcbV.TokL
